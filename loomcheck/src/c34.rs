//! C34 harnesses: dust_dds' oneshot / mpsc / notification channels (verbatim sources) under loom.
//!
//! Common oracles: every sent value is received exactly once (FIFO per producer); a receiver that waits is woken
//! (otherwise loom reports a deadlock = lost wake-up); `Err`/disconnection iff all senders are gone and nothing
//! is pending.

use std::future::Future;
use std::pin::Pin;
use std::task::Poll;

use loom::thread;

use crate::dcps::channels::mpsc::mpsc_channel;
use crate::dcps::channels::notification::notification;
use crate::dcps::channels::oneshot::oneshot;
use crate::futil::{block_on, poll_once, TestWaker};
use crate::infrastructure::error::DdsError;
use crate::{oracle, outcome, soft_finding, Harness};

pub fn harnesses() -> Vec<Harness> {
    // heaviest first: harness k runs in shard k mod n
    vec![
        Harness {
            name: "mpsc/3p1s",
            threads: 4,
            what: "3 producers x 1 send || consumer receives 3: each value exactly once",
            build: |_| Box::new(|| mpsc_producers(3, 1)),
        },
        Harness {
            name: "mail/request-reply",
            threads: 3,
            what: "2 API callers: send (id, oneshot reply sender) through the mpsc queue, block on the reply || worker: receive 2 mails, answer the first, drop the second unanswered: Ok(id*10) and Err(AlreadyDeleted)",
            build: |_| Box::new(mail_request_reply),
        },
        Harness {
            name: "mpsc/2p2s",
            threads: 3,
            what: "2 producers x 2 sends || consumer receives 4: each value once, FIFO per producer, no 5th value",
            build: |_| Box::new(|| mpsc_producers(2, 2)),
        },
        Harness {
            name: "notification/clone-drop-wait",
            threads: 3,
            what: "A: clone, drop original, notify on clone, drop clone || B: drop other sender || wait == Ok then Err",
            build: |_| Box::new(notif_clone_drop_wait),
        },
        Harness {
            name: "notification/two-notifiers",
            threads: 3,
            what: "A: notify || B: notify || wait == Ok; the second notification may coalesce (flag semantics), never more than 2",
            build: |_| Box::new(notif_two_notifiers),
        },
        Harness {
            name: "oneshot/send-recv",
            threads: 2,
            what: "send(7) || block_on(recv) == Ok(7)",
            build: |_| Box::new(oneshot_send_recv),
        },
        Harness {
            name: "oneshot/drop-recv",
            threads: 2,
            what: "drop(sender) without send || block_on(recv) == Err(AlreadyDeleted)",
            build: |_| Box::new(oneshot_drop_recv),
        },
        Harness {
            name: "oneshot/send-drop-repoll",
            threads: 2,
            what: "send(9) (consumes and drops the sender) || receiver polled with waker 1, then waker 2, then waits on waker 2",
            build: |_| Box::new(oneshot_repoll),
        },
        Harness {
            name: "oneshot/recv-dropped",
            threads: 2,
            what: "send(value) || drop(receiver): no panic, the value is dropped exactly once",
            build: |_| Box::new(oneshot_recv_dropped),
        },
        Harness {
            name: "mpsc/clone-drop-wait",
            threads: 2,
            what: "producer: clone, drop original, send(1) on clone, drop clone || consumer waits: Some(1); then probes disconnection",
            build: |_| Box::new(mpsc_clone_drop),
        },
        Harness {
            name: "mpsc/all-dropped",
            threads: 2,
            what: "drop(only sender) || consumer polls: what does the receiver report once every sender is gone?",
            build: |_| Box::new(mpsc_all_dropped),
        },
        Harness {
            name: "mpsc/recv-dropped",
            threads: 2,
            what: "send || drop(receiver): outcome of send recorded (sender side disconnection is not part of C34)",
            build: |_| Box::new(mpsc_recv_dropped),
        },
        Harness {
            name: "notification/notify-wait",
            threads: 2,
            what: "notify || wait == Ok; afterwards (a sender still alive) the flag is consumed: Pending",
            build: |_| Box::new(notif_notify_wait),
        },
        Harness {
            name: "notification/last-drop-wait",
            threads: 2,
            what: "drop(last sender) || wait == Err(AlreadyDeleted)",
            build: |_| Box::new(notif_last_drop),
        },
        Harness {
            name: "notification/notify-then-drop",
            threads: 2,
            what: "notify; drop(last sender) || wait == Ok (notification not lost), second wait == Err",
            build: |_| Box::new(notif_notify_then_drop),
        },
    ]
}

// ---- oneshot ----------------------------------------------------------------------------------------------

fn oneshot_send_recv() {
    let (tx, rx) = oneshot::<u32>();
    let t = thread::spawn(move || tx.send(7));
    let r = block_on(rx);
    oracle!(r == Ok(7), "wrong-value", "oneshot send(7): receiver got {:?}", r);
    outcome("oneshot/send-recv/Ok(7)");
    t.join().unwrap();
}

fn oneshot_drop_recv() {
    let (tx, rx) = oneshot::<u32>();
    let t = thread::spawn(move || drop(tx));
    let r = block_on(rx);
    oracle!(
        r == Err(DdsError::AlreadyDeleted),
        "no-disconnection-error",
        "sender dropped without send: receiver got {:?}",
        r
    );
    outcome("oneshot/drop/Err(AlreadyDeleted)");
    t.join().unwrap();
}

fn oneshot_repoll() {
    let (tx, rx) = oneshot::<u32>();
    let t = thread::spawn(move || tx.send(9));
    let mut rx = Box::pin(rx);
    let w1 = TestWaker::new();
    let w2 = TestWaker::new();
    let (r, at) = match poll_once(rx.as_mut(), &w1) {
        Poll::Ready(r) => (r, 1),
        Poll::Pending => match poll_once(rx.as_mut(), &w2) {
            Poll::Ready(r) => (r, 2),
            Poll::Pending => {
                // the waker registered last must be the one that is woken
                w2.wait();
                match poll_once(rx.as_mut(), &w2) {
                    Poll::Ready(r) => (r, 3),
                    Poll::Pending => panic!("ORACLE[woken-but-pending]: waker 2 woken but the receiver is still pending"),
                }
            }
        },
    };
    oracle!(r == Ok(9), "wrong-value", "send(9) then drop: receiver got {:?} at poll {}", r, at);
    t.join().unwrap();
    outcome(format!("oneshot/repoll/Ok(9)@poll{at}/w1={}/w2={}", w1.count(), w2.count()));
}

struct DropCount(std::sync::Arc<std::sync::atomic::AtomicUsize>);
impl Drop for DropCount {
    fn drop(&mut self) {
        self.0.fetch_add(1, std::sync::atomic::Ordering::SeqCst);
    }
}

fn oneshot_recv_dropped() {
    let drops = std::sync::Arc::new(std::sync::atomic::AtomicUsize::new(0));
    let (tx, rx) = oneshot::<DropCount>();
    let v = DropCount(drops.clone());
    let t = thread::spawn(move || tx.send(v));
    drop(rx);
    t.join().unwrap();
    let n = drops.load(std::sync::atomic::Ordering::SeqCst);
    oracle!(n == 1, "value-not-dropped-once", "value sent to a dropped receiver was dropped {} times", n);
    outcome("oneshot/recv-dropped/value-dropped-once");
}

// ---- mpsc ---------------------------------------------------------------------------------------------------

fn mpsc_producers(producers: usize, sends: usize) {
    let (tx, rx) = mpsc_channel::<(usize, usize)>();
    let mut ts = Vec::new();
    for p in 0..producers {
        let txp = tx.clone();
        ts.push(thread::spawn(move || {
            for i in 0..sends {
                txp.send((p, i)).expect("send on open channel");
            }
        }));
    }
    let mut next = vec![0usize; producers];
    let mut order = String::new();
    for _ in 0..producers * sends {
        let v = block_on(rx.receive());
        let (p, i) = match v {
            Some(v) => v,
            None => panic!("ORACLE[closed-with-live-senders]: receive() returned None while senders are alive"),
        };
        oracle!(p < producers && i == next[p], "fifo-or-duplicate", "received ({p},{i}) but expected index {} of producer {p}", next[p]);
        next[p] += 1;
        order.push_str(&format!("{p}"));
    }
    for t in ts {
        t.join().unwrap();
    }
    // all values were received exactly once: nothing may be left (the original sender is still alive)
    let w = TestWaker::new();
    let mut fut = Box::pin(rx.receive());
    match poll_once(fut.as_mut(), &w) {
        Poll::Pending => {}
        Poll::Ready(v) => panic!("ORACLE[extra-value]: after all values were received the queue yields {:?}", v),
    }
    drop(fut);
    drop(tx);
    outcome(format!("mpsc/{producers}p{sends}s/order={order}"));
}

/// After every sender is gone (and nothing is queued) the receiver should report disconnection (`None`).
/// dust_dds never sets `is_closed`, so the receiver stays pending for ever: recorded as a finding, not a failure.
fn probe_disconnection(harness: &'static str, rx: &crate::dcps::channels::mpsc::MpscReceiver<u32>) {
    let w = TestWaker::new();
    let mut fut = Box::pin(rx.receive());
    match poll_once(fut.as_mut(), &w) {
        Poll::Ready(None) => outcome(format!("{harness}/after-all-senders-dropped/None")),
        Poll::Ready(Some(v)) => panic!("ORACLE[extra-value]: value {v} appeared after all values were received"),
        Poll::Pending => {
            outcome(format!("{harness}/after-all-senders-dropped/Pending(wakes={})", w.count()));
            soft_finding(
                harness,
                "C34/mpsc/no-disconnection",
                "all MpscSender clones were dropped (sender threads joined) and the queue is empty, but \
                 MpscReceiver::receive() stays Pending and its waker is never woken: MpscInner::is_closed is \
                 never set (MpscSender has no Drop impl and there is no close()), so the receiver can never \
                 observe disconnection and `while let Some(m) = rx.receive().await` loops never end",
            );
        }
    }
}

fn mpsc_clone_drop() {
    let (tx, rx) = mpsc_channel::<u32>();
    let t = thread::spawn(move || {
        let tx2 = tx.clone();
        drop(tx);
        tx2.send(1).expect("send on open channel");
        drop(tx2);
    });
    let v = block_on(rx.receive());
    oracle!(v == Some(1), "wrong-value", "clone/drop/send(1): receiver got {:?}", v);
    outcome("mpsc/clone-drop-wait/Some(1)");
    t.join().unwrap();
    probe_disconnection("mpsc/clone-drop-wait", &rx);
}

fn mpsc_all_dropped() {
    let (tx, rx) = mpsc_channel::<u32>();
    let t = thread::spawn(move || drop(tx));
    // a first poll that may register a waker before the drop
    let w = TestWaker::new();
    {
        let mut fut = Box::pin(rx.receive());
        match poll_once(fut.as_mut(), &w) {
            Poll::Ready(None) => outcome("mpsc/all-dropped/first-poll/None"),
            Poll::Ready(Some(v)) => panic!("ORACLE[extra-value]: value {v} received but nothing was sent"),
            Poll::Pending => outcome("mpsc/all-dropped/first-poll/Pending"),
        }
    }
    t.join().unwrap();
    outcome(format!("mpsc/all-dropped/first-waker-wakes={}", w.count()));
    probe_disconnection("mpsc/all-dropped", &rx);
}

fn mpsc_recv_dropped() {
    let (tx, rx) = mpsc_channel::<u32>();
    let t = thread::spawn(move || {
        let r = tx.send(3);
        outcome(format!("mpsc/recv-dropped/send-concurrent-with-drop/{}", if r.is_ok() { "Ok" } else { "Err(Closed)" }));
        tx
    });
    drop(rx);
    let tx = t.join().unwrap();
    let r = tx.send(4);
    outcome(format!("mpsc/recv-dropped/send-after-drop/{}", if r.is_ok() { "Ok" } else { "Err(Closed)" }));
}

// ---- mpsc + oneshot: the mail pattern between API callers and the worker -------------------------------------

fn mail_request_reply() {
    use crate::dcps::channels::oneshot::OneshotSender;
    let (tx, rx) = mpsc_channel::<(u32, OneshotSender<u32>)>();
    let mut callers = Vec::new();
    for id in 1..=2u32 {
        let txc = tx.clone();
        callers.push(thread::spawn(move || {
            let (reply_tx, reply_rx) = oneshot::<u32>();
            txc.send((id, reply_tx)).expect("send on open channel");
            (id, block_on(reply_rx))
        }));
    }
    // worker: answers the first mail, drops the second without answering
    let (id_a, reply_a) = block_on(rx.receive()).expect("mail 1");
    reply_a.send(id_a * 10);
    let (id_b, reply_b) = block_on(rx.receive()).expect("mail 2");
    oracle!(id_a != id_b, "fifo-or-duplicate", "the same mail {} was received twice", id_a);
    drop(reply_b);
    for c in callers {
        let (id, r) = c.join().unwrap();
        if id == id_a {
            oracle!(r == Ok(id * 10), "wrong-value", "caller {} expected Ok({}), got {:?}", id, id * 10, r);
        } else {
            oracle!(r == Err(DdsError::AlreadyDeleted), "no-disconnection-error", "caller {} whose reply sender was dropped got {:?}", id, r);
        }
    }
    outcome(format!("mail/request-reply/answered={id_a}/dropped={id_b}"));
}

// ---- notification ---------------------------------------------------------------------------------------------

fn notif_notify_wait() {
    let (tx, mut rx) = notification();
    let keep = tx.clone();
    let t = thread::spawn(move || {
        tx.notify();
        tx // keep the sender alive: returned to main
    });
    let r = block_on(Pin::new(&mut rx));
    oracle!(r == Ok(()), "wrong-result", "notify: receiver got {:?}", r);
    let tx = t.join().unwrap();
    let w = TestWaker::new();
    match poll_once(Pin::new(&mut rx), &w) {
        Poll::Pending => outcome("notification/notify-wait/Ok-then-Pending"),
        Poll::Ready(r) => panic!("ORACLE[duplicate-notification]: one notify delivered twice: second wait returned {:?}", r),
    }
    drop(tx);
    drop(keep);
}

fn notif_clone_drop_wait() {
    let (tx, mut rx) = notification();
    let tx2 = tx.clone();
    let a = thread::spawn(move || {
        let c = tx.clone();
        drop(tx);
        c.notify();
        drop(c);
    });
    let b = thread::spawn(move || drop(tx2));
    let r1 = block_on(Pin::new(&mut rx));
    oracle!(r1 == Ok(()), "notification-lost", "a notify happened before the last sender was dropped but the first wait returned {:?}", r1);
    let r2 = block_on(Pin::new(&mut rx));
    oracle!(r2 == Err(DdsError::AlreadyDeleted), "no-disconnection-error", "all senders dropped: second wait returned {:?}", r2);
    a.join().unwrap();
    b.join().unwrap();
    outcome("notification/clone-drop-wait/Ok-then-Err(AlreadyDeleted)");
}

fn notif_last_drop() {
    let (tx, mut rx) = notification();
    let t = thread::spawn(move || drop(tx));
    let r = block_on(Pin::new(&mut rx));
    oracle!(r == Err(DdsError::AlreadyDeleted), "no-disconnection-error", "last sender dropped without notify: wait returned {:?}", r);
    t.join().unwrap();
    outcome("notification/last-drop/Err(AlreadyDeleted)");
}

fn notif_notify_then_drop() {
    let (tx, mut rx) = notification();
    let t = thread::spawn(move || {
        tx.notify();
        drop(tx);
    });
    let r1 = block_on(Pin::new(&mut rx));
    oracle!(r1 == Ok(()), "notification-lost", "notify then drop: first wait returned {:?}", r1);
    let r2 = block_on(Pin::new(&mut rx));
    oracle!(r2 == Err(DdsError::AlreadyDeleted), "no-disconnection-error", "notify then drop: second wait returned {:?}", r2);
    t.join().unwrap();
    outcome("notification/notify-then-drop/Ok-then-Err(AlreadyDeleted)");
}

fn notif_two_notifiers() {
    let (tx, mut rx) = notification();
    let keep = tx.clone();
    let tx_b = tx.clone();
    let a = thread::spawn(move || tx.notify());
    let b = thread::spawn(move || tx_b.notify());
    let r1 = block_on(Pin::new(&mut rx));
    oracle!(r1 == Ok(()), "notification-lost", "two notifies: first wait returned {:?}", r1);
    a.join().unwrap();
    b.join().unwrap();
    let w = TestWaker::new();
    let second = match poll_once(Pin::new(&mut rx), &w) {
        Poll::Pending => "coalesced",
        Poll::Ready(Ok(())) => "separate",
        Poll::Ready(Err(e)) => panic!("ORACLE[wrong-result]: sender alive but wait returned Err({:?})", e),
    };
    if second == "separate" {
        match poll_once(Pin::new(&mut rx), &w) {
            Poll::Pending => {}
            Poll::Ready(r) => panic!("ORACLE[duplicate-notification]: two notifies delivered three times: {:?}", r),
        }
    }
    outcome(format!("notification/two-notifiers/Ok-then-{second}"));
    drop(keep);
}

#[allow(dead_code)]
fn _assert_future<F: Future>(_: &F) {}
