//! Re-use of loom's coroutine stacks.
//!
//! loom runs every model thread on a `generator` coroutine and allocates a fresh 32 KiB stack with
//! `mmap` + `mprotect` and frees it with `munmap` for every thread of every iteration. On a loaded (virtualised)
//! machine these three system calls and the page faults of the fresh stack cost 10 to 20 times more than the
//! iteration itself (measured: `munmap` 635 us per call, 85 % of the wall time spent in the kernel). The
//! executable therefore defines `mmap`/`munmap` itself (symbols of the executable win over libc's for the calls
//! made by the `generator` crate, which is linked into the executable; glibc's own internal calls are not
//! affected) and keeps unmapped regions that look exactly like generator stacks (anonymous, private, MAP_STACK,
//! read/write, no address hint, <= 1 MiB) in a small free list instead of returning them to the kernel.
//! Everything else is passed to the kernel unchanged. Only regions that were handed out by this `mmap` are ever
//! cached. This changes nothing about what loom explores (iteration counts are identical with and without);
//! set LOOMCHECK_NO_STACK_CACHE=1 to switch it off.

#![cfg(all(target_os = "linux", target_arch = "x86_64"))]

use std::ffi::{c_int, c_long, c_void};
use std::sync::atomic::{AtomicBool, Ordering};
use std::sync::Mutex;

unsafe extern "C" {
    fn syscall(num: c_long, ...) -> c_long;
}

const SYS_MMAP: c_long = 9;
const SYS_MUNMAP: c_long = 11;
const PROT_RW: c_int = 0x1 | 0x2;
const STACK_FLAGS: c_int = 0x02 /* MAP_PRIVATE */ | 0x20 /* MAP_ANONYMOUS */ | 0x20000 /* MAP_STACK */;
const MAX_LEN: usize = 1 << 20;
const N_FREE: usize = 16;
const N_ISSUED: usize = 64;

struct Cache {
    free: [(usize, usize); N_FREE],
    nfree: usize,
    issued: [(usize, usize); N_ISSUED],
    nissued: usize,
}

static ENABLED: AtomicBool = AtomicBool::new(false);
static CACHE: Mutex<Cache> =
    Mutex::new(Cache { free: [(0, 0); N_FREE], nfree: 0, issued: [(0, 0); N_ISSUED], nissued: 0 });
pub static HITS: std::sync::atomic::AtomicUsize = std::sync::atomic::AtomicUsize::new(0);

pub fn enable() {
    if std::env::var_os("LOOMCHECK_NO_STACK_CACHE").is_none() {
        ENABLED.store(true, Ordering::SeqCst);
    }
}

#[unsafe(no_mangle)]
pub unsafe extern "C" fn mmap(addr: *mut c_void, len: usize, prot: c_int, flags: c_int, fd: c_int, off: i64) -> *mut c_void {
    let cacheable = ENABLED.load(Ordering::Relaxed)
        && addr.is_null()
        && fd == -1
        && flags == STACK_FLAGS
        && prot == PROT_RW
        && len <= MAX_LEN;
    if cacheable {
        if let Ok(mut c) = CACHE.lock() {
            if let Some(i) = (0..c.nfree).find(|i| c.free[*i].1 == len) {
                let region = c.free[i];
                let last = c.nfree - 1;
                c.free[i] = c.free[last];
                c.nfree = last;
                if c.nissued < N_ISSUED {
                    let n = c.nissued;
                    c.issued[n] = region;
                    c.nissued += 1;
                    HITS.fetch_add(1, Ordering::Relaxed);
                    return region.0 as *mut c_void;
                }
                // cannot track it: give it back to the kernel and fall through to a real mmap
                unsafe { syscall(SYS_MUNMAP, region.0, region.1) };
            }
        }
    }
    let p = unsafe { syscall(SYS_MMAP, addr, len, prot as c_long, flags as c_long, fd as c_long, off) } as *mut c_void;
    if cacheable && p as isize != -1 {
        if let Ok(mut c) = CACHE.lock() {
            if c.nissued < N_ISSUED {
                let n = c.nissued;
                c.issued[n] = (p as usize, len);
                c.nissued += 1;
            }
        }
    }
    p
}

#[unsafe(no_mangle)]
pub unsafe extern "C" fn munmap(addr: *mut c_void, len: usize) -> c_int {
    if ENABLED.load(Ordering::Relaxed) {
        if let Ok(mut c) = CACHE.lock() {
            if let Some(i) = (0..c.nissued).find(|i| c.issued[*i] == (addr as usize, len)) {
                let last = c.nissued - 1;
                c.issued[i] = c.issued[last];
                c.nissued = last;
                if c.nfree < N_FREE {
                    let n = c.nfree;
                    c.free[n] = (addr as usize, len);
                    c.nfree += 1;
                    return 0;
                }
            }
        }
    }
    unsafe { syscall(SYS_MUNMAP, addr, len) as c_int }
}
