//! `critical_section` implementation on loom primitives: every `critical_section::with` in the channel code is
//! a loom scheduling point, and a thread that finds the section taken *blocks* (never spins).
//!
//! acquire = lock, wait while taken, take, return the previous state; release = give back, notify_one.
//! Like the real std implementation the section is re-entrant for its owner (the restore state says whether the
//! acquire was a nested one): values dropped inside a section may themselves be channel ends whose `Drop` enters
//! a section.

use loom::sync::{Condvar, Mutex};
use loom::thread::ThreadId;

struct Cs {
    owner: Mutex<Option<ThreadId>>,
    cv: Condvar,
}

loom::lazy_static! {
    static ref CS: Cs = Cs { owner: Mutex::new(None), cv: Condvar::new() };
}

struct LoomCriticalSection;
critical_section::set_impl!(LoomCriticalSection);

unsafe impl critical_section::Impl for LoomCriticalSection {
    unsafe fn acquire() -> bool {
        let me = loom::thread::current().id();
        let mut owner = CS.owner.lock().unwrap();
        if *owner == Some(me) {
            return true; // nested: nothing to restore on release
        }
        while owner.is_some() {
            owner = CS.cv.wait(owner).unwrap();
        }
        *owner = Some(me);
        false
    }

    unsafe fn release(was_nested: bool) {
        if was_nested {
            return;
        }
        let mut owner = CS.owner.lock().unwrap();
        *owner = None;
        CS.cv.notify_one();
    }
}
