//! C42 harnesses: dust_dds' std runtime timer (`TimerDriver`/`TimerHandle`/`Sleep`) and blocking helpers
//! (`block_on`, `block_timeout`, `Executor`) on the virtual std of `crate::vstd`, under loom.
//!
//! Oracles: a sleep resolves only when virtual now >= first-poll time + duration; it does resolve (loom
//! reports a deadlock otherwise); a cancelled sleep's waker is never woken after the timer thread dequeued the
//! `Cancel` message; `block_timeout` returns `Timeout` only if the future was still pending when the virtual
//! clock reached start + duration; `block_on` returns the future's output.

use std::future::Future;
use std::pin::Pin;
use std::sync::Arc;
use std::task::{Context, Poll};
use std::time::Duration;

use crate::dcps::channels::oneshot::oneshot;
use crate::futil::{poll_once, TestWaker};
use crate::infrastructure::error::DdsError;
use crate::runtime::{Spawner, TaskHandle, Timer};
use crate::std_runtime::executor::{block_on, block_timeout, Executor};
use crate::std_runtime::timer::TimerDriver;
use crate::vstd::probe::{now_ns, sleep_until, snapshot};
use crate::vstd::Env;
use crate::{oracle, outcome, Harness};

fn ns(n: u64) -> Duration {
    Duration::from_nanos(n)
}

pub fn harnesses() -> Vec<Harness> {
    vec![
        Harness {
            name: "executor/sleep-task",
            threads: 4,
            what: "Executor task: timer.delay(10ns).await; send(now) || main block_on(recv): value >= start+10; join()",
            build: |cfg| {
                let ticks = cfg.ticks.clone();
                Box::new(move || executor_sleep_task(&ticks))
            },
        },
        Harness {
            name: "timer/two-sleeps-equal",
            threads: 4,
            what: "two threads each block_on(sleep(10ns)) on one TimerDriver",
            build: |cfg| {
                let ticks = cfg.ticks.clone();
                Box::new(move || two_sleeps_two_threads(&ticks, 10, 10))
            },
        },
        Harness {
            name: "timer/two-sleeps-inverted",
            threads: 3,
            what: "one task joins sleep(20ns) (polled first) and sleep(10ns) (polled second)",
            build: |cfg| {
                let ticks = cfg.ticks.clone();
                Box::new(move || two_sleeps_joined(&ticks, 20, 10))
            },
        },
        Harness {
            name: "timer/one-sleep",
            threads: 3,
            what: "block_on(sleep(10ns)): completes, and not before first poll + 10ns",
            build: |cfg| {
                let ticks = cfg.ticks.clone();
                Box::new(move || one_sleep(&ticks))
            },
        },
        Harness {
            name: "timer/drop-before-poll",
            threads: 3,
            what: "sleep(10ns) dropped unpolled (Cancel of an unknown id), then block_on(sleep(5ns))",
            build: |cfg| {
                let ticks = cfg.ticks.clone();
                Box::new(move || drop_before_poll(&ticks))
            },
        },
        Harness {
            name: "timer/drop-after-poll",
            threads: 3,
            what: "sleep(10ns) polled once with a counting waker, dropped; then block_on(sleep(20ns)): the counting waker is never woken after the timer thread dequeued the Cancel, and never before its deadline",
            build: |cfg| {
                let ticks = cfg.ticks.clone();
                Box::new(move || drop_after_poll(&ticks))
            },
        },
        Harness {
            name: "timer/drop-after-two-polls",
            threads: 3,
            what: "sleep(10ns) polled twice with a counting waker (two heap entries with the same id), dropped; then block_on(sleep(20ns)): the counting waker is never woken after the timer thread dequeued the Cancel",
            build: |cfg| {
                let ticks = cfg.ticks.clone();
                Box::new(move || drop_after_polls(&ticks, 2))
            },
        },
        Harness {
            name: "timer/repoll-new-waker",
            threads: 3,
            what: "sleep(10ns) polled with waker 1, re-polled with waker 2; waker 2 is woken and the sleep is then ready",
            build: |cfg| {
                let ticks = cfg.ticks.clone();
                Box::new(move || repoll_new_waker(&ticks))
            },
        },
        Harness {
            name: "block_timeout/oneshot-before",
            threads: 3,
            what: "block_timeout(10ns, oneshot recv) || sender sends immediately",
            build: |cfg| {
                let ticks = cfg.ticks.clone();
                Box::new(move || block_timeout_oneshot(&ticks, "before", 0))
            },
        },
        Harness {
            name: "block_timeout/oneshot-at",
            threads: 3,
            what: "block_timeout(10ns, oneshot recv) || sender sends when the clock reaches 10ns",
            build: |cfg| {
                let ticks = cfg.ticks.clone();
                Box::new(move || block_timeout_oneshot(&ticks, "at", 10))
            },
        },
        Harness {
            name: "block_timeout/oneshot-after",
            threads: 3,
            what: "block_timeout(10ns, oneshot recv) || sender sends when the clock reaches 15ns",
            build: |cfg| {
                let ticks = cfg.ticks.clone();
                Box::new(move || block_timeout_oneshot(&ticks, "after", 15))
            },
        },
        Harness {
            name: "block_timeout/sleep-short",
            threads: 3,
            what: "block_timeout(10ns, sleep(5ns)): Ok not before 5ns; Timeout not before 10ns",
            build: |cfg| {
                let ticks = cfg.ticks.clone();
                Box::new(move || block_timeout_sleep(&ticks))
            },
        },
        Harness {
            name: "timer/huge-duration",
            threads: 3,
            what: "block_on(sleep(Duration::MAX)): Sleep::reset falls back to a 24 h deadline when the deadline is not representable; recorded as a finding, not a failure",
            build: |_| Box::new(huge_duration),
        },
        Harness {
            name: "block_on/other-thread",
            threads: 3,
            what: "block_on(oneshot recv) || other thread sends 7: returns Ok(7)",
            build: |_| Box::new(block_on_other_thread),
        },
        Harness {
            name: "executor/spawn-join",
            threads: 3,
            what: "Executor task sends 5 || main block_on(recv) == Ok(5); ExecutorTaskHandle::join() returns",
            build: |_| Box::new(executor_spawn_join),
        },
    ]
}

/// Wraps a `Sleep`: remembers the virtual time just before its first poll and checks on completion that at
/// least `dur` ns have passed since (the sleep's own deadline is first-poll time + dur or later).
struct Checked<F> {
    inner: F,
    dur: u64,
    first_poll: Option<u64>,
    done_at: Option<u64>,
    label: &'static str,
}

impl<F> Checked<F> {
    fn new(inner: F, dur: u64, label: &'static str) -> Self {
        Checked { inner, dur, first_poll: None, done_at: None, label }
    }
}

impl<F: Future<Output = ()> + Unpin> Future for Checked<F> {
    type Output = u64;
    fn poll(mut self: Pin<&mut Self>, cx: &mut Context<'_>) -> Poll<u64> {
        if let Some(t) = self.done_at {
            return Poll::Ready(t);
        }
        if self.first_poll.is_none() {
            self.first_poll = Some(now_ns());
        }
        match Pin::new(&mut self.inner).poll(cx) {
            Poll::Pending => Poll::Pending,
            Poll::Ready(()) => {
                let now = now_ns();
                let t0 = self.first_poll.unwrap();
                oracle!(
                    now >= t0 + self.dur,
                    "sleep-completed-early",
                    "{}: sleep of {} ns first polled at {} ns completed at {} ns",
                    self.label,
                    self.dur,
                    t0,
                    now
                );
                self.done_at = Some(now - t0);
                Poll::Ready(now - t0)
            }
        }
    }
}

struct Join2<A, B>(A, B);
impl<A: Future<Output = u64> + Unpin, B: Future<Output = u64> + Unpin> Future for Join2<A, B> {
    type Output = (u64, u64);
    fn poll(mut self: Pin<&mut Self>, cx: &mut Context<'_>) -> Poll<(u64, u64)> {
        let a = Pin::new(&mut self.0).poll(cx);
        let b = Pin::new(&mut self.1).poll(cx);
        match (a, b) {
            (Poll::Ready(a), Poll::Ready(b)) => Poll::Ready((a, b)),
            _ => Poll::Pending,
        }
    }
}

fn one_sleep(ticks: &[u64]) {
    let env = Env::start(ticks);
    let driver = TimerDriver::new();
    let handle = driver.handle();
    let took = block_on(Checked::new(handle.sleep(ns(10)), 10, "one-sleep"));
    outcome(format!("timer/one-sleep/completed-after-{took}ns"));
    drop(handle);
    drop(driver);
    env.finish();
}

fn two_sleeps_two_threads(ticks: &[u64], d1: u64, d2: u64) {
    let env = Env::start(ticks);
    let driver = TimerDriver::new();
    let h1 = driver.handle();
    let h2 = driver.handle();
    let t = loom::thread::spawn(move || {
        let took = block_on(Checked::new(h2.sleep(ns(d2)), d2, "thread-2"));
        drop(h2);
        took
    });
    let took1 = block_on(Checked::new(h1.sleep(ns(d1)), d1, "thread-1"));
    let took2 = t.join().unwrap();
    outcome(format!("timer/two-sleeps-equal/{took1}ns/{took2}ns"));
    drop(h1);
    drop(driver);
    env.finish();
}

fn two_sleeps_joined(ticks: &[u64], d1: u64, d2: u64) {
    let env = Env::start(ticks);
    let driver = TimerDriver::new();
    let h = driver.handle();
    let s1 = Checked::new(h.sleep(ns(d1)), d1, "first-polled");
    let s2 = Checked::new(h.sleep(ns(d2)), d2, "second-polled");
    let (a, b) = block_on(Join2(s1, s2));
    outcome(format!("timer/two-sleeps-inverted/{a}ns/{b}ns"));
    drop(h);
    drop(driver);
    env.finish();
}

fn drop_before_poll(ticks: &[u64]) {
    let env = Env::start(ticks);
    let driver = TimerDriver::new();
    let h = driver.handle();
    let s = h.sleep(ns(10));
    drop(s);
    let took = block_on(Checked::new(h.sleep(ns(5)), 5, "after-unpolled-drop"));
    outcome(format!("timer/drop-before-poll/next-sleep-completed-after-{took}ns"));
    drop(h);
    drop(driver);
    env.finish();
}

fn drop_after_poll(ticks: &[u64]) {
    drop_after_polls(ticks, 1)
}

/// `polls` Pending polls (each sends a Wake with the same id to the timer thread), then the drop (one Cancel): the Cancel
/// must remove every entry of that id (added after seeded change C42-1, whose cancel fast path removed only one).
fn drop_after_polls(ticks: &[u64], polls: usize) {
    let env = Env::start(ticks);
    let driver = TimerDriver::new(); // creates channel 0: the timer thread's message queue
    let h = driver.handle();
    let cw = TestWaker::with_probe(|| {
        let (dequeued, now) = snapshot(0);
        (dequeued, now)
    });
    let mut s = Box::pin(h.sleep(ns(10)));
    let t0 = now_ns();
    let mut sent = 0usize;
    for k in 0..polls {
        match poll_once(s.as_mut(), &cw) {
            Poll::Pending => sent += 1, // message on channel 0: Wake(id 0)
            Poll::Ready(()) if k == 0 => panic!("ORACLE[sleep-completed-early]: sleep(10ns) ready at its first poll"),
            Poll::Ready(()) => {
                // the clock reached the deadline between two polls: nothing left to cancel
                oracle!(now_ns() >= t0 + 10, "sleep-completed-early", "sleep(10ns) first polled at {} ns ready at {} ns", t0, now_ns());
                drop(s);
                drop(h);
                drop(driver);
                env.finish();
                outcome(format!("timer/drop-after-{polls}-polls/ready-at-poll-{}", k + 1));
                return;
            }
        }
    }
    let cancel_index = sent + 1;
    drop(s); // next message on channel 0: Cancel(id 0)
    // a longer sleep: when it has completed the timer thread has dequeued the Cancel and the clock has passed
    // the first sleep's deadline
    let took = block_on(Checked::new(h.sleep(ns(20)), 20, "after-polled-drop"));
    drop(h);
    drop(driver);
    env.finish();
    let log = cw.log();
    for (dequeued, now) in &log {
        oracle!(
            (*dequeued as usize) < cancel_index,
            "woken-after-cancel",
            "the waker of a dropped sleep was woken at {} ns after the timer thread had dequeued {} messages (Wakes, Cancel)",
            now,
            dequeued
        );
        oracle!(
            *now > t0 + 10,
            "woken-before-deadline",
            "the waker of sleep(10ns) first polled at >= {} ns was woken at {} ns",
            t0,
            now
        );
    }
    outcome(format!("timer/drop-after-{}/wakes-of-dropped-sleep={}/next-sleep-{took}ns", if polls == 1 { "poll".to_string() } else { format!("{polls}-polls") }, log.len()));
}

fn repoll_new_waker(ticks: &[u64]) {
    let env = Env::start(ticks);
    let driver = TimerDriver::new();
    let h = driver.handle();
    let w1 = TestWaker::with_probe(|| snapshot(0));
    let w2 = TestWaker::with_probe(|| snapshot(0));
    let mut s = Box::pin(h.sleep(ns(10)));
    let t0 = now_ns();
    match poll_once(s.as_mut(), &w1) {
        Poll::Pending => {}
        Poll::Ready(()) => panic!("ORACLE[sleep-completed-early]: sleep(10ns) ready at its first poll"),
    }
    let at = match poll_once(s.as_mut(), &w2) {
        Poll::Ready(()) => 2,
        Poll::Pending => {
            w2.wait();
            match poll_once(s.as_mut(), &w2) {
                Poll::Ready(()) => 3,
                Poll::Pending => panic!("ORACLE[woken-but-pending]: waker 2 was woken by the timer but the sleep is not elapsed"),
            }
        }
    };
    let now = now_ns();
    oracle!(now >= t0 + 10, "sleep-completed-early", "sleep(10ns) first polled at {} ns completed at {} ns", t0, now);
    drop(s);
    drop(h);
    drop(driver);
    env.finish();
    for (_, t) in w1.log().iter().chain(w2.log().iter()) {
        oracle!(*t > t0 + 10, "woken-before-deadline", "waker of sleep(10ns) first polled at >= {} ns woken at {} ns", t0, t);
    }
    outcome(format!("timer/repoll/ready@poll{at}/w1={}/w2={}", w1.log().len(), w2.log().len()));
}

fn block_timeout_oneshot(ticks: &[u64], label: &'static str, send_at: u64) {
    let env = Env::start(ticks);
    let (tx, rx) = oneshot::<u32>();
    let sent_at = Arc::new(std::sync::Mutex::new(None::<u64>));
    let sa = sent_at.clone();
    let sender = loom::thread::spawn(move || {
        if send_at > 0 {
            sleep_until(send_at);
        }
        tx.send(7);
        // read after the send returned: an upper bound of the time at which the value became available
        *sa.lock().unwrap() = Some(now_ns());
    });
    let start = now_ns();
    let r = block_timeout(ns(10), rx);
    let end = now_ns();
    sender.join().unwrap();
    let sent = sent_at.lock().unwrap().expect("sender finished");
    match r {
        Ok(Ok(7)) => outcome(format!("block_timeout/oneshot-{label}/Ok(7)")),
        Err(DdsError::Timeout) => {
            oracle!(end >= start + 10, "timeout-early", "block_timeout(10ns) started at >= {} ns returned Timeout at {} ns", start, end);
            oracle!(
                sent >= start + 10,
                "timeout-though-completed-in-time",
                "block_timeout(10ns) started at {} ns returned Timeout although the value had been sent by {} ns",
                start,
                sent
            );
            outcome(format!("block_timeout/oneshot-{label}/Timeout"));
        }
        other => panic!("ORACLE[wrong-value]: block_timeout returned {:?}", other),
    }
    env.finish();
}

fn block_timeout_sleep(ticks: &[u64]) {
    let env = Env::start(ticks);
    let driver = TimerDriver::new();
    let h = driver.handle();
    let start = now_ns();
    let r = block_timeout(ns(10), Checked::new(h.sleep(ns(5)), 5, "inside-block_timeout"));
    let end = now_ns();
    match r {
        Ok(_) => {
            oracle!(end >= start + 5, "sleep-completed-early", "sleep(5ns) started at {} completed at {}", start, end);
            outcome("block_timeout/sleep-short/Ok");
        }
        Err(DdsError::Timeout) => {
            oracle!(end >= start + 10, "timeout-early", "block_timeout(10ns) started at >= {} ns returned Timeout at {} ns", start, end);
            outcome("block_timeout/sleep-short/Timeout");
        }
        Err(e) => panic!("ORACLE[wrong-value]: block_timeout returned Err({:?})", e),
    }
    drop(h);
    drop(driver);
    env.finish();
}

fn huge_duration() {
    let env = Env::start(&[]);
    let driver = TimerDriver::new();
    let h = driver.handle();
    let start = now_ns();
    block_on(h.sleep(Duration::MAX));
    let took = now_ns() - start;
    outcome(format!("timer/huge-duration/completed-after-{took}ns"));
    crate::soft_finding(
        "timer/huge-duration",
        "C42/timer/huge-duration-capped-to-24h",
        format!(
            "sleep(Duration::MAX) completed after {took} ns of virtual time (24 h + 1 ns): when now + duration is \
             not representable as an Instant, Sleep::reset silently substitutes a deadline of now + 24 h, so the \
             sleep completes (long) before the requested duration has passed. Documented fallback in timer.rs \
             (unit test test_reset_overflow); by the letter of C42 a sleep that completes before its deadline."
        ),
    );
    drop(h);
    drop(driver);
    env.finish();
}

fn block_on_other_thread() {
    let env = Env::start(&[]);
    let (tx, rx) = oneshot::<u32>();
    let t = loom::thread::spawn(move || tx.send(7));
    let r = block_on(rx);
    oracle!(r == Ok(7), "wrong-value", "block_on(oneshot) returned {:?}", r);
    t.join().unwrap();
    outcome("block_on/other-thread/Ok(7)");
    env.finish();
}

fn executor_spawn_join() {
    let env = Env::start(&[]);
    let executor = Executor::new();
    let eh = executor.handle();
    let (tx, rx) = oneshot::<u32>();
    let task = Spawner::spawn(&eh, async move { tx.send(5) });
    let r = block_on(rx);
    oracle!(r == Ok(5), "wrong-value", "block_on(oneshot fed by an executor task) returned {:?}", r);
    task.join();
    outcome("executor/spawn-join/Ok(5)+joined");
    drop(task);
    drop(eh);
    drop(executor);
    env.finish();
}

fn executor_sleep_task(ticks: &[u64]) {
    let env = Env::start(ticks);
    let driver = TimerDriver::new();
    let executor = Executor::new();
    let eh = executor.handle();
    let mut th = driver.handle();
    let (tx, rx) = oneshot::<u64>();
    let start = now_ns();
    let task = Spawner::spawn(&eh, async move {
        Timer::delay(&mut th, ns(10)).await;
        tx.send(now_ns());
    });
    let r = block_on(rx);
    let woke = match r {
        Ok(t) => t,
        Err(e) => panic!("ORACLE[wrong-value]: block_on(oneshot fed by a sleeping task) returned Err({:?})", e),
    };
    oracle!(woke >= start + 10, "sleep-completed-early", "task slept 10ns from >= {} ns but resumed at {} ns", start, woke);
    task.join();
    outcome(format!("executor/sleep-task/resumed-after-{}ns", woke - start));
    drop(task);
    drop(eh);
    drop(executor);
    drop(driver);
    env.finish();
}
