//! Future helpers for the harness side: a waker that counts its wake-ups and on which a thread can block
//! (loom `Mutex<..>` + `Condvar`, park/unpark style), `poll_once` and a `block_on` built from it.
//! (loom's own `futures` feature cannot be used offline.)

use std::future::Future;
use std::pin::Pin;
use std::sync::Arc;
use std::task::{Context, Poll, Wake, Waker};

use loom::sync::{Condvar, Mutex};

struct WState {
    count: usize,
    flag: bool,
}

pub struct TestWaker {
    st: Mutex<WState>,
    cv: Condvar,
    /// evaluated at every wake, before the wake becomes visible; results are kept in `log`
    probe: Option<Box<dyn Fn() -> (usize, u64) + Send + Sync>>,
    log: std::sync::Mutex<Vec<(usize, u64)>>,
}

impl TestWaker {
    pub fn new() -> Arc<TestWaker> {
        Arc::new(TestWaker {
            st: Mutex::new(WState { count: 0, flag: false }),
            cv: Condvar::new(),
            probe: None,
            log: std::sync::Mutex::new(Vec::new()),
        })
    }
    pub fn with_probe(p: impl Fn() -> (usize, u64) + Send + Sync + 'static) -> Arc<TestWaker> {
        Arc::new(TestWaker {
            st: Mutex::new(WState { count: 0, flag: false }),
            cv: Condvar::new(),
            probe: Some(Box::new(p)),
            log: std::sync::Mutex::new(Vec::new()),
        })
    }
    /// number of wake-ups so far
    pub fn count(&self) -> usize {
        self.st.lock().unwrap().count
    }
    pub fn log(&self) -> Vec<(usize, u64)> {
        self.log.lock().unwrap().clone()
    }
    /// Block until woken at least once since the last `wait` (loom reports a deadlock if that never happens).
    pub fn wait(&self) {
        let mut st = self.st.lock().unwrap();
        while !st.flag {
            st = self.cv.wait(st).unwrap();
        }
        st.flag = false;
    }
    pub fn waker(self: &Arc<Self>) -> Waker {
        Waker::from(self.clone())
    }
}

impl Wake for TestWaker {
    fn wake(self: Arc<Self>) {
        self.wake_by_ref()
    }
    fn wake_by_ref(self: &Arc<Self>) {
        if let Some(p) = &self.probe {
            let v = p();
            self.log.lock().unwrap().push(v);
        }
        let mut st = self.st.lock().unwrap();
        st.count += 1;
        st.flag = true;
        self.cv.notify_all();
    }
}

pub fn poll_once<F: Future + ?Sized>(f: Pin<&mut F>, w: &Arc<TestWaker>) -> Poll<F::Output> {
    let waker = w.waker();
    let mut cx = Context::from_waker(&waker);
    f.poll(&mut cx)
}

/// Harness-side block_on (the `block_on` of std_runtime/executor.rs is code under test and used where the
/// harness wants to test it).
pub fn block_on<F: Future>(f: F) -> F::Output {
    let w = TestWaker::new();
    let mut f = std::pin::pin!(f);
    loop {
        match poll_once(f.as_mut(), &w) {
            Poll::Ready(v) => return v,
            Poll::Pending => w.wait(),
        }
    }
}
