//! `vstd`: the part of `std` that `std_runtime/{timer,executor}.rs` use, re-implemented on loom primitives
//! with a *virtual* clock, so that loom can enumerate the interleavings of the unmodified function bodies.
//!
//! Everything that can block or that reads the time goes through ONE global loom `Mutex`: channel operations,
//! `park`/`unpark`, `Instant::now()`. Every such operation is therefore a loom scheduling point and blocked
//! threads are really blocked (loom reports "deadlock" if nobody can run any more). A blocked thread records
//! what it waits for (`Wait`) and sleeps on the condition variable of its thread slot; whoever changes the state
//! wakes exactly the threads whose wait is affected (a single shared condition variable with `notify_all` is
//! equivalent but multiplies the number of interleavings by waking everybody for every event).
//!
//! Time: `now` is a `u64` nanosecond counter that only the *clock thread* changes:
//!  * demand driven: whenever some thread sits in a timed wait whose deadline is in the future the clock may
//!    jump to the earliest such deadline (a zero-length timed wait - code spinning on `now == deadline` with a
//!    strict comparison - is turned into a wait for `now + 1`, so a spin becomes a blocking wait and the clock
//!    adds +1);
//!  * a bounded budget of *spontaneous ticks* (`Env::start(ticks)`), which fire whenever loom schedules the
//!    clock thread, i.e. between any two synchronisation operations of the other threads (within the
//!    preemption bound).
//!
//! `park`/`unpark` are NOT mapped to loom's own park/unpark: loom's `Thread::unpark` makes a thread runnable
//! even when it is blocked on a loom `Mutex` or in `JoinHandle::join` (loom then panics with "expected to be
//! able to acquire lock"), and loom's `Condvar` shares the park token. They are implemented with the same token
//! semantics (`std::thread::park` without spurious wake-ups) on the global lock instead.

#![allow(dead_code)]

pub use std::{cmp, collections, future, mem, pin, task};

use loom::sync::{Condvar, Mutex, MutexGuard};
use loom::thread::ThreadId;

const SLOTS: usize = loom::MAX_THREADS;

loom::lazy_static! {
    static ref G: Global = Global::new();
}

struct Global {
    m: Mutex<State>,
    /// one condition variable per thread slot
    cvs: [Condvar; SLOTS],
}

/// What a blocked thread is waiting for.
#[derive(Clone, Copy, PartialEq, Eq, Debug)]
enum Wait {
    None,
    /// receiver of channel `.0` waits for a message or disconnection, optionally until the deadline `.1`
    Recv(usize, Option<u64>),
    /// sender of bounded channel `.0` waits for room or for the receiver to go away
    SendFull(usize),
    /// `probe::sleep_until`
    Time(u64),
    /// `park`
    Token,
    /// `Env::finish` waits for the live thread count to reach zero
    Live,
    /// the clock thread waits for something to do
    Clock,
}

impl Wait {
    fn deadline(&self) -> Option<u64> {
        match self {
            Wait::Recv(_, d) => *d,
            Wait::Time(d) => Some(*d),
            _ => None,
        }
    }
}

struct State {
    now: u64,
    /// thread slot -> loom thread
    slots: Vec<ThreadId>,
    waiting: [Wait; SLOTS],
    /// remaining spontaneous ticks (ns), consumed front to back
    free_ticks: Vec<u64>,
    /// threads spawned through `vstd::thread::Builder` that have not terminated yet
    live: usize,
    /// park tokens
    tokens: Vec<(ThreadId, bool)>,
    shutdown: bool,
    /// set by `Env::finish`. `Executor`'s thread parks when its queue is empty and nobody unparks it when the
    /// channel disconnects (in real life that thread is leaked). So that it can terminate inside the model,
    /// every parked thread is unparked once when `finish` starts and once more whenever the last sender of some
    /// channel goes away while finishing (std allows spurious returns from `park`). No spinning is involved.
    finishing: bool,
    /// per channel (creation order): number of messages dequeued by the receiver so far
    dequeued: Vec<usize>,
    /// statistics
    demand_advances: u32,
    ticks_fired: u32,
}

impl Global {
    fn new() -> Self {
        Global {
            m: Mutex::new(State {
                now: 0,
                slots: Vec::new(),
                waiting: [Wait::None; SLOTS],
                free_ticks: Vec::new(),
                live: 0,
                tokens: Vec::new(),
                shutdown: false,
                finishing: false,
                dequeued: Vec::new(),
                demand_advances: 0,
                ticks_fired: 0,
            }),
            cvs: std::array::from_fn(|_| Condvar::new()),
        }
    }
}

fn lock() -> MutexGuard<'static, State> {
    G.m.lock().unwrap()
}

impl State {
    fn slot_of(&mut self, id: ThreadId) -> usize {
        if let Some(i) = self.slots.iter().position(|t| *t == id) {
            return i;
        }
        self.slots.push(id);
        assert!(self.slots.len() <= SLOTS, "vstd: more than {SLOTS} threads");
        self.slots.len() - 1
    }

    /// Wake every blocked thread whose wait satisfies `pred`. The wait is cleared here so that nobody is
    /// notified twice for one sleep (every notification is a loom scheduling point).
    fn wake_where(&mut self, pred: impl Fn(&Wait) -> bool) {
        for s in 0..SLOTS {
            if self.waiting[s] != Wait::None && pred(&self.waiting[s]) {
                self.waiting[s] = Wait::None;
                G.cvs[s].notify_one();
            }
        }
    }

    /// Is there a timed wait that only the clock can end?
    fn time_demand(&self) -> Option<u64> {
        let now = self.now;
        self.waiting.iter().filter_map(|w| w.deadline()).filter(|d| *d > now).min()
    }

    /// make every park token available (see `finishing`)
    fn unpark_all(&mut self) {
        let ids: Vec<ThreadId> = self.slots.clone();
        for id in ids {
            match self.tokens.iter_mut().find(|t| t.0 == id) {
                Some(t) => t.1 = true,
                None => self.tokens.push((id, true)),
            }
        }
        self.wake_where(|w| *w == Wait::Token);
    }

    fn wake_clock_if_demand(&mut self) {
        if self.time_demand().is_some() {
            self.wake_where(|w| *w == Wait::Clock);
        }
    }
}

/// Block the calling thread (releasing the global lock) until somebody wakes it for `w`. Callers re-check
/// their condition in a loop.
fn block(mut st: MutexGuard<'static, State>, w: Wait) -> MutexGuard<'static, State> {
    let slot = st.slot_of(loom::thread::current().id());
    st.waiting[slot] = w;
    if w.deadline().is_some() {
        // the clock now has something to do
        st.wake_where(|w| *w == Wait::Clock);
    }
    let mut st = G.cvs[slot].wait(st).unwrap();
    let timed = w.deadline().is_some();
    st.waiting[slot] = Wait::None;
    if timed {
        // this timed wait is over; others may still depend on the clock
        st.wake_clock_if_demand();
    }
    st
}

// ------------------------------------------------------------------------------------------------------------
// environment: clock thread, teardown
// ------------------------------------------------------------------------------------------------------------

/// One per model execution. `start` must be the first thing a model does and `finish` the last.
pub struct Env {
    clock: loom::thread::JoinHandle<()>,
}

#[derive(Debug, Clone, Copy)]
pub struct EnvStats {
    pub final_now: u64,
    pub demand_advances: u32,
    pub ticks_fired: u32,
}

impl Env {
    pub fn start(free_ticks: &[u64]) -> Env {
        {
            let mut st = lock();
            st.free_ticks = free_ticks.to_vec();
        }
        let clock = loom::thread::spawn(clock_main);
        Env { clock }
    }

    /// Wait until every thread spawned by the code under test has terminated (they terminate when their
    /// channels disconnect, so the caller must have dropped drivers, handles, sleeps and tasks), then stop the
    /// clock. Parked threads are unparked (see `State::finishing`), because `Executor`'s thread parks when its
    /// queue is empty and is not woken by the disconnection of its channel.
    pub fn finish(self) -> EnvStats {
        let mut st = lock();
        st.finishing = true;
        st.unpark_all();
        while st.live > 0 {
            st = block(st, Wait::Live);
        }
        st.shutdown = true;
        st.wake_where(|w| *w == Wait::Clock);
        let stats = EnvStats { final_now: st.now, demand_advances: st.demand_advances, ticks_fired: st.ticks_fired };
        drop(st);
        self.clock.join().unwrap();
        stats
    }
}

fn clock_main() {
    let mut st = lock();
    loop {
        if st.shutdown {
            break;
        }
        if !st.free_ticks.is_empty() {
            // spontaneous tick: fires at whatever point loom schedules this thread
            let t = st.free_ticks.remove(0);
            st.now += t;
            st.ticks_fired += 1;
            let now = st.now;
            st.wake_where(|w| w.deadline().is_some_and(|d| d <= now));
            // release the lock so that the next action is a separate scheduling decision
            drop(st);
            st = lock();
            continue;
        }
        if let Some(d) = st.time_demand() {
            st.now = d;
            st.demand_advances += 1;
            st.wake_where(|w| w.deadline().is_some_and(|dl| dl <= d));
        }
        st = block(st, Wait::Clock);
    }
}

/// Harness-side probes (not used by the code under test).
pub mod probe {
    use super::{block, lock, Wait};

    /// Current virtual time in ns.
    pub fn now_ns() -> u64 {
        lock().now
    }
    /// (messages dequeued on channel `idx` (creation order within this execution), now) under one lock
    pub fn snapshot(idx: usize) -> (usize, u64) {
        let st = lock();
        (st.dequeued.get(idx).copied().unwrap_or(0), st.now)
    }
    /// Block until the virtual time is at least `t` ns (a timed wait: the clock may jump to `t`).
    pub fn sleep_until(t: u64) {
        let mut st = lock();
        while st.now < t {
            st = block(st, Wait::Time(t));
        }
    }
}

// ------------------------------------------------------------------------------------------------------------
// time
// ------------------------------------------------------------------------------------------------------------

pub mod time {
    pub use core::time::Duration;

    /// Virtual `std::time::Instant`: nanoseconds since the start of the model execution.
    #[derive(Clone, Copy, PartialEq, Eq, PartialOrd, Ord, Hash, Debug)]
    pub struct Instant(pub(crate) u64);

    impl Instant {
        pub fn now() -> Instant {
            Instant(super::lock().now)
        }
        pub fn checked_add(&self, d: Duration) -> Option<Instant> {
            let ns = u64::try_from(d.as_nanos()).ok()?;
            // keep well below u64::MAX so that deadline arithmetic in vstd cannot overflow
            let v = self.0.checked_add(ns)?;
            if v > u64::MAX / 2 { None } else { Some(Instant(v)) }
        }
        /// saturating, like std
        pub fn duration_since(&self, earlier: Instant) -> Duration {
            Duration::from_nanos(self.0.saturating_sub(earlier.0))
        }
        pub fn as_nanos(&self) -> u64 {
            self.0
        }
    }
}

fn dur_ns(d: core::time::Duration) -> u64 {
    u64::try_from(d.as_nanos()).unwrap_or(u64::MAX / 4).min(u64::MAX / 4)
}

// ------------------------------------------------------------------------------------------------------------
// thread
// ------------------------------------------------------------------------------------------------------------

pub mod thread {
    use super::*;
    use std::io;

    #[derive(Clone, Debug)]
    pub struct Thread {
        id: ThreadId,
    }

    impl Thread {
        /// `std::thread::Thread::unpark`: make the token available.
        pub fn unpark(&self) {
            let mut st = lock();
            match st.tokens.iter_mut().find(|t| t.0 == self.id) {
                Some(t) => t.1 = true,
                None => st.tokens.push((self.id, true)),
            }
            let slot = st.slot_of(self.id);
            if st.waiting[slot] == Wait::Token {
                st.waiting[slot] = Wait::None;
                G.cvs[slot].notify_one();
            }
        }
    }

    pub fn current() -> Thread {
        Thread { id: loom::thread::current().id() }
    }

    /// `std::thread::park`: block until the token is available, then consume it.
    pub fn park() {
        let me = loom::thread::current().id();
        let mut st = lock();
        // make sure this thread has a slot (tokens of all slots are set by `unpark_all`)
        st.slot_of(me);
        loop {
            if let Some(t) = st.tokens.iter_mut().find(|t| t.0 == me) {
                if t.1 {
                    t.1 = false;
                    return;
                }
            } else {
                st.tokens.push((me, false));
            }
            st = block(st, Wait::Token);
        }
    }

    pub struct JoinHandle<T> {
        inner: loom::thread::JoinHandle<T>,
        thread: Thread,
    }

    impl<T> JoinHandle<T> {
        pub fn thread(&self) -> &Thread {
            &self.thread
        }
        pub fn join(self) -> std::thread::Result<T> {
            self.inner.join()
        }
    }

    pub struct Builder {
        inner: loom::thread::Builder,
    }

    impl Builder {
        pub fn new() -> Builder {
            Builder { inner: loom::thread::Builder::new() }
        }
        pub fn name(self, name: String) -> Builder {
            Builder { inner: self.inner.name(name) }
        }
        /// Spawns a loom thread and counts it as live until its closure returns.
        pub fn spawn<F, T>(self, f: F) -> io::Result<JoinHandle<T>>
        where
            F: FnOnce() -> T + Send + 'static,
            T: Send + 'static,
        {
            lock().live += 1;
            let inner = self.inner.spawn(move || {
                let r = f();
                let mut st = lock();
                st.live -= 1;
                if st.live == 0 {
                    st.wake_where(|w| *w == Wait::Live);
                }
                drop(st);
                r
            })?;
            let thread = Thread { id: inner.thread().id() };
            // give the new thread its slot now, so that `unpark_all` reaches it even before its first wait
            lock().slot_of(thread.id);
            Ok(JoinHandle { inner, thread })
        }
    }
}

// ------------------------------------------------------------------------------------------------------------
// sync
// ------------------------------------------------------------------------------------------------------------

pub mod sync {
    /// std's Arc: `Waker::from(Arc<impl Wake>)` needs the real one; reference counts are not under test.
    pub use std::sync::Arc;

    pub use loom::sync::{Mutex, MutexGuard};

    pub mod atomic {
        pub use loom::sync::atomic::{AtomicBool, AtomicUsize, Ordering};
    }

    /// `std::sync::mpsc` with `recv_timeout` against the virtual clock. State of all channels is protected by
    /// the global lock; the per-channel std mutex below is only ever locked while the global lock is held and
    /// is therefore never contended (it exists to keep this module free of `unsafe`).
    pub mod mpsc {
        use super::super::{block, dur_ns, lock, State, Wait};
        use std::collections::VecDeque;
        use std::sync::Arc;
        use std::time::Duration;

        pub use std::sync::mpsc::{RecvError, RecvTimeoutError, SendError, TryRecvError};

        struct Chan<T> {
            idx: usize,
            /// None = unbounded (`channel`), Some(n) = `sync_channel(n)`
            cap: Option<usize>,
            inner: std::sync::Mutex<Inner<T>>,
        }

        struct Inner<T> {
            queue: VecDeque<T>,
            senders: usize,
            receiver_alive: bool,
        }

        fn new_chan<T>(cap: Option<usize>) -> Arc<Chan<T>> {
            let mut st = lock();
            let idx = st.dequeued.len();
            st.dequeued.push(0);
            Arc::new(Chan {
                idx,
                cap,
                inner: std::sync::Mutex::new(Inner { queue: VecDeque::new(), senders: 1, receiver_alive: true }),
            })
        }

        pub fn channel<T>() -> (Sender<T>, Receiver<T>) {
            let c = new_chan(None);
            (Sender { c: c.clone() }, Receiver { c })
        }

        pub fn sync_channel<T>(bound: usize) -> (SyncSender<T>, Receiver<T>) {
            assert!(bound >= 1, "vstd: rendezvous channels (bound 0) are not modelled");
            let c = new_chan(Some(bound));
            (SyncSender { c: c.clone() }, Receiver { c })
        }

        fn wake_receiver(st: &mut State, idx: usize) {
            st.wake_where(|w| matches!(w, Wait::Recv(i, _) if *i == idx));
        }

        fn wake_full_senders(st: &mut State, idx: usize) {
            st.wake_where(|w| *w == Wait::SendFull(idx));
        }

        fn send_impl<T>(c: &Chan<T>, value: T) -> Result<(), SendError<T>> {
            let mut st = lock();
            loop {
                {
                    let mut inner = c.inner.lock().unwrap();
                    if !inner.receiver_alive {
                        return Err(SendError(value));
                    }
                    if c.cap.map_or(true, |cap| inner.queue.len() < cap) {
                        inner.queue.push_back(value);
                        drop(inner);
                        wake_receiver(&mut st, c.idx);
                        return Ok(());
                    }
                }
                // bounded channel is full: block until the receiver takes a message or goes away
                st = block(st, Wait::SendFull(c.idx));
            }
        }

        fn add_sender<T>(c: &Chan<T>) {
            let _st = lock();
            c.inner.lock().unwrap().senders += 1;
        }

        fn drop_sender<T>(c: &Chan<T>) {
            let mut st = lock();
            let mut inner = c.inner.lock().unwrap();
            inner.senders -= 1;
            let last = inner.senders == 0;
            drop(inner);
            if last {
                wake_receiver(&mut st, c.idx);
                if st.finishing {
                    st.unpark_all();
                }
            }
        }

        pub struct Sender<T> {
            c: Arc<Chan<T>>,
        }

        impl<T> Sender<T> {
            pub fn send(&self, t: T) -> Result<(), SendError<T>> {
                send_impl(&self.c, t)
            }
        }

        impl<T> Clone for Sender<T> {
            fn clone(&self) -> Self {
                add_sender(&self.c);
                Sender { c: self.c.clone() }
            }
        }

        impl<T> Drop for Sender<T> {
            fn drop(&mut self) {
                drop_sender(&self.c);
            }
        }

        impl<T> std::fmt::Debug for Sender<T> {
            fn fmt(&self, f: &mut std::fmt::Formatter<'_>) -> std::fmt::Result {
                f.debug_struct("Sender").finish_non_exhaustive()
            }
        }

        pub struct SyncSender<T> {
            c: Arc<Chan<T>>,
        }

        impl<T> SyncSender<T> {
            /// blocks while the buffer is full (like std)
            pub fn send(&self, t: T) -> Result<(), SendError<T>> {
                send_impl(&self.c, t)
            }
        }

        impl<T> Clone for SyncSender<T> {
            fn clone(&self) -> Self {
                add_sender(&self.c);
                SyncSender { c: self.c.clone() }
            }
        }

        impl<T> Drop for SyncSender<T> {
            fn drop(&mut self) {
                drop_sender(&self.c);
            }
        }

        impl<T> std::fmt::Debug for SyncSender<T> {
            fn fmt(&self, f: &mut std::fmt::Formatter<'_>) -> std::fmt::Result {
                f.debug_struct("SyncSender").finish_non_exhaustive()
            }
        }

        pub struct Receiver<T> {
            c: Arc<Chan<T>>,
        }

        enum Step<T> {
            Got(T),
            Disconnected,
            Empty,
        }

        impl<T> Receiver<T> {
            /// must be called with the global lock held
            fn step(&self, st: &mut State) -> Step<T> {
                let mut inner = self.c.inner.lock().unwrap();
                if let Some(v) = inner.queue.pop_front() {
                    drop(inner);
                    st.dequeued[self.c.idx] += 1;
                    if self.c.cap.is_some() {
                        wake_full_senders(st, self.c.idx);
                    }
                    Step::Got(v)
                } else if inner.senders == 0 {
                    Step::Disconnected
                } else {
                    Step::Empty
                }
            }

            pub fn try_recv(&self) -> Result<T, TryRecvError> {
                let mut st = lock();
                match self.step(&mut st) {
                    Step::Got(v) => Ok(v),
                    Step::Disconnected => Err(TryRecvError::Disconnected),
                    Step::Empty => Err(TryRecvError::Empty),
                }
            }

            pub fn recv(&self) -> Result<T, RecvError> {
                let mut st = lock();
                loop {
                    match self.step(&mut st) {
                        Step::Got(v) => return Ok(v),
                        Step::Disconnected => return Err(RecvError),
                        Step::Empty => st = block(st, Wait::Recv(self.c.idx, None)),
                    }
                }
            }

            /// A pending message wins over an expired timeout (as in std, which looks at the queue first).
            /// A zero timeout waits for the clock to move by 1 ns (see module doc).
            pub fn recv_timeout(&self, timeout: Duration) -> Result<T, RecvTimeoutError> {
                let mut st = lock();
                let deadline = st.now + dur_ns(timeout).max(1);
                loop {
                    match self.step(&mut st) {
                        Step::Got(v) => return Ok(v),
                        Step::Disconnected => return Err(RecvTimeoutError::Disconnected),
                        Step::Empty => {
                            if st.now >= deadline {
                                return Err(RecvTimeoutError::Timeout);
                            }
                            st = block(st, Wait::Recv(self.c.idx, Some(deadline)));
                        }
                    }
                }
            }
        }

        impl<T> Drop for Receiver<T> {
            fn drop(&mut self) {
                // queued messages are dropped with the receiver (as in std), but outside the global lock:
                // their destructors may call back into vstd
                let rest: VecDeque<T> = {
                    let mut st = lock();
                    let mut inner = self.c.inner.lock().unwrap();
                    inner.receiver_alive = false;
                    let rest = std::mem::take(&mut inner.queue);
                    drop(inner);
                    wake_full_senders(&mut st, self.c.idx);
                    rest
                };
                drop(rest);
            }
        }
    }
}
