//! `vstd`: the part of `std` that `std_runtime/{timer,executor}.rs` use, re-implemented on loom primitives
//! with a *virtual* clock, so that loom can enumerate the interleavings of the unmodified function bodies.
//!
//! Everything that can block or that reads the time goes through ONE global loom `Mutex` (+ `Condvar`s):
//! channel operations, `park`/`unpark`, `Instant::now()`. Every such operation is therefore a loom scheduling
//! point and blocked threads are really blocked (loom reports "deadlock" if nobody can run any more).
//!
//! Time: `now` is a `u64` nanosecond counter that only the *clock thread* changes:
//!  * demand driven: whenever some thread sits in a timed wait whose deadline is in the future the clock may
//!    jump to the earliest such deadline (a zero-length timed wait - code spinning on `now == deadline` with a
//!    strict comparison - is turned into a wait for `now + 1`, so a spin becomes a blocking wait and the clock
//!    adds +1);
//!  * a bounded budget of *spontaneous ticks* (`Env::start(ticks)`), which fire whenever loom schedules the
//!    clock thread, i.e. between any two synchronisation operations of the other threads (within the
//!    preemption bound).
//!
//! `park`/`unpark` are NOT mapped to loom's own park/unpark: loom's `Thread::unpark` makes a thread runnable
//! even when it is blocked on a loom `Mutex` or in `JoinHandle::join` (loom then panics with "expected to be
//! able to acquire lock"), and loom's `Condvar` shares the park token. They are implemented with the same token
//! semantics (`std::thread::park` without spurious wake-ups) on the global lock instead.

#![allow(dead_code)]

pub use std::{cmp, collections, future, mem, pin, task};

use loom::sync::{Condvar, Mutex, MutexGuard};
use loom::thread::ThreadId;

loom::lazy_static! {
    static ref G: Global = Global::new();
}

struct Global {
    m: Mutex<State>,
    /// everything except the clock thread waits here
    cv: Condvar,
    /// only the clock thread waits here
    clock_cv: Condvar,
}

struct State {
    now: u64,
    /// (ticket, deadline) of threads sitting in a timed wait
    timed: Vec<(u64, u64)>,
    next_ticket: u64,
    /// remaining spontaneous ticks (ns), consumed front to back
    free_ticks: Vec<u64>,
    /// threads spawned through `vstd::thread::Builder` that have not terminated yet
    live: usize,
    /// park tokens
    tokens: Vec<(ThreadId, bool)>,
    shutdown: bool,
    /// set by `Env::finish`: from then on `park` returns immediately (std allows spurious returns), so that a
    /// parked `Executor` thread notices that its channel is disconnected
    finishing: bool,
    /// per channel (creation order): number of messages dequeued by the receiver so far
    dequeued: Vec<usize>,
    /// statistics
    demand_advances: u32,
    ticks_fired: u32,
}

impl Global {
    fn new() -> Self {
        Global {
            m: Mutex::new(State {
                now: 0,
                timed: Vec::new(),
                next_ticket: 0,
                free_ticks: Vec::new(),
                live: 0,
                tokens: Vec::new(),
                shutdown: false,
                finishing: false,
                dequeued: Vec::new(),
                demand_advances: 0,
                ticks_fired: 0,
            }),
            cv: Condvar::new(),
            clock_cv: Condvar::new(),
        }
    }
}

fn lock() -> MutexGuard<'static, State> {
    G.m.lock().unwrap()
}

/// Block (releasing the global lock) until some state change is signalled.
fn wait(st: MutexGuard<'static, State>) -> MutexGuard<'static, State> {
    G.cv.wait(st).unwrap()
}

/// Register a timed wait (so that the clock thread knows that advancing the time to `deadline` makes progress).
fn register_timed(st: &mut State, deadline: u64) -> u64 {
    let ticket = st.next_ticket;
    st.next_ticket += 1;
    st.timed.push((ticket, deadline));
    G.clock_cv.notify_all();
    ticket
}

/// The clock is told as well: the earliest pending deadline may have changed.
fn deregister_timed(st: &mut State, ticket: u64) {
    st.timed.retain(|t| t.0 != ticket);
    G.clock_cv.notify_all();
}

// ------------------------------------------------------------------------------------------------------------
// environment: clock thread, teardown
// ------------------------------------------------------------------------------------------------------------

/// One per model execution. `start` must be the first thing a model does and `finish` the last.
pub struct Env {
    clock: loom::thread::JoinHandle<()>,
}

#[derive(Debug, Clone, Copy)]
pub struct EnvStats {
    pub final_now: u64,
    pub demand_advances: u32,
    pub ticks_fired: u32,
}

impl Env {
    pub fn start(free_ticks: &[u64]) -> Env {
        {
            let mut st = lock();
            st.free_ticks = free_ticks.to_vec();
        }
        let clock = loom::thread::spawn(clock_main);
        Env { clock }
    }

    /// Wait until every thread spawned by the code under test has terminated (they terminate when their
    /// channels disconnect, so the caller must have dropped drivers, handles, sleeps and tasks), then stop the
    /// clock. From now on `park` returns immediately, because `Executor`'s thread parks when its queue is empty and is
    /// not woken by the disconnection of its channel.
    pub fn finish(self) -> EnvStats {
        let mut st = lock();
        st.finishing = true;
        G.cv.notify_all();
        while st.live > 0 {
            st = wait(st);
        }
        st.shutdown = true;
        G.clock_cv.notify_all();
        let stats = EnvStats { final_now: st.now, demand_advances: st.demand_advances, ticks_fired: st.ticks_fired };
        drop(st);
        self.clock.join().unwrap();
        stats
    }
}

fn clock_main() {
    let mut st = lock();
    loop {
        if st.shutdown {
            break;
        }
        if !st.free_ticks.is_empty() {
            // spontaneous tick: fires at whatever point loom schedules this thread
            let t = st.free_ticks.remove(0);
            st.now += t;
            st.ticks_fired += 1;
            G.cv.notify_all();
            // release the lock so that the next action is a separate scheduling decision
            drop(st);
            st = lock();
            continue;
        }
        let now = st.now;
        if let Some(d) = st.timed.iter().map(|t| t.1).filter(|d| *d > now).min() {
            st.now = d;
            st.demand_advances += 1;
            G.cv.notify_all();
        }
        st = G.clock_cv.wait(st).unwrap();
    }
}

/// Harness-side probes (not used by the code under test).
pub mod probe {
    /// Current virtual time in ns.
    pub fn now_ns() -> u64 {
        super::lock().now
    }
    /// Number of messages the receiver of channel `idx` (creation order within this execution) has dequeued.
    pub fn dequeued(idx: usize) -> usize {
        super::lock().dequeued.get(idx).copied().unwrap_or(0)
    }
    /// (messages dequeued on channel `idx`, now) under one lock
    pub fn snapshot(idx: usize) -> (usize, u64) {
        let st = super::lock();
        (st.dequeued.get(idx).copied().unwrap_or(0), st.now)
    }
    /// Block until the virtual time is at least `t` ns (a timed wait: the clock may jump to `t`).
    pub fn sleep_until(t: u64) {
        let mut st = super::lock();
        if st.now >= t {
            return;
        }
        let ticket = super::register_timed(&mut st, t);
        while st.now < t {
            st = super::wait(st);
        }
        super::deregister_timed(&mut st, ticket);
    }
}

// ------------------------------------------------------------------------------------------------------------
// time
// ------------------------------------------------------------------------------------------------------------

pub mod time {
    pub use core::time::Duration;

    /// Virtual `std::time::Instant`: nanoseconds since the start of the model execution.
    #[derive(Clone, Copy, PartialEq, Eq, PartialOrd, Ord, Hash, Debug)]
    pub struct Instant(pub(crate) u64);

    impl Instant {
        pub fn now() -> Instant {
            Instant(super::lock().now)
        }
        pub fn checked_add(&self, d: Duration) -> Option<Instant> {
            let ns = u64::try_from(d.as_nanos()).ok()?;
            // keep well below u64::MAX so that deadline arithmetic in vstd cannot overflow
            let v = self.0.checked_add(ns)?;
            if v > u64::MAX / 2 { None } else { Some(Instant(v)) }
        }
        /// saturating, like std
        pub fn duration_since(&self, earlier: Instant) -> Duration {
            Duration::from_nanos(self.0.saturating_sub(earlier.0))
        }
        pub fn as_nanos(&self) -> u64 {
            self.0
        }
    }
}

fn dur_ns(d: core::time::Duration) -> u64 {
    u64::try_from(d.as_nanos()).unwrap_or(u64::MAX / 4).min(u64::MAX / 4)
}

// ------------------------------------------------------------------------------------------------------------
// thread
// ------------------------------------------------------------------------------------------------------------

pub mod thread {
    use super::*;
    use std::io;

    #[derive(Clone, Debug)]
    pub struct Thread {
        id: ThreadId,
    }

    impl Thread {
        /// `std::thread::Thread::unpark`: make the token available.
        pub fn unpark(&self) {
            let mut st = lock();
            match st.tokens.iter_mut().find(|t| t.0 == self.id) {
                Some(t) => t.1 = true,
                None => st.tokens.push((self.id, true)),
            }
            G.cv.notify_all();
        }
    }

    pub fn current() -> Thread {
        Thread { id: loom::thread::current().id() }
    }

    /// `std::thread::park`: block until the token is available, then consume it.
    pub fn park() {
        let me = loom::thread::current().id();
        let mut st = lock();
        loop {
            if st.finishing {
                return;
            }
            if let Some(t) = st.tokens.iter_mut().find(|t| t.0 == me) {
                if t.1 {
                    t.1 = false;
                    return;
                }
            } else {
                st.tokens.push((me, false));
            }
            st = wait(st);
        }
    }

    pub struct JoinHandle<T> {
        inner: loom::thread::JoinHandle<T>,
        thread: Thread,
    }

    impl<T> JoinHandle<T> {
        pub fn thread(&self) -> &Thread {
            &self.thread
        }
        pub fn join(self) -> std::thread::Result<T> {
            self.inner.join()
        }
    }

    pub struct Builder {
        inner: loom::thread::Builder,
    }

    impl Builder {
        pub fn new() -> Builder {
            Builder { inner: loom::thread::Builder::new() }
        }
        pub fn name(self, name: String) -> Builder {
            Builder { inner: self.inner.name(name) }
        }
        /// Spawns a loom thread and counts it as live until its closure returns.
        pub fn spawn<F, T>(self, f: F) -> io::Result<JoinHandle<T>>
        where
            F: FnOnce() -> T + Send + 'static,
            T: Send + 'static,
        {
            lock().live += 1;
            let inner = self.inner.spawn(move || {
                let r = f();
                let mut st = lock();
                st.live -= 1;
                G.cv.notify_all();
                drop(st);
                r
            })?;
            let thread = Thread { id: inner.thread().id() };
            Ok(JoinHandle { inner, thread })
        }
    }
}

// ------------------------------------------------------------------------------------------------------------
// sync
// ------------------------------------------------------------------------------------------------------------

pub mod sync {
    /// std's Arc: `Waker::from(Arc<impl Wake>)` needs the real one; reference counts are not under test.
    pub use std::sync::Arc;

    pub use loom::sync::{Mutex, MutexGuard};

    pub mod atomic {
        pub use loom::sync::atomic::{AtomicBool, AtomicUsize, Ordering};
    }

    /// `std::sync::mpsc` with `recv_timeout` against the virtual clock. State of all channels is protected by
    /// the global lock; the per-channel std mutex below is only ever locked while the global lock is held and
    /// is therefore never contended (it exists to keep this module free of `unsafe`).
    pub mod mpsc {
        use super::super::{deregister_timed, dur_ns, lock, register_timed, wait, G};
        use std::collections::VecDeque;
        use std::sync::Arc;
        use std::time::Duration;

        pub use std::sync::mpsc::{RecvError, RecvTimeoutError, SendError, TryRecvError};

        struct Chan<T> {
            idx: usize,
            /// None = unbounded (`channel`), Some(n) = `sync_channel(n)`
            cap: Option<usize>,
            inner: std::sync::Mutex<Inner<T>>,
        }

        struct Inner<T> {
            queue: VecDeque<T>,
            senders: usize,
            receiver_alive: bool,
        }

        fn new_chan<T>(cap: Option<usize>) -> Arc<Chan<T>> {
            let mut st = lock();
            let idx = st.dequeued.len();
            st.dequeued.push(0);
            Arc::new(Chan {
                idx,
                cap,
                inner: std::sync::Mutex::new(Inner { queue: VecDeque::new(), senders: 1, receiver_alive: true }),
            })
        }

        pub fn channel<T>() -> (Sender<T>, Receiver<T>) {
            let c = new_chan(None);
            (Sender { c: c.clone() }, Receiver { c })
        }

        pub fn sync_channel<T>(bound: usize) -> (SyncSender<T>, Receiver<T>) {
            assert!(bound >= 1, "vstd: rendezvous channels (bound 0) are not modelled");
            let c = new_chan(Some(bound));
            (SyncSender { c: c.clone() }, Receiver { c })
        }

        fn send_impl<T>(c: &Chan<T>, value: T) -> Result<(), SendError<T>> {
            let mut st = lock();
            loop {
                {
                    let mut inner = c.inner.lock().unwrap();
                    if !inner.receiver_alive {
                        return Err(SendError(value));
                    }
                    if c.cap.map_or(true, |cap| inner.queue.len() < cap) {
                        inner.queue.push_back(value);
                        G.cv.notify_all();
                        return Ok(());
                    }
                }
                // bounded channel is full: block until the receiver takes a message or goes away
                st = wait(st);
            }
        }

        fn add_sender<T>(c: &Chan<T>) {
            let _st = lock();
            c.inner.lock().unwrap().senders += 1;
        }

        fn drop_sender<T>(c: &Chan<T>) {
            let _st = lock();
            let mut inner = c.inner.lock().unwrap();
            inner.senders -= 1;
            if inner.senders == 0 {
                G.cv.notify_all();
            }
        }

        pub struct Sender<T> {
            c: Arc<Chan<T>>,
        }

        impl<T> Sender<T> {
            pub fn send(&self, t: T) -> Result<(), SendError<T>> {
                send_impl(&self.c, t)
            }
        }

        impl<T> Clone for Sender<T> {
            fn clone(&self) -> Self {
                add_sender(&self.c);
                Sender { c: self.c.clone() }
            }
        }

        impl<T> Drop for Sender<T> {
            fn drop(&mut self) {
                drop_sender(&self.c);
            }
        }

        impl<T> std::fmt::Debug for Sender<T> {
            fn fmt(&self, f: &mut std::fmt::Formatter<'_>) -> std::fmt::Result {
                f.debug_struct("Sender").finish_non_exhaustive()
            }
        }

        pub struct SyncSender<T> {
            c: Arc<Chan<T>>,
        }

        impl<T> SyncSender<T> {
            /// blocks while the buffer is full (like std)
            pub fn send(&self, t: T) -> Result<(), SendError<T>> {
                send_impl(&self.c, t)
            }
        }

        impl<T> Clone for SyncSender<T> {
            fn clone(&self) -> Self {
                add_sender(&self.c);
                SyncSender { c: self.c.clone() }
            }
        }

        impl<T> Drop for SyncSender<T> {
            fn drop(&mut self) {
                drop_sender(&self.c);
            }
        }

        impl<T> std::fmt::Debug for SyncSender<T> {
            fn fmt(&self, f: &mut std::fmt::Formatter<'_>) -> std::fmt::Result {
                f.debug_struct("SyncSender").finish_non_exhaustive()
            }
        }

        pub struct Receiver<T> {
            c: Arc<Chan<T>>,
        }

        enum Step<T> {
            Got(T),
            Disconnected,
            Empty,
        }

        impl<T> Receiver<T> {
            /// must be called with the global lock held
            fn step(&self, st: &mut super::super::State) -> Step<T> {
                let mut inner = self.c.inner.lock().unwrap();
                if let Some(v) = inner.queue.pop_front() {
                    st.dequeued[self.c.idx] += 1;
                    if self.c.cap.is_some() {
                        // a sender may be blocked on the full buffer
                        G.cv.notify_all();
                    }
                    Step::Got(v)
                } else if inner.senders == 0 {
                    Step::Disconnected
                } else {
                    Step::Empty
                }
            }

            pub fn try_recv(&self) -> Result<T, TryRecvError> {
                let mut st = lock();
                match self.step(&mut st) {
                    Step::Got(v) => Ok(v),
                    Step::Disconnected => Err(TryRecvError::Disconnected),
                    Step::Empty => Err(TryRecvError::Empty),
                }
            }

            pub fn recv(&self) -> Result<T, RecvError> {
                let mut st = lock();
                loop {
                    match self.step(&mut st) {
                        Step::Got(v) => return Ok(v),
                        Step::Disconnected => return Err(RecvError),
                        Step::Empty => st = wait(st),
                    }
                }
            }

            /// A pending message wins over an expired timeout (as in std, which looks at the queue first).
            /// A zero timeout waits for the clock to move by 1 ns (see module doc).
            pub fn recv_timeout(&self, timeout: Duration) -> Result<T, RecvTimeoutError> {
                let mut st = lock();
                let deadline = st.now + dur_ns(timeout).max(1);
                let mut ticket = None;
                let r = loop {
                    match self.step(&mut st) {
                        Step::Got(v) => break Ok(v),
                        Step::Disconnected => break Err(RecvTimeoutError::Disconnected),
                        Step::Empty => {
                            if st.now >= deadline {
                                break Err(RecvTimeoutError::Timeout);
                            }
                            if ticket.is_none() {
                                ticket = Some(register_timed(&mut st, deadline));
                            }
                            st = wait(st);
                        }
                    }
                };
                if let Some(t) = ticket {
                    deregister_timed(&mut st, t);
                }
                r
            }
        }

        impl<T> Drop for Receiver<T> {
            fn drop(&mut self) {
                // queued messages are dropped with the receiver (as in std), but outside the global lock:
                // their destructors may call back into vstd
                let rest: VecDeque<T> = {
                    let _st = lock();
                    let mut inner = self.c.inner.lock().unwrap();
                    inner.receiver_alive = false;
                    G.cv.notify_all();
                    std::mem::take(&mut inner.queue)
                };
                drop(rest);
            }
        }
    }
}
