//! Prepares the dust_dds sources under test.
//!
//! * The three channel files are used verbatim: a generated `channels_mod.rs` declares them with
//!   `#[path = "<src>/dcps/channels/<file>.rs"] pub mod <file>;`.
//! * `std_runtime/timer.rs` and `std_runtime/executor.rs` name `std::sync`, `std::thread`, `std::time` and
//!   `tracing` directly. They are copied into OUT_DIR with ONLY import paths and attributes rewritten (see
//!   `REWRITES`); function bodies are untouched. Everything the rewrite does not anticipate is turned into a
//!   build failure: after the rewrite no `std::` path outside a small allow-list and no `tracing` mention may be
//!   left, and every rewrite rule that is marked as required must have matched at least once.
//!
//! The source root is /repo/dds/src unless the environment variable LOOMCHECK_SRC overrides it (used only for
//! the seeded-bug demonstration described in NOTES.md). The root that was used is compiled into the binary
//! (`LOOMCHECK_SRC_USED`) and reported in the result file.

use std::{env, fs, path::PathBuf};

const DEFAULT_SRC: &str = "/repo/dds/src";

/// (pattern, replacement, must_match_in: "" = optional, "timer" / "executor" / "both")
const REWRITES: &[(&str, &str, &str)] = &[
    // import roots
    ("use std::{", "use crate::vstd::{", "both"),
    // fully qualified paths used in bodies / signatures
    ("std::sync::mpsc::", "crate::vstd::sync::mpsc::", "both"),
    ("std::thread::Builder", "crate::vstd::thread::Builder", "both"),
    ("std::time::Instant", "crate::vstd::time::Instant", "executor"),
    // tracing
    ("use tracing::trace;", "use crate::trace;", "timer"),
];

/// `std::` paths that may remain: they name the real std items that vstd re-exports unchanged anyway.
const ALLOWED_STD: &[&str] = &["std::cmp::Ordering", "std::mem::take", "std::sync::Arc<Self>"];

fn rewrite(name: &str, src: &str) -> String {
    // 1. cut the trailing unit-test module (only if it really is the tail of the file)
    let mut text = src.to_string();
    if let Some(pos) = text.find("#[cfg(test)]\nmod tests {") {
        let tail = &text[pos..];
        let open = tail.matches('{').count();
        let close = tail.matches('}').count();
        let last = tail.trim_end().ends_with('}');
        if open != close || !last {
            panic!("{name}: `#[cfg(test)] mod tests` is not a balanced tail of the file; refusing to cut");
        }
        // the cut must not remove anything but the test module: the tail may contain exactly one item at depth 0
        let mut depth = 0i32;
        let mut closed_at = None;
        for (i, c) in tail.char_indices() {
            match c {
                '{' => depth += 1,
                '}' => {
                    depth -= 1;
                    if depth == 0 {
                        closed_at = Some(i);
                        break;
                    }
                }
                _ => {}
            }
        }
        match closed_at {
            Some(i) if tail[i + 1..].trim().is_empty() => {}
            _ => panic!("{name}: code follows the `mod tests` block; refusing to cut"),
        }
        text.truncate(pos);
    }
    if text.contains("#[cfg(test)]") {
        panic!("{name}: unexpected further #[cfg(test)] item");
    }

    // 2. drop `#[tracing::instrument...]` attribute lines (single-line attributes only; a multi-line attribute
    //    leaves its continuation lines behind and therefore fails to compile)
    let mut out = String::new();
    let mut dropped = 0;
    for line in text.lines() {
        let t = line.trim_start();
        if t.starts_with("#[tracing::instrument") {
            if !t.trim_end().ends_with(']') {
                panic!("{name}: multi-line #[tracing::instrument attribute not anticipated: {line}");
            }
            dropped += 1;
            continue;
        }
        out.push_str(line);
        out.push('\n');
    }
    let _ = dropped;

    // 3. path rewrites
    for (pat, rep, must) in REWRITES {
        let n = out.matches(pat).count();
        if n == 0 && (*must == "both" || *must == name) {
            panic!("{name}: required rewrite pattern `{pat}` did not match: the source changed, update build.rs");
        }
        out = out.replace(pat, rep);
    }

    // 4. nothing unanticipated may be left
    let mut check = out.clone();
    for a in ALLOWED_STD {
        check = check.replace(a, "");
    }
    check = check.replace("crate::vstd::", "");
    for (lineno, line) in check.lines().enumerate() {
        let code = line.split("//").next().unwrap_or("");
        if code.contains("std::") || code.contains("std ::") || code.contains("extern crate") {
            panic!("{name}:{}: unanticipated std path after rewrite: {}", lineno + 1, line.trim());
        }
        if code.contains("tracing") {
            panic!("{name}:{}: unanticipated tracing use after rewrite: {}", lineno + 1, line.trim());
        }
    }
    out
}

fn main() {
    println!("cargo:rerun-if-env-changed=LOOMCHECK_SRC");
    println!("cargo:rerun-if-changed=build.rs");
    let src_root = env::var("LOOMCHECK_SRC").unwrap_or_else(|_| DEFAULT_SRC.to_string());
    let src_root = fs::canonicalize(&src_root).unwrap_or_else(|e| panic!("source root {src_root}: {e}"));
    let src_root = src_root.to_str().unwrap().to_string();
    println!("cargo:rustc-env=LOOMCHECK_SRC_USED={src_root}");
    if src_root != DEFAULT_SRC {
        println!("cargo:warning=loomcheck is built against NON-DEFAULT sources: {src_root}");
    }
    let out_dir = PathBuf::from(env::var("OUT_DIR").unwrap());

    // channels: verbatim
    let mut channels = String::new();
    for f in ["oneshot", "mpsc", "notification"] {
        let p = format!("{src_root}/dcps/channels/{f}.rs");
        if !std::path::Path::new(&p).is_file() {
            panic!("missing source file {p}");
        }
        println!("cargo:rerun-if-changed={p}");
        channels.push_str(&format!("#[path = \"{p}\"]\npub mod {f};\n"));
    }
    fs::write(out_dir.join("channels_mod.rs"), channels).unwrap();

    // std_runtime: import paths rewritten
    for f in ["timer", "executor"] {
        let p = format!("{src_root}/std_runtime/{f}.rs");
        println!("cargo:rerun-if-changed={p}");
        let src = fs::read_to_string(&p).unwrap_or_else(|e| panic!("read {p}: {e}"));
        let header = format!(
            "// GENERATED by loomcheck/build.rs from {p}: import paths and tracing attributes rewritten, bodies untouched.\n"
        );
        fs::write(out_dir.join(format!("{f}.rs")), header + &rewrite(f, &src)).unwrap();
    }
}
