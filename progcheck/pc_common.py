"""Shared machinery of progcheck: crate writing, cargo build with attribution of
compile errors to single declarations (bisect), running the generated program,
result assembly.

Every declaration lives in its own module file  src/d/dNNNN.rs  so that rustc
diagnostics (including those whose primary span is inside a macro expansion)
can be attributed by file name.
"""
import hashlib
import json
import os
import re
import shutil
import subprocess
import time

TARGET_DIR = "/verif/target/progcheck"
HERE = os.path.dirname(os.path.abspath(__file__))

EMPTY_RESULT = {
    "evaluations": 0, "states": 0, "transitions": 0, "distinct": [], "samples": [],
    "findings": [], "extra": {}, "exhaustive": True, "machinery_error": None, "notes": [],
}


def repo():
    return os.path.abspath(os.environ.get("PROGCHECK_REPO", "/repo"))


def repo_tag():
    """Scratch directories are keyed by the repo path so that a mutated copy of
    the repo does not clobber the incremental state of the default one."""
    r = repo()
    if r == "/repo":
        return ""
    return "_" + hashlib.md5(r.encode()).hexdigest()[:6]


def gen_dir(ident):
    return os.path.join(TARGET_DIR, "gen_%s%s" % (ident, repo_tag()))


def text_hash(text):
    return hashlib.md5(text.encode()).hexdigest()[:10]


def mod_name(i):
    return "d%04d" % i


def write_if_changed(path, content):
    """Keeps mtimes stable when nothing changed (cargo fingerprints use mtimes)."""
    try:
        with open(path, "r", encoding="utf-8") as f:
            if f.read() == content:
                return False
    except (FileNotFoundError, UnicodeDecodeError):
        pass
    os.makedirs(os.path.dirname(path), exist_ok=True)
    with open(path, "w", encoding="utf-8") as f:
        f.write(content)
    return True


def sync_dir(path, files):
    """Makes directory `path` contain exactly `files` (name -> content)."""
    os.makedirs(path, exist_ok=True)
    for name in os.listdir(path):
        if name not in files:
            p = os.path.join(path, name)
            if os.path.isdir(p):
                shutil.rmtree(p)
            else:
                os.remove(p)
    for name, content in files.items():
        write_if_changed(os.path.join(path, name), content)


def cargo_env():
    env = dict(os.environ)
    env["CARGO_TARGET_DIR"] = TARGET_DIR
    env["CARGO_NET_OFFLINE"] = "true"
    env["CARGO_TERM_COLOR"] = "never"
    env.pop("RUSTFLAGS", None)
    env.pop("CARGO_ENCODED_RUSTFLAGS", None)
    env.setdefault("CARGO_BUILD_JOBS", "16")
    return env


DECL_RE = re.compile(r"\bd(\d{4,6})\b")


def _span_files(span, acc):
    acc.append(span.get("file_name", ""))
    exp = span.get("expansion")
    if exp and exp.get("span"):
        _span_files(exp["span"], acc)


def _message_decls(msg):
    """Set of declaration indices a rustc JSON diagnostic points at."""
    files = []
    for sp in msg.get("spans", []):
        _span_files(sp, files)
    for child in msg.get("children", []):
        for sp in child.get("spans", []):
            _span_files(sp, files)
    out = set()
    for f in files:
        base = os.path.basename(f)
        m = re.match(r"d(\d{4,6})\.rs$", base)
        if m:
            out.add(int(m.group(1)))
    return out


def cargo_build(crate_dir, timeout_s, bin_name):
    """Runs one `cargo build`. `bin_name` is the common prefix of the crate's binaries.
    Returns dict(ok, seconds, per_decl, other, exe (sorted list of executables), stderr_tail)."""
    t0 = time.time()
    cmd = ["timeout", str(timeout_s), "cargo", "build", "--offline", "--message-format=json",
           "--manifest-path", os.path.join(crate_dir, "Cargo.toml")]
    p = subprocess.run(cmd, env=cargo_env(), stdout=subprocess.PIPE, stderr=subprocess.PIPE,
                       text=True, errors="replace")
    dt = time.time() - t0
    per_decl = {}
    other = []
    exes = {}
    for line in p.stdout.splitlines():
        if not line.startswith("{"):
            continue
        try:
            j = json.loads(line)
        except ValueError:
            continue
        if j.get("reason") == "compiler-artifact":
            if j.get("executable") and j.get("target", {}).get("name", "").startswith(bin_name):
                exes[j["target"]["name"]] = j["executable"]
        if j.get("reason") != "compiler-message":
            continue
        msg = j.get("message", {})
        if msg.get("level") not in ("error", "error: internal compiler error"):
            continue
        text = msg.get("message", "")
        if text.startswith("aborting due to") or text.startswith("could not compile"):
            continue
        decls = _message_decls(msg)
        code = (msg.get("code") or {}).get("code") or ""
        short = (code + " " if code else "") + text.strip().splitlines()[0][:300]
        if decls:
            for d in decls:
                per_decl.setdefault(d, [])
                if short not in per_decl[d]:
                    per_decl[d].append(short)
        else:
            loc = ""
            if msg.get("spans"):
                s = msg["spans"][0]
                loc = "%s:%s " % (s.get("file_name"), s.get("line_start"))
            other.append(loc + short)
    ok = p.returncode == 0
    exe = [exes[k] for k in sorted(exes)]
    tail = (p.stderr or "")[-3000:]
    if p.returncode == 124:
        other.append("cargo build timed out after %ss" % timeout_s)
    return {"ok": ok, "seconds": dt, "per_decl": per_decl, "other": other, "exe": exe,
            "stderr_tail": tail, "returncode": p.returncode}


def build_with_bisect(write_crate, n_decls, bin_name, timeout_s, max_rounds=3):
    """write_crate(excluded:set) -> crate_dir.  Rebuilds after removing the
    declarations rustc blames, at most `max_rounds` removal rounds.
    Returns dict(ok, exe, build_s, excluded{idx:[msgs]}, machinery_error, rounds)."""
    excluded = {}
    total = 0.0
    rounds = 0
    while True:
        crate_dir = write_crate(set(excluded))
        r = cargo_build(crate_dir, timeout_s, bin_name)
        total += r["seconds"]
        rounds += 1
        if r["ok"]:
            return {"ok": True, "exe": r["exe"], "build_s": total, "excluded": excluded,
                    "machinery_error": None, "rounds": rounds}
        new = {d: m for d, m in r["per_decl"].items() if d not in excluded}
        if r["other"] and not new:
            return {"ok": False, "exe": None, "build_s": total, "excluded": excluded, "rounds": rounds,
                    "machinery_error": "generated crate does not build; errors not attributable to a "
                                       "declaration: " + " | ".join(r["other"][:5])}
        if not new:
            return {"ok": False, "exe": None, "build_s": total, "excluded": excluded, "rounds": rounds,
                    "machinery_error": "cargo build failed (rc=%s) without attributable diagnostics: %s"
                                       % (r["returncode"], r["stderr_tail"][-1500:])}
        excluded.update(new)
        if rounds > max_rounds:
            return {"ok": False, "exe": None, "build_s": total, "excluded": excluded, "rounds": rounds,
                    "machinery_error": "still failing after %d removal rounds; last blamed: %s"
                                       % (max_rounds, sorted(new)[:10])}


def run_program(exes, out_file, timeout_s, args=()):
    """Runs every binary of the generated crate (each writes its own JSON-lines file); concatenates the records.
    `done` is True only if every binary reached its end."""
    t0 = time.time()
    recs = []
    rc = 0
    done = bool(exes)
    stderr_tail = ""
    procs = []
    for k, exe in enumerate(exes):
        of = "%s.%02d" % (out_file, k)
        if os.path.exists(of):
            os.remove(of)
        procs.append((of, subprocess.Popen(["timeout", str(timeout_s), exe, of] + list(args),
                                           stdout=subprocess.DEVNULL, stderr=subprocess.PIPE, text=True, errors="replace")))
    for of, p in procs:
        _, err = p.communicate()
        if p.returncode != 0:
            rc = p.returncode
            stderr_tail += (err or "")[-1000:]
        this_done = False
        if os.path.exists(of):
            with open(of, "r", encoding="utf-8", errors="replace") as f:
                for line in f:
                    line = line.strip()
                    if not line:
                        continue
                    try:
                        j = json.loads(line)
                    except ValueError:
                        j = {"k": "garbled", "raw": line[:300]}
                    if j.get("k") == "done":
                        this_done = True
                        continue
                    recs.append(j)
        done = done and this_done
    if done:
        recs.append({"k": "done"})
    return {"rc": rc, "seconds": time.time() - t0, "records": recs, "stderr_tail": stderr_tail[-2000:]}


def chunks(indices, size):
    indices = list(indices)
    return [indices[i:i + size] for i in range(0, len(indices), size)] or [[]]


def bin_sections(prefix, nbins):
    return "".join("[[bin]]\nname = \"%s_b%02d\"\npath = \"src/b%02d.rs\"\n\n" % (prefix, k, k) for k in range(nbins))


def copy_lock(crate_dir):
    src = os.path.join(repo(), "Cargo.lock")
    dst = os.path.join(crate_dir, "Cargo.lock")
    # cargo rewrites the copy (adds the generated package); always start from the repo's lock so that
    # the resolution is the repo's, but do not touch it when it already is a superset (keeps builds warm).
    try:
        with open(src) as f:
            s = f.read()
    except FileNotFoundError:
        return
    marker = os.path.join(crate_dir, ".lock_src_md5")
    h = hashlib.md5(s.encode()).hexdigest()
    try:
        with open(marker) as f:
            if f.read() == h and os.path.exists(dst):
                return
    except FileNotFoundError:
        pass
    with open(dst, "w") as f:
        f.write(s)
    with open(marker, "w") as f:
        f.write(h)


class Findings:
    """Aggregates findings per signature (one entry per sig, first declaration is the replay)."""

    def __init__(self, prop):
        self.prop = prop
        self.by_sig = {}
        self.order = []

    def add(self, clause, shape, decl_text, detail):
        sig = "%s/%s/%s" % (self.prop, clause, shape)
        e = self.by_sig.get(sig)
        if e is None:
            e = {"sig": sig, "first": decl_text, "detail": detail, "count": 0, "others": []}
            self.by_sig[sig] = e
            self.order.append(sig)
        e["count"] += 1
        if e["count"] > 1 and len(e["others"]) < 2:
            e["others"].append(decl_text)

    def to_list(self):
        out = []
        for sig in self.order:
            e = self.by_sig[sig]
            detail = "%s\n%s" % (e["first"], e["detail"])
            if e["count"] > 1:
                detail += "\n(+%d more declarations with this signature" % (e["count"] - 1)
                if e["others"]:
                    detail += ", e.g.: " + " || ".join(o.replace("\n", " ") for o in e["others"])
                detail += ")"
            out.append({"sig": sig, "detail": detail, "replay": {"declaration": e["first"]}})
        return out


RT_RS = os.path.join(HERE, "rt.rs")


def read_rt():
    with open(RT_RS, "r", encoding="utf-8") as f:
        return f.read()
