"""C40: #[derive(DdsType)] describes and converts types faithfully.

Bounded-exhaustive enumeration of Rust declarations (structs, tuple structs, enums, unions) with the
`#[dust_dds(..)]` attribute language, a reference description computed here from the AST (XTypes rules +
the README of dust_dds; nothing of dust-dds is executed to obtain it), and the comparison with what the
compiled types report at run time.
"""
import hashlib
import itertools
import os

import pc_common as pcc

# ----------------------------------------------------------------------------------------------
# Member type table.  vals: list of (rust expression, is_rust_default)
# ----------------------------------------------------------------------------------------------
TYPES = {
    "u8": dict(kind="UINT8", vals=[("0u8", True), ("u8::MAX", False), ("7u8", False)]),
    "i16": dict(kind="INT16", vals=[("0i16", True), ("i16::MIN", False), ("i16::MAX", False)]),
    "i32": dict(kind="INT32", vals=[("0i32", True), ("i32::MIN", False), ("i32::MAX", False)]),
    "i64": dict(kind="INT64", vals=[("0i64", True), ("i64::MIN", False), ("i64::MAX", False)]),
    "f64": dict(kind="FLOAT64", vals=[("0.0f64", True), ("f64::MIN", False), ("f64::MAX", False), ("1.5f64", False)]),
    "bool": dict(kind="BOOLEAN", vals=[("false", True), ("true", False)]),
    "char": dict(kind="CHAR8", vals=[("'\\0'", True), ("'a'", False), ("'\\u{e9}'", False)]),
    "String": dict(kind="STRING8", vals=[("String::new()", True), ("\"a\".to_string()", False),
                                         ("\"h\\u{e9}llo w\\u{f6}rld \\u{2713}\".to_string()", False)]),
    "Vec<u8>": dict(kind="SEQUENCE", elem="UINT8", vals=[("Vec::<u8>::new()", True), ("vec![0u8, 255u8]", False)]),
    "Vec<i32>": dict(kind="SEQUENCE", elem="INT32", vals=[("Vec::<i32>::new()", True), ("vec![i32::MIN, i32::MAX]", False)]),
    "[i32; 3]": dict(kind="ARRAY", elem="INT32", bound=[3], vals=[("[0i32, 0, 0]", True), ("[i32::MIN, 0, i32::MAX]", False)]),
    "Inner": dict(kind="STRUCTURE", tname="Inner", vals=[("Inner::default()", True), ("Inner { a: i32::MIN, b: 255 }", False)]),
    "Option<i32>": dict(kind="INT32", needs_optional=True,
                        vals=[("None::<i32>", True), ("Some(0i32)", False), ("Some(i32::MAX)", False)]),
    "Color": dict(kind="ENUM", tname="Color", vals=[("Color::Red", True), ("Color::Blue", False)]),
    # thorough-only extras
    "u16": dict(kind="UINT16", vals=[("0u16", True), ("u16::MAX", False)]),
    "u32": dict(kind="UINT32", vals=[("0u32", True), ("u32::MAX", False)]),
    "u64": dict(kind="UINT64", vals=[("0u64", True), ("u64::MAX", False)]),
    "i8": dict(kind="INT8", vals=[("0i8", True), ("i8::MIN", False), ("i8::MAX", False)]),
    "f32": dict(kind="FLOAT32", vals=[("0.0f32", True), ("f32::MIN", False), ("f32::MAX", False)]),
    "Vec<i8>": dict(kind="SEQUENCE", elem="INT8", vals=[("Vec::<i8>::new()", True), ("vec![i8::MIN, i8::MAX]", False)]),
    "Vec<String>": dict(kind="SEQUENCE", elem="STRING8", vals=[("Vec::<String>::new()", True), ("vec![String::new(), \"ab\".to_string()]", False)]),
    "Vec<Inner>": dict(kind="SEQUENCE", elem="STRUCTURE", vals=[("Vec::<Inner>::new()", True), ("vec![Inner::default(), Inner { a: 1, b: 2 }]", False)]),
    "[u8; 2]": dict(kind="ARRAY", elem="UINT8", bound=[2], vals=[("[0u8, 0]", True), ("[1u8, 255]", False)]),
    "Option<String>": dict(kind="STRING8", needs_optional=True,
                           vals=[("None::<String>", True), ("Some(String::new())", False), ("Some(\"a\".to_string())", False)]),
}
QUICK_TYPES = ["u8", "i16", "i32", "i64", "f64", "bool", "char", "String", "Vec<u8>", "Vec<i32>", "[i32; 3]",
               "Inner", "Option<i32>", "Color"]
EXTRA_TYPES = ["u16", "u32", "u64", "i8", "f32", "Vec<i8>", "Vec<String>", "Vec<Inner>", "[u8; 2]", "Option<String>"]

SUPPORT_RS = """#![allow(dead_code)]
use dust_dds::infrastructure::type_support::DdsType;

#[derive(Debug, Clone, PartialEq, Default, DdsType)]
pub struct Inner {
    pub a: i32,
    pub b: u8,
}

#[derive(Debug, Clone, Copy, PartialEq, Default, DdsType)]
pub enum Color {
    #[default]
    Red,
    Green = 5,
    Blue,
}
"""

EXTS = [None, "final", "appendable", "mutable"]
EXT_KIND = {None: "Final", "final": "Final", "appendable": "Appendable", "mutable": "Mutable"}


def xtypes_hashid(name):
    """XTypes 1.3 7.3.1.2.1.1: first 4 bytes of MD5(name) as little-endian u32, & 0x0FFFFFFF."""
    return int.from_bytes(hashlib.md5(name.encode()).digest()[:4], "little") & 0x0FFFFFFF


def raw_hash(name):
    return int.from_bytes(hashlib.md5(name.encode()).digest()[:4], "little")


def pick_names():
    """Member names: two whose MD5 prefix already fits in 28 bits ('lo') and two that need the mask ('hi')."""
    lo, hi = [], []
    for k in range(1000):
        n = "m%d" % k
        (lo if raw_hash(n) <= 0x0FFFFFFF else hi).append(n)
    return lo[:3], hi[:3]


NAMES_LO, NAMES_HI = pick_names()


# ----------------------------------------------------------------------------------------------
# AST
# ----------------------------------------------------------------------------------------------
class Member:
    def __init__(self, name, ty, key=False, optional=False, id=None, hashid=False, ns=False, dv=None,
                 split=False):
        self.name, self.ty = name, ty
        self.key, self.optional, self.id, self.hashid, self.ns, self.dv = key, optional, id, hashid, ns, dv
        self.split = split  # attributes spread over two #[dust_dds(..)] attributes

    def attr_items(self):
        items = []
        if self.key:
            items.append("key")
        if self.optional:
            items.append("optional")
        if self.id is not None:
            items.append("id = %d" % self.id)
        if self.hashid:
            items.append("hashid")
        if self.ns:
            items.append("non_serialized")
        if self.dv is not None:
            items.append("default_value = %s" % TYPES[self.ty]["vals"][self.dv][0])
        return items

    def attr_text(self):
        items = self.attr_items()
        if not items:
            return ""
        if self.split and len(items) > 1:
            return "".join("#[dust_dds(%s)] " % it for it in items)
        return "#[dust_dds(%s)] " % ", ".join(items)

    def tokens(self):
        t = []
        if self.key:
            t.append("key")
        if self.optional:
            t.append("opt")
        if self.id is not None:
            t.append("idbig" if self.id > 16383 else "id")
        if self.hashid:
            t.append("hashidhi" if raw_hash(self.name) > 0x0FFFFFFF else "hashid")
        if self.ns:
            t.append("ns")
        if self.dv is not None:
            t.append("dv")
        s = "+".join(t) if t else "-"
        if self.split and len(self.attr_items()) > 1:
            s += "(split)"
        return s

    def idkind(self):
        if self.id is not None:
            return "idbig" if self.id > 16383 else "id"
        if self.hashid:
            return "hashidhi" if raw_hash(self.name) > 0x0FFFFFFF else "hashid"
        return None


class Struct:
    kindname = "struct"

    def __init__(self, ext, members, name=None, nested=False, tuple_=False, split=False):
        self.ext, self.members, self.name, self.nested, self.tuple, self.split = ext, members, name, nested, tuple_, split

    def container_items(self):
        items = []
        if self.name:
            items.append('name = "%s"' % self.name)
        if self.ext:
            items.append('extensibility = "%s"' % self.ext)
        if self.nested:
            items.append("nested")
        return items

    def text(self):
        items = self.container_items()
        s = "#[derive(Debug, Clone, PartialEq, DdsType)]\n"
        if items:
            if self.split and len(items) > 1:
                s += "".join("#[dust_dds(%s)]\n" % it for it in items)
            else:
                s += "#[dust_dds(%s)]\n" % ", ".join(items)
        if self.tuple:
            s += "pub struct T(" + ", ".join("%spub %s" % (m.attr_text(), m.ty) for m in self.members) + ");"
        else:
            s += "pub struct T { " + " ".join("%spub %s: %s," % (m.attr_text(), m.name, m.ty) for m in self.members) + " }"
        return s

    def container_tokens(self):
        t = []
        if self.name:
            t.append("name")
        if self.nested:
            t.append("nested")
        s = "+".join(t)
        if self.split and len(self.container_items()) > 1:
            s += "(split)"
        return s

    def shape(self):
        c = self.container_tokens()
        return "%s/%s%s/%s" % ("tuple" if self.tuple else "struct", self.ext or "none",
                               ("[" + c + "]") if c else "", "|".join(m.tokens() for m in self.members))

    def types(self):
        return ",".join(m.ty for m in self.members)


class Enum:
    kindname = "enum"

    def __init__(self, bit_bound, variants, name=None, nested=False):
        self.bit_bound, self.variants, self.name, self.nested = bit_bound, variants, name, nested  # variants: [(ident, explicit|None)]

    def values(self):
        out, nxt = [], 0
        for ident, ex in self.variants:
            if ex is not None:
                nxt = ex
            out.append((ident, nxt))
            nxt += 1
        return out

    def text(self):
        items = []
        if self.name:
            items.append('name = "%s"' % self.name)
        if self.bit_bound:
            items.append('bit_bound = "%d"' % self.bit_bound)
        if self.nested:
            items.append("nested")
        s = "#[derive(Debug, Clone, Copy, PartialEq, DdsType)]\n"
        if items:
            s += "#[dust_dds(%s)]\n" % ", ".join(items)
        s += "pub enum T { " + " ".join("%s%s," % (i, "" if e is None else " = %d" % e) for i, e in self.variants) + " }"
        return s

    def shape(self):
        ex = [e is not None for _, e in self.variants]
        d = "explicit" if all(ex) else ("implicit" if not any(ex) else "mixed")
        c = "+".join(x for x in (["name"] if self.name else []) + (["nested"] if self.nested else []))
        return "enum/bb%s%s/%s%d" % (self.bit_bound or "none", ("[" + c + "]") if c else "", d, len(self.variants))

    def types(self):
        return ""


class Variant:
    def __init__(self, ident, form, ty=None, cases=(), default=False):
        self.ident, self.form, self.ty, self.cases, self.default = ident, form, ty, tuple(cases), default  # form: unit|tuple|named

    def text(self):
        items = ["case = %d" % c for c in self.cases]
        if self.default:
            items.append("default")
        a = "#[dust_dds(%s)] " % ", ".join(items) if items else ""
        if self.form == "unit":
            return "%s%s," % (a, self.ident)
        if self.form == "tuple":
            return "%s%s(%s)," % (a, self.ident, self.ty)
        return "%s%s { v: %s }," % (a, self.ident, self.ty)

    def token(self):
        c = "implicit" if not self.cases else ("case" if len(self.cases) == 1 else "cases%d" % len(self.cases))
        if self.default:
            c = "default" if not self.cases else c + "+default"
        return "%s:%s" % (self.form, c)


class Union:
    kindname = "union"

    def __init__(self, switch, variants, ext=None, key=False, name=None):
        self.switch, self.variants, self.ext, self.key, self.name = switch, variants, ext, key, name

    def text(self):
        items = ["switch(%s%s)" % ("key, " if self.key else "", self.switch)]
        if self.name:
            items.append('name = "%s"' % self.name)
        if self.ext:
            items.append('extensibility = "%s"' % self.ext)
        s = "#[derive(Debug, Clone, PartialEq, DdsType)]\n#[dust_dds(%s)]\n" % ", ".join(items)
        s += "pub enum T { " + " ".join(v.text() for v in self.variants) + " }"
        return s

    def shape(self):
        return "union/%s/%s%s/%s" % (self.ext or "none", self.switch, "+key" if self.key else "",
                                     "|".join(v.token() for v in self.variants))

    def types(self):
        return ",".join(v.ty or "()" for v in self.variants)


# ----------------------------------------------------------------------------------------------
# Enumeration
# ----------------------------------------------------------------------------------------------
def legal_attr_sets(ty, ids, names_for_hash=True, with_dv=True, with_split=False):
    """All legal attribute subsets for one member of type `ty`.
    Illegal together (excluded, see NOTES.md): key+optional, key+non_serialized, optional+non_serialized,
    id+hashid, default_value without optional/non_serialized is legal but inert (kept once)."""
    needs_opt = TYPES[ty].get("needs_optional", False)
    out = []
    idopts = [dict()] + [dict(id=i) for i in ids] + [dict(hashid=True)]
    for idopt in idopts:
        for role in ("plain", "key", "optional", "ns"):
            if needs_opt and role != "optional":
                continue
            base = dict(idopt)
            if role == "key":
                base["key"] = True
            elif role == "optional":
                base["optional"] = True
            elif role == "ns":
                base["ns"] = True
            out.append(base)
            if with_dv and role in ("plain", "optional", "ns") and not idopt:
                d = dict(base)
                d["dv"] = 1
                out.append(d)
    if with_split:
        extra = []
        for a in out:
            if len([k for k in a]) >= 2 and "dv" not in a:
                d = dict(a)
                d["split"] = True
                extra.append(d)
        out += extra
    return out


def enum_structs(tier):
    decls = []
    lo, hi = NAMES_LO, NAMES_HI
    n1 = hi[0]  # the first member name needs the 28-bit mask when hashed
    n2 = lo[0]  # the second one does not
    quick = tier == "quick"
    types = QUICK_TYPES if quick else QUICK_TYPES + EXTRA_TYPES

    # G1: one member, every extensibility x every member type, no attributes (Option<..>: `optional`)
    for ext in EXTS:
        for ty in types:
            a = dict(optional=True) if TYPES[ty].get("needs_optional") else {}
            decls.append(Struct(ext, [Member(n1, ty, **a)]))

    # G2: one member, every extensibility x {i32, String} (thorough: all types) x every legal attribute subset
    g2_types = ["i32", "String"] if quick else types
    for ext in EXTS:
        for ty in g2_types:
            for a in legal_attr_sets(ty, [5, 20000], with_split=ty in ("i32", "String")):
                if not a or a == dict(optional=True) and TYPES[ty].get("needs_optional"):
                    continue  # already in G1
                for nm in ([n1, n2] if a.get("hashid") else [n1]):
                    decls.append(Struct(ext, [Member(nm, ty, **a)]))

    # G3 (quick only, thorough has it in G2): remaining types x {key, optional, non_serialized} x {none, mutable}
    if quick:
        for ext in (None, "mutable"):
            for ty in types:
                if ty in g2_types:
                    continue
                if TYPES[ty].get("needs_optional"):
                    for a in (dict(optional=True, id=5), dict(optional=True, hashid=True), dict(optional=True, dv=1)):
                        decls.append(Struct(ext, [Member(n1, ty, **a)]))
                    continue
                for a in (dict(key=True), dict(optional=True), dict(ns=True)):
                    decls.append(Struct(ext, [Member(n1, ty, **a)]))

    # G4: two members, every extensibility x attribute-set pairs
    a2 = [dict(), dict(key=True), dict(optional=True), dict(id=5), dict(id=20000), dict(hashid=True), dict(ns=True)]
    if not quick:
        a2 += [dict(key=True, id=5), dict(optional=True, id=7), dict(key=True, hashid=True), dict(id=0), dict(id=1),
               dict(key=True, id=5, split=True)]
    pairs = [("i32", "String")] if quick else [("i32", "String"), ("Inner", "Vec<i32>")]
    for ext in ((None, "mutable") if quick else EXTS):
        for t1, t2 in pairs:
            for x in a2:
                for y in a2:
                    if x.get("id") is not None and x.get("id") == y.get("id"):
                        continue  # duplicate explicit ids are illegal
                    if x.get("id") is None and not x.get("hashid") and y.get("id") == 0:
                        continue  # would collide with the first member's automatic id 0
                    decls.append(Struct(ext, [Member(n1, t1, **x), Member(n2, t2, **y)]))

    # G5: a handful of three-member types
    n3 = lo[1]
    triples = [
        [dict(), dict(id=10), dict()],
        [dict(id=5), dict(), dict()],
        [dict(hashid=True), dict(), dict()],
        [dict(), dict(hashid=True), dict()],
        [dict(), dict(), dict(id=7)],
        [dict(key=True), dict(key=True), dict()],
        [dict(key=True), dict(optional=True), dict(ns=True)],
        [dict(id=20000), dict(id=3), dict()],
        [dict(ns=True), dict(), dict()],
    ]
    for ext in ((None, "mutable") if quick else EXTS):
        for tr in triples:
            decls.append(Struct(ext, [Member(n1, "i32", **tr[0]), Member(n2, "String", **tr[1]), Member(n3, "u8", **tr[2])]))

    # G6: container attributes: name / nested / both, also spread over several #[dust_dds] attributes
    for ext in EXTS:
        for name, nested in (("Custom::Name", False), (None, True), ("Custom::Name", True)):
            decls.append(Struct(ext, [Member(n2, "i32", key=True)], name=name, nested=nested))
    for ext in ("mutable", "appendable"):
        decls.append(Struct(ext, [Member(n2, "i32")], name="Custom::Name", split=True))
        decls.append(Struct(ext, [Member(n2, "i32")], nested=True, split=True))

    # G7 (thorough): tuple structs
    if not quick:
        for ext in EXTS:
            for ty in types:
                a = dict(optional=True) if TYPES[ty].get("needs_optional") else {}
                decls.append(Struct(ext, [Member("0", ty, **a)], tuple_=True))
            for x in a2:
                for y in a2:
                    if x.get("id") is not None and x.get("id") == y.get("id"):
                        continue
                    if x.get("id") is None and not x.get("hashid") and y.get("id") == 0:
                        continue
                    decls.append(Struct(ext, [Member("0", "i32", **x), Member("1", "String", **y)], tuple_=True))
    return decls


def enum_enums(tier):
    decls = []
    quick = tier == "quick"
    for bb in (None, 8, 16, 32):
        patterns = [
            [("A", None)],
            [("A", None), ("B", None)],
            [("A", None), ("B", None), ("C", None)],
            [("A", 1), ("B", 5), ("C", 100)],
            [("A", 3), ("B", None), ("C", None)],
            [("A", None), ("B", 7), ("C", None)],
            [("A", 2), ("B", 1)],
        ]
        if bb in (None, 16, 32):
            patterns.append([("A", 300), ("B", None)])
        if bb in (None, 32):
            patterns.append([("A", 40000), ("B", 2147483647)])
        if not quick:
            patterns.append([("A", 0), ("B", 127)])
            patterns.append([("A", 10), ("B", 0)])
        for p in patterns:
            decls.append(Enum(bb, p))
    decls.append(Enum(None, [("A", None), ("B", None)], name="Custom::E"))
    decls.append(Enum(16, [("A", None), ("B", None)], name="Custom::E", nested=True))
    decls.append(Enum(None, [("A", None)], nested=True))
    return decls


def enum_unions(tier):
    decls = []
    quick = tier == "quick"
    switches = ["u8", "i32"] if quick else ["u8", "i16", "i32", "u32", "i64"]
    bodies = [
        [Variant("A", "tuple", "i32", [1])],
        [Variant("A", "tuple", "i32", [1]), Variant("B", "named", "String", [2])],
        [Variant("A", "tuple", "i32", [1]), Variant("B", "named", "String", [2, 3])],
        [Variant("A", "tuple", "i32", [1]), Variant("B", "unit", None, [2])],
        [Variant("A", "tuple", "i32", [1]), Variant("B", "unit", None, [], default=True)],
        [Variant("A", "tuple", "i32", [2]), Variant("B", "tuple", "u8", [], default=True)],
        [Variant("A", "tuple", "i32", [5]), Variant("B", "named", "String", [7], default=True)],
        [Variant("A", "tuple", "i32"), Variant("B", "named", "String")],
        [Variant("A", "tuple", "i32"), Variant("B", "tuple", "Inner"), Variant("C", "unit")],
        [Variant("A", "tuple", "Vec<i32>", [0]), Variant("B", "tuple", "Color", [1])],
        [Variant("A", "tuple", "i32", [100, 1]), Variant("B", "tuple", "f64", [50])],
    ]
    for sw in switches:
        for body in bodies:
            decls.append(Union(sw, body))
    for ext in ("final", "appendable", "mutable"):
        for key in (False, True):
            decls.append(Union("i32", bodies[1], ext=ext, key=key))
    decls.append(Union("u8", bodies[1], key=True))
    decls.append(Union("i32", bodies[1], name="Custom::U"))
    if not quick:
        for ext in ("final", "appendable", "mutable"):
            for body in bodies:
                decls.append(Union("i32", body, ext=ext))
    return decls


def enumerate_decls(tier):
    return enum_structs(tier) + enum_enums(tier) + enum_unions(tier)


# ----------------------------------------------------------------------------------------------
# Reference description (independent of dust-dds)
# ----------------------------------------------------------------------------------------------
def ref_member_ids(members):
    """XTypes 1.3 7.3.1.2.1.1 with the default @autoid(SEQUENTIAL): explicit @id, @hashid, otherwise one more
    than the previous member's id (0 for the first member)."""
    ids, prev = [], None
    for m in members:
        if m.id is not None:
            v = m.id
        elif m.hashid:
            v = xtypes_hashid(m.name)
        else:
            v = 0 if prev is None else prev + 1
        ids.append(v)
        prev = v
    return ids


def ref_member_ids_alt(members):
    """Second accepted numbering for automatic ids: hashed ids do not advance the sequential counter (what the derive
    does on purpose: `if !hashid { next_auto_id = .. }`).  Neither the property nor the README says how an un-annotated
    member after a hashid member is numbered, so both this and the XTypes rule are accepted for such members."""
    ids, prev = [], None
    for m in members:
        if m.id is not None:
            v = m.id
        elif m.hashid:
            ids.append(xtypes_hashid(m.name))
            continue
        else:
            v = 0 if prev is None else prev + 1
        ids.append(v)
        prev = v
    return ids


def ref_type_desc(ty):
    t = TYPES[ty]
    return dict(kind=t["kind"], elem=t.get("elem"), bound=t.get("bound"), tname=t.get("tname"))


def ref_struct(d):
    ids = ref_member_ids(d.members)
    alt = ref_member_ids_alt(d.members)
    return dict(kind="STRUCTURE", name=d.name or "T", ext=EXT_KIND[d.ext], nested=d.nested,
                members=[dict(name=m.name, id=ids[i], id_alt=alt[i], index=i, key=m.key, opt=m.optional, type=ref_type_desc(m.ty))
                         for i, m in enumerate(d.members)])


def ref_enum(d):
    return dict(kind="ENUM", name=d.name or "T", ext="Final", nested=d.nested,
                disc={None: "INT32", 8: "INT8", 16: "INT16", 32: "INT32"}[d.bit_bound],
                literals=d.values())


SWITCH_KIND = {"u8": "UINT8", "i16": "INT16", "i32": "INT32", "u32": "UINT32", "i64": "INT64"}


def ref_union(d):
    members = []
    for i, v in enumerate(d.variants):
        # README: "case: ... If omitted, defaults to the 0-indexed index of the variant."
        # A `default` variant without `case` has no label of its own (None = not compared).
        labels = list(v.cases) if v.cases else (None if v.default else [i])
        members.append(dict(name=v.ident, labels=labels, deflabel=v.default,
                            type=ref_type_desc(v.ty) if v.ty else None))
    return dict(kind="UNION", name=d.name or "T", ext=EXT_KIND[d.ext], disc=SWITCH_KIND[d.switch],
                disc_key=d.key, members=members)


# ----------------------------------------------------------------------------------------------
# Rust code generation
# ----------------------------------------------------------------------------------------------
HEADER = "#![allow(dead_code, unused_imports, unused_variables, unused_mut, non_snake_case)]\n" \
         "use dust_dds::infrastructure::type_support::DdsType;\nuse crate::support::*;\n\n"


def gen_module(idx, d):
    mod = pcc.mod_name(idx)
    s = HEADER + d.text() + "\n\npub fn check(o: &mut crate::rt::Out) {\n"
    s += "    o.line(\"{\\\"d\\\":\\\"%s\\\",\\\"k\\\":\\\"hash\\\",\\\"h\\\":\\\"%s\\\"}\");\n" % (mod, pcc.text_hash(d.text()))
    s += "    crate::rt::describe::<T>(o, \"%s\", \"T\");\n" % mod
    if isinstance(d, Struct):
        for k, m in enumerate(d.members):
            s += "    let vals%d: Vec<%s> = vec![%s];\n" % (k, m.ty, ", ".join(v for v, _ in TYPES[m.ty]["vals"]))
        s += "    let mut n = 0usize;\n"
        for k, m in enumerate(d.members):
            s += "    " * (k + 1) + "for (i%d, x%d) in vals%d.iter().enumerate() {\n" % (k, k, k)
        ind = "    " * (len(d.members) + 1)
        if d.tuple:
            s += ind + "let v = T(%s);\n" % ", ".join("x%d.clone()" % k for k in range(len(d.members)))
        else:
            s += ind + "let v = T { %s };\n" % ", ".join("%s: x%d.clone()" % (m.name, k) for k, m in enumerate(d.members))
        s += ind + "let mut e = v.clone();\n"
        for k, m in enumerate(d.members):
            if m.ns:
                fld = str(k) if d.tuple else m.name
                if m.dv is not None:
                    s += ind + "e.%s = %s;\n" % (fld, TYPES[m.ty]["vals"][m.dv][0])
                else:
                    s += ind + "e.%s = Default::default();\n" % fld
        tag = " + \",\" + &".join("i%d.to_string()" % k for k in range(len(d.members)))
        s += ind + "let tag = String::new() + &%s;\n" % tag
        s += ind + "crate::rt::roundtrip(o, \"%s\", \"T\", n, &tag, v, e);\n" % mod
        s += ind + "n += 1;\n"
        for k in reversed(range(len(d.members))):
            s += "    " * (k + 1) + "}\n"
    elif isinstance(d, Enum):
        for k, (ident, _) in enumerate(d.variants):
            s += "    crate::rt::roundtrip(o, \"%s\", \"T\", %d, \"%s\", T::%s, T::%s);\n" % (mod, k, ident, ident, ident)
    else:
        n = 0
        for v in d.variants:
            if v.form == "unit":
                s += "    crate::rt::roundtrip(o, \"%s\", \"T\", %d, \"%s\", T::%s, T::%s);\n" % (mod, n, v.ident, v.ident, v.ident)
                n += 1
                continue
            for j, (val, _) in enumerate(TYPES[v.ty]["vals"]):
                ctor = "T::%s(%s)" % (v.ident, val) if v.form == "tuple" else "T::%s { v: %s }" % (v.ident, val)
                s += "    crate::rt::roundtrip(o, \"%s\", \"T\", %d, \"%s,%d\", %s, %s);\n" % (mod, n, v.ident, j, ctor, ctor)
                n += 1
    s += "}\n"
    return s


def pkg_name(ident):
    # package/binary names are unique per tier and repo so that the crates do not overwrite each other's
    # executables in the shared target directory
    return "progcheck_%s%s" % (ident, pcc.repo_tag())


BIN_SIZE = 700  # declarations per binary; cargo compiles the binaries of the crate in parallel


def write_crate(ident, decls, excluded):
    crate = pcc.gen_dir(ident)
    os.makedirs(os.path.join(crate, "src", "d"), exist_ok=True)
    groups = pcc.chunks(range(len(decls)), BIN_SIZE)
    cargo = """[package]
name = "%s"
version = "0.0.0"
edition = "2024"
autobins = false

[workspace]

%s[dependencies]
dust_dds = { path = "%s/dds" }

[profile.dev]
debug = 0
opt-level = 0
""" % (pkg_name(ident), pcc.bin_sections(pkg_name(ident), len(groups)), pcc.repo())
    pcc.write_if_changed(os.path.join(crate, "Cargo.toml"), cargo)
    pcc.copy_lock(crate)
    top = {"rt.rs": pcc.read_rt(), "support.rs": SUPPORT_RS}
    files = {}
    for k, group in enumerate(groups):
        mods, calls = [], []
        for i in group:
            if i in excluded:
                continue
            m = pcc.mod_name(i)
            files[m + ".rs"] = gen_module(i, decls[i])
            mods.append("    pub mod %s;" % m)
            calls.append("    rt::guarded(&mut o, \"%s\", d::%s::check);" % (m, m))
        top["b%02d.rs" % k] = "#![allow(dead_code)]\nmod rt;\nmod support;\nmod d {\n%s\n}\n\nfn main() {\n" \
            "    let path = std::env::args().nth(1).expect(\"out file\");\n    rt::quiet_panics();\n" \
            "    let mut o = rt::Out::new(&path);\n%s\n    o.line(\"{\\\"k\\\":\\\"done\\\"}\");\n    o.flush();\n}\n" \
            % ("\n".join(mods), "\n".join(calls))
    pcc.sync_dir(os.path.join(crate, "src", "d"), files)
    for name in os.listdir(os.path.join(crate, "src")):
        p = os.path.join(crate, "src", name)
        if os.path.isfile(p) and name not in top:
            os.remove(p)
    for name, content in top.items():
        pcc.write_if_changed(os.path.join(crate, "src", name), content)
    return crate


# ----------------------------------------------------------------------------------------------
# Comparison
# ----------------------------------------------------------------------------------------------
def cmp_type(exp, act):
    """Compares a member type description; returns list of (what, expected, actual)."""
    out = []
    if act.get("kind") != exp["kind"]:
        out.append(("kind", exp["kind"], act.get("kind")))
        return out
    if exp.get("elem") and (act.get("elem") or {}).get("kind") != exp["elem"]:
        out.append(("element kind", exp["elem"], (act.get("elem") or {}).get("kind")))
    if exp.get("bound") and act.get("bound") != exp["bound"]:
        out.append(("bound", exp["bound"], act.get("bound")))
    if exp.get("tname") and act.get("name") != exp["tname"]:
        out.append(("type name", exp["tname"], act.get("name")))
    return out


def ext_class(d):
    """Member-level signatures only distinguish mutable from non-mutable (none/final/appendable behave alike for
    members); the extensibility itself is checked by the `extensibility` clause with the exact class."""
    return ("tuple/" if d.tuple else "") + ("mutable" if d.ext == "mutable" else "non-mutable")


def split_lost(m):
    """Tokens of the attributes that are NOT in the first #[dust_dds(..)] attribute of a split member."""
    items = m.attr_items()
    if not (m.split and len(items) > 1):
        return None
    lost = []
    for it in items[1:]:
        w = it.split(" ")[0]
        lost.append({"optional": "opt", "non_serialized": "ns", "default_value": "dv"}.get(w, w))
    return "+".join(lost)


def member_role(m):
    t = [x for x, on in (("key", m.key), ("opt", m.optional), ("ns", m.ns), ("dv", m.dv is not None)) if on]
    return "+".join(t) if t else "-"


def member_shape(d, i, clause):
    """Shape class of one member for one clause: only what is relevant for the clause is part of it, so that one
    defect maps to few signatures."""
    m = d.members[i]
    lost = split_lost(m)
    relevant = {"member-id": ("id", "hashid"), "key-flag": ("key",), "optional-flag": ("opt",),
                "must-understand-flag": ("key",)}.get(clause)
    if lost is not None and (relevant is None or any(x in lost.split("+") for x in relevant)):
        return "split-attrs/%s/lost-%s" % (ext_class(d), lost)
    decl_lost = [split_lost(x) for x in d.members if split_lost(x) is not None]
    if lost is None and decl_lost and clause in ("member-id", "accessor-consistency"):
        # consequence of a *different* member of the declaration having lost its attributes
        return "split-attrs/%s/lost-%s/follow-on" % (ext_class(d), decl_lost[0])
    if clause in ("member-id", "accessor-consistency"):
        s = "%s/%s" % (ext_class(d), m.idkind() or "auto")
        if m.idkind() is None:
            prev = [p.idkind() for p in d.members[:i] if p.idkind()]
            if prev:
                s += "/after-" + prev[-1]
        return s
    if clause in ("key-flag", "optional-flag", "must-understand-flag"):
        return "%s/%s" % (ext_class(d), member_role(m))
    return "%s/%s" % (ext_class(d), m.tokens())


def decl_shape_rt(d):
    """Shape class of a whole struct for the roundtrip / dynamic-ids clauses."""
    losts = [split_lost(m) for m in d.members if split_lost(m) is not None]
    if losts:
        return "split-attrs/%s/lost-%s" % (ext_class(d), "|".join(losts))
    return "%s/%s/%s" % (ext_class(d), "|".join(member_role(m) for m in d.members), d.types())


def check_struct(d, text, recs, F, viol):
    ref = ref_struct(d)
    desc = recs.get("desc")
    cshape = "%s%s" % (d.ext or "none", ("[" + d.container_tokens() + "]") if d.container_tokens() else "")
    if d.tuple:
        cshape = "tuple/" + cshape
    if d.split and len(d.container_items()) > 1:
        lost = [it.split(" ")[0] for it in d.container_items()[1:]]
        cshape = "split-attrs/container/lost-" + "+".join("ext" if x == "extensibility" else x for x in lost)
    act_ids = None
    if desc is None or "panic" in desc:
        F.add("description-panic", cshape, text, "get_type() panicked or produced nothing: %r" % (desc,))
        viol.add("description-panic")
    else:
        a = desc["v"]
        if not desc.get("const_same", True):
            F.add("type-const", cshape, text, "TypeSupport::get_type() differs from Type::TYPE")
            viol.add("type-const")
        for clause, key in (("type-kind", "kind"), ("type-name", "name"), ("extensibility", "ext"), ("nested-flag", "nested")):
            if a.get(key) != ref[key]:
                F.add(clause, cshape, text, "%s: expected %r, type reports %r" % (key, ref[key], a.get(key)))
                viol.add(clause)
        if a.get("count") != len(ref["members"]) or len(a.get("members", [])) != len(ref["members"]):
            F.add("member-count", cshape, text, "expected %d members, type reports %r" % (len(ref["members"]), a.get("count")))
            viol.add("member-count")
        else:
            act_ids = [m.get("id") for m in a["members"]]
            for i, (em, am) in enumerate(zip(ref["members"], a["members"])):
                ms = member_shape(d, i, "other")
                checks = [("member-name", "name"), ("member-id", "id"), ("member-index", "index"),
                          ("key-flag", "key"), ("optional-flag", "opt")]
                for clause, key in checks:
                    if am.get(key) != em[key] and not (key == "id" and am.get("id") == em.get("id_alt")):
                        F.add(clause, member_shape(d, i, clause), text, "member #%d `%s` %s: expected %r, type reports %r"
                              % (i, em["name"], key, em[key], am.get(key)))
                        viol.add(clause)
                if am.get("mu") != em["key"]:
                    F.add("must-understand-flag", member_shape(d, i, "must-understand-flag"), text, "member #%d `%s`: is_must_understand expected %r (== key), reports %r"
                          % (i, em["name"], em["key"], am.get("mu")))
                    viol.add("must-understand-flag")
                for what, e, g in cmp_type(em["type"], am.get("type", {})):
                    F.add("member-kind", "%s/%s" % (ext_class(d), d.members[i].ty), text,
                          "member #%d `%s` %s: expected %r, type reports %r" % (i, em["name"], what, e, g))
                    viol.add("member-kind")
                if am.get("by_name_id") != am.get("id") or am.get("by_id_name") != am.get("name"):
                    F.add("accessor-consistency", member_shape(d, i, "accessor-consistency"), text,
                          "member #%d: get_member_by_name(%r).id=%r, get_member(%r).name=%r"
                          % (i, am.get("name"), am.get("by_name_id"), am.get("id"), am.get("by_id_name")))
                    viol.add("accessor-consistency")
    return act_ids


def check_struct_rt(d, text, recs, act_ids, F, viol):
    rts = recs.get("rt", [])
    exp_n = 1
    for m in d.members:
        exp_n *= len(TYPES[m.ty]["vals"])
    rshape = decl_shape_rt(d)
    if len(rts) != exp_n:
        F.add("roundtrip", rshape, text, "expected %d roundtrip records, program produced %d (crash: %r)"
              % (exp_n, len(rts), recs.get("crash")))
        viol.add("roundtrip")
    for r in rts:
        if r["r"] != "ok":
            F.add("roundtrip", rshape + "/" + r["r"], text,
                  "value %s -> dynamic data (member ids %s) -> %s" % (r["val"], r["ids"], r["got"]))
            viol.add("roundtrip")
            continue
        if act_ids is None:
            continue
        idx = [int(x) for x in r["tag"].split(",")]
        exp_ids = set()
        may_be_absent = set()
        for k, m in enumerate(d.members):
            if m.ns:
                continue
            dflt_index = m.dv if m.dv is not None else 0
            if m.optional:
                if idx[k] == dflt_index:
                    continue
            elif d.tuple and d.ext == "mutable" and idx[k] == dflt_index:
                # the derive deliberately treats every member of a mutable *tuple* struct as optional ("In Mutable
                # structs every member is optional even when not explicitly marked as such"); the value round trip is
                # checked separately, so a default-valued member may be stored or not
                may_be_absent.add(act_ids[k])
            exp_ids.add(act_ids[k])
        if not (exp_ids - may_be_absent <= set(r["ids"]) <= exp_ids):
            dshape = rshape if rshape.startswith("split-attrs") else \
                "%s/%s" % (ext_class(d), "|".join(sorted(set(member_role(m) for m in d.members))))
            F.add("dynamic-ids", dshape, text,
                  "value %s: dynamic data holds member ids %s, expected %s (ids as published by the type; "
                  "non-serialized and absent optional members must not be stored)" % (r["val"], sorted(r["ids"]), sorted(exp_ids)))
            viol.add("dynamic-ids")


def check_enum(d, text, recs, F, viol):
    ref = ref_enum(d)
    desc = recs.get("desc")
    shape = d.shape()
    if desc is None or "panic" in desc:
        F.add("description-panic", shape, text, "get_type() panicked or produced nothing: %r" % (desc,))
        viol.add("description-panic")
    else:
        a = desc["v"]
        for clause, key in (("type-kind", "kind"), ("type-name", "name"), ("extensibility", "ext"),
                            ("nested-flag", "nested"), ("enum-bit-bound", "disc")):
            if a.get(key) != ref[key]:
                F.add(clause, shape, text, "%s: expected %r, type reports %r" % (key, ref[key], a.get(key)))
                viol.add(clause)
        lits = [(m.get("name"), m.get("id")) for m in a.get("members", [])]
        if [n for n, _ in lits] != [n for n, _ in ref["literals"]]:
            F.add("enum-literals", "enum", text, "enumerators expected %r, type description lists %r"
                  % (ref["literals"], lits))
            viol.add("enum-literals")
    rts = recs.get("rt", [])
    if len(rts) != len(d.variants):
        F.add("roundtrip", shape, text, "expected %d roundtrip records, got %d" % (len(d.variants), len(rts)))
        viol.add("roundtrip")
    vals = dict(d.values())
    width = {None: 32, 8: 8, 16: 16, 32: 32}[d.bit_bound]
    for r in rts:
        if r["r"] != "ok":
            F.add("roundtrip", shape + "/" + r["r"], text, "enumerator %s -> dynamic %s -> %s" % (r["val"], r["stor"], r["got"]))
            viol.add("roundtrip")
            continue
        want = "Int%d(%d)" % (width, vals[r["tag"]])
        if r["stor"] != [want]:
            F.add("enum-value", shape, text, "enumerator %s: dynamic data holds %s, expected [%s]" % (r["tag"], r["stor"], want))
            viol.add("enum-value")


def check_union(d, text, recs, F, viol):
    ref = ref_union(d)
    desc = recs.get("desc")
    shape = d.shape()
    tshape = "union/%s/%s%s" % (d.ext or "none", d.switch, "+key" if d.key else "")
    if desc is None or "panic" in desc:
        F.add("description-panic", shape, text, "get_type() panicked or produced nothing: %r" % (desc,))
        viol.add("description-panic")
    else:
        a = desc["v"]
        for clause, key in (("type-kind", "kind"), ("type-name", "name"), ("extensibility", "ext"),
                            ("union-discriminator", "disc")):
            if a.get(key) != ref[key]:
                F.add(clause, tshape, text, "%s: expected %r, type reports %r" % (key, ref[key], a.get(key)))
                viol.add(clause)
        am = a.get("members", [])
        # dust-dds publishes the discriminator as member #0 followed by one member per variant
        if len(am) != len(ref["members"]) + 1:
            F.add("member-count", tshape, text, "expected discriminator + %d case members, type reports %d members"
                  % (len(ref["members"]), len(am)))
            viol.add("member-count")
        else:
            dm = am[0]
            if dm.get("key") != ref["disc_key"]:
                F.add("key-flag", tshape, text, "discriminator is_key expected %r, reports %r" % (ref["disc_key"], dm.get("key")))
                viol.add("key-flag")
            if (dm.get("type") or {}).get("kind") != ref["disc"]:
                F.add("union-discriminator", tshape, text, "discriminator member kind expected %r, reports %r"
                      % (ref["disc"], (dm.get("type") or {}).get("kind")))
                viol.add("union-discriminator")
            ids = [m.get("id") for m in am]
            if len(set(ids)) != len(ids):
                F.add("member-id", tshape, text, "union member ids are not unique: %r" % ids)
                viol.add("member-id")
            seen = {}
            for i, m in enumerate(am[1:]):
                for lab in m.get("labels", []):
                    if lab in seen and seen[lab] != i:
                        F.add("union-label-collision", "union/%s-vs-%s" % (d.variants[seen[lab]].token(), d.variants[i].token()),
                              text, "label %r is published for both case members `%s` and `%s`"
                              % (lab, d.variants[seen[lab]].ident, d.variants[i].ident))
                        viol.add("union-label-collision")
                    seen.setdefault(lab, i)
            for i, (em, m) in enumerate(zip(ref["members"], am[1:])):
                vs = "union/%s" % d.variants[i].token()
                if m.get("name") != em["name"]:
                    F.add("member-name", vs, text, "case member #%d name expected %r, reports %r" % (i, em["name"], m.get("name")))
                    viol.add("member-name")
                if em["labels"] is not None and m.get("labels") != em["labels"]:
                    F.add("union-label", "union/implicit-case" if not d.variants[i].cases else vs, text,
                          "case member `%s` labels expected %r, type reports %r (README: `case` omitted -> "
                          "0-indexed index of the variant)" % (em["name"], em["labels"], m.get("labels")))
                    viol.add("union-label")
                if m.get("deflabel") != em["deflabel"]:
                    F.add("union-default", vs, text, "case member `%s` is_default_label expected %r, reports %r"
                          % (em["name"], em["deflabel"], m.get("deflabel")))
                    viol.add("union-default")
                if em["type"] is not None:
                    for what, e, g in cmp_type(em["type"], m.get("type", {})):
                        F.add("member-kind", "%s/%s" % (vs, d.variants[i].ty), text,
                              "case member `%s` %s: expected %r, reports %r" % (em["name"], what, e, g))
                        viol.add("member-kind")
                if m.get("by_name_id") != m.get("id") or m.get("by_id_name") != m.get("name"):
                    F.add("accessor-consistency", vs, text, "case member #%d lookup by name/id inconsistent: %r" % (i, m))
                    viol.add("accessor-consistency")
    rts = recs.get("rt", [])
    exp_n = sum(1 if v.form == "unit" else len(TYPES[v.ty]["vals"]) for v in d.variants)
    if len(rts) != exp_n:
        F.add("roundtrip", shape, text, "expected %d roundtrip records, got %d (crash: %r)" % (exp_n, len(rts), recs.get("crash")))
        viol.add("roundtrip")
    for r in rts:
        if r["r"] != "ok":
            F.add("roundtrip", "union/%s/%s/%s" % ("|".join(v.token() for v in d.variants), d.types(), r["r"]), text,
                  "value %s -> dynamic data (ids %s, %s) -> %s" % (r["val"], r["ids"], r["stor"], r["got"]))
            viol.add("roundtrip")


def grammar_text(tier, decls):
    ns = sum(1 for d in decls if isinstance(d, Struct) and not d.tuple)
    nt = sum(1 for d in decls if isinstance(d, Struct) and d.tuple)
    ne = sum(1 for d in decls if isinstance(d, Enum))
    nu = sum(1 for d in decls if isinstance(d, Union))
    return ("C40 %s: %d declarations = %d named structs (1-3 members; ext {none,final,appendable,mutable}; attr subsets of "
            "{key,optional,id(5|20000),hashid,non_serialized,default_value}; %d member types) + %d tuple structs + %d enums "
            "(bit_bound none/8/16/32, implicit/explicit/mixed discriminants) + %d unions (switch, key, ext, case/default forms)"
            % (tier, len(decls), ns, len(QUICK_TYPES if tier == "quick" else QUICK_TYPES + EXTRA_TYPES), nt, ne, nu))


def run(tier, seed, result):
    decls = enumerate_decls(tier)
    texts = [d.text() for d in decls]
    ident = "c40_%s" % tier
    timeout_build = 600 if tier == "quick" else 3000
    b = pcc.build_with_bisect(lambda ex: write_crate(ident, decls, ex), len(decls), pkg_name(ident), timeout_build)
    F = pcc.Findings("C40")
    distinct = set()
    evaluations = 0
    result["extra"].update({"programs": len(decls), "build_s": round(b["build_s"], 1), "grammar": grammar_text(tier, decls),
                            "build_rounds": b["rounds"], "repo": pcc.repo()})
    for i, msgs in sorted(b["excluded"].items()):
        d = decls[i]
        F.add("does-not-compile", decl_shape_rt(d) if isinstance(d, Struct) else "%s/%s" % (d.shape(), d.types()),
              texts[i], "rustc: " + " | ".join(msgs[:3]))
        distinct.add("%s/does-not-compile" % d.shape())
        evaluations += 1
    if not b["ok"]:
        result["machinery_error"] = b["machinery_error"]
        result["findings"] = F.to_list()
        result["distinct"] = sorted(distinct)
        result["evaluations"] = evaluations
        return
    out_file = os.path.join(pcc.gen_dir(ident), "out.jsonl")
    r = pcc.run_program(b["exe"], out_file, 300)
    result["extra"]["run_s"] = round(r["seconds"], 2)
    by = {}
    done = False
    for rec in r["records"]:
        if rec.get("k") == "done":
            done = True
            continue
        dd = rec.get("d")
        if dd is None:
            continue
        e = by.setdefault(dd, {"rt": []})
        if rec["k"] == "desc":
            e["desc"] = rec
        elif rec["k"] == "rt":
            e["rt"].append(rec)
        elif rec["k"] == "crash":
            e["crash"] = rec.get("panic")
        elif rec["k"] == "end":
            e["end"] = True
        elif rec["k"] == "hash":
            e["hash"] = rec.get("h")
    if not done:
        result["machinery_error"] = "generated program did not finish (rc=%s): %s" % (r["rc"], r["stderr_tail"][-500:])
    samples = []
    for i, d in enumerate(decls):
        if i in b["excluded"]:
            continue
        recs = by.get(pcc.mod_name(i), {"rt": []})
        viol = set()
        if recs.get("hash") != pcc.text_hash(texts[i]):
            result["machinery_error"] = result["machinery_error"] or (
                "records of %s do not belong to the declaration that was generated (stale binary?)" % pcc.mod_name(i))
            continue
        if isinstance(d, Struct):
            act_ids = check_struct(d, texts[i], recs, F, viol)
            evaluations += 1
            check_struct_rt(d, texts[i], recs, act_ids, F, viol)
            evaluations += 1
        elif isinstance(d, Enum):
            check_enum(d, texts[i], recs, F, viol)
            evaluations += 2
        else:
            check_union(d, texts[i], recs, F, viol)
            evaluations += 2
        distinct.add("%s/%s" % (d.shape(), "ok" if not viol else "+".join(sorted(viol))))
        if len(samples) < 6 and i % max(1, len(decls) // 6) == 0:
            desc = recs.get("desc", {}).get("v", {})
            samples.append("%s  ==> compared: name=%r ext=%r members=%s; %d roundtrips (%s)"
                           % (texts[i].replace("\n", " "), desc.get("name"), desc.get("ext"),
                              [(m.get("name"), m.get("id"), m.get("key"), m.get("opt"), (m.get("type") or {}).get("kind"))
                               for m in desc.get("members", [])],
                              len(recs["rt"]), ",".join(sorted(set(x["r"] for x in recs["rt"])))))
    result["evaluations"] = evaluations
    result["distinct"] = sorted(distinct)
    result["samples"] = samples
    result["findings"] = F.to_list()
    result["notes"].append("--seed is accepted but unused: the enumeration is exhaustive and deterministic")
