// Runtime support of the generated progcheck crates (copied verbatim into src/rt.rs).
// Only uses the public introspection API of dust_dds; emits one JSON object per line.
#![allow(dead_code)]
use dust_dds::xtypes::dynamic_type::DynamicType;
use dust_dds::xtypes::type_support::TypeSupport;
use std::fmt::Debug;
use std::io::Write;
use std::panic::{catch_unwind, AssertUnwindSafe};

pub struct Out {
    w: std::io::BufWriter<std::fs::File>,
}

impl Out {
    pub fn new(path: &str) -> Self {
        Out { w: std::io::BufWriter::new(std::fs::File::create(path).expect("create out file")) }
    }
    pub fn line(&mut self, s: &str) {
        self.w.write_all(s.as_bytes()).unwrap();
        self.w.write_all(b"\n").unwrap();
    }
    pub fn flush(&mut self) {
        self.w.flush().unwrap();
    }
}

pub fn esc(s: &str) -> String {
    let mut o = String::with_capacity(s.len() + 2);
    o.push('"');
    for c in s.chars() {
        match c {
            '"' => o.push_str("\\\""),
            '\\' => o.push_str("\\\\"),
            '\n' => o.push_str("\\n"),
            '\r' => o.push_str("\\r"),
            '\t' => o.push_str("\\t"),
            c if (c as u32) < 0x20 => o.push_str(&format!("\\u{:04x}", c as u32)),
            c => o.push(c),
        }
    }
    o.push('"');
    o
}

fn clip(s: String, n: usize) -> String {
    if s.chars().count() > n {
        let mut t: String = s.chars().take(n).collect();
        t.push_str("...");
        t
    } else {
        s
    }
}

/// JSON description of a DynamicType through the public accessor functions.
pub fn desc(t: &DynamicType, depth: u32) -> String {
    let d = t.get_descriptor();
    let mut o = String::new();
    o.push('{');
    o.push_str(&format!("\"kind\":\"{:?}\"", t.get_kind()));
    o.push_str(&format!(",\"name\":{}", esc(t.get_name())));
    o.push_str(&format!(",\"ext\":\"{:?}\"", d.extensibility_kind));
    o.push_str(&format!(",\"nested\":{}", d.is_nested));
    o.push_str(&format!(
        ",\"bound\":[{}]",
        d.bound.iter().map(|b| b.to_string()).collect::<Vec<_>>().join(",")
    ));
    match &d.element_type {
        Some(e) if depth > 0 => o.push_str(&format!(",\"elem\":{}", desc(e, depth - 1))),
        Some(e) => o.push_str(&format!(",\"elem\":{{\"kind\":\"{:?}\"}}", e.get_kind())),
        None => o.push_str(",\"elem\":null"),
    }
    match &d.discriminator_type {
        Some(e) => o.push_str(&format!(",\"disc\":\"{:?}\"", e.get_kind())),
        None => o.push_str(",\"disc\":null"),
    }
    match &d.base_type {
        Some(e) => o.push_str(&format!(",\"base\":{}", esc(e.get_name()))),
        None => o.push_str(",\"base\":null"),
    }
    let n = t.get_member_count();
    o.push_str(&format!(",\"count\":{}", n));
    o.push_str(",\"members\":[");
    if depth > 0 {
        for i in 0..n {
            if i > 0 {
                o.push(',');
            }
            match t.get_member_by_index(i) {
                Ok(m) => {
                    let md = m.get_descriptor().unwrap();
                    o.push('{');
                    o.push_str(&format!("\"name\":{}", esc(m.get_name())));
                    o.push_str(&format!(",\"id\":{}", m.get_id()));
                    o.push_str(&format!(",\"index\":{}", md.index));
                    o.push_str(&format!(",\"key\":{}", md.is_key));
                    o.push_str(&format!(",\"opt\":{}", md.is_optional));
                    o.push_str(&format!(",\"mu\":{}", md.is_must_understand));
                    o.push_str(&format!(",\"external\":{}", md.is_external));
                    o.push_str(&format!(",\"deflabel\":{}", md.is_default_label));
                    o.push_str(&format!(
                        ",\"labels\":[{}]",
                        md.label.iter().map(|b| b.to_string()).collect::<Vec<_>>().join(",")
                    ));
                    o.push_str(&format!(",\"try\":\"{:?}\"", md.try_construct_kind));
                    // lookup consistency of the accessor functions
                    let by_name = t.get_member_by_name(m.get_name()).map(|x| x.get_id()).ok();
                    let by_id = t.get_member(m.get_id()).map(|x| x.get_name().to_string()).ok();
                    o.push_str(&format!(
                        ",\"by_name_id\":{}",
                        by_name.map(|x| x.to_string()).unwrap_or("null".to_string())
                    ));
                    o.push_str(&format!(
                        ",\"by_id_name\":{}",
                        by_id.map(|x| esc(&x)).unwrap_or("null".to_string())
                    ));
                    o.push_str(&format!(",\"type\":{}", desc(&md.r#type, depth - 1)));
                    o.push('}');
                }
                Err(e) => o.push_str(&format!("{{\"error\":{}}}", esc(&format!("{:?}", e)))),
            }
        }
    }
    o.push_str("]}");
    o
}

fn panic_text(e: Box<dyn std::any::Any + Send>) -> String {
    if let Some(s) = e.downcast_ref::<&str>() {
        s.to_string()
    } else if let Some(s) = e.downcast_ref::<String>() {
        s.clone()
    } else {
        "<non-string panic>".to_string()
    }
}

pub fn describe<T: TypeSupport>(o: &mut Out, d: &str, tname: &str) {
    let r = catch_unwind(AssertUnwindSafe(|| {
        let t = T::get_type();
        let via_const = <T as dust_dds::xtypes::type_support::Type>::TYPE;
        (desc(&t, 3), t == via_const)
    }));
    match r {
        Ok((s, same)) => o.line(&format!(
            "{{\"d\":{},\"t\":{},\"k\":\"desc\",\"const_same\":{},\"v\":{}}}",
            esc(d),
            esc(tname),
            same,
            s
        )),
        Err(e) => o.line(&format!(
            "{{\"d\":{},\"t\":{},\"k\":\"desc\",\"panic\":{}}}",
            esc(d),
            esc(tname),
            esc(&panic_text(e))
        )),
    }
}

/// Description through the `Type` trait only (also works for aliases of primitive/collection types).
pub fn describe_t<T: dust_dds::xtypes::type_support::Type>(o: &mut Out, d: &str, tname: &str) {
    let r = catch_unwind(AssertUnwindSafe(|| desc(&T::TYPE, 3)));
    match r {
        Ok(s) => o.line(&format!(
            "{{\"d\":{},\"t\":{},\"k\":\"desc\",\"v\":{}}}",
            esc(d),
            esc(tname),
            s
        )),
        Err(e) => o.line(&format!(
            "{{\"d\":{},\"t\":{},\"k\":\"desc\",\"panic\":{}}}",
            esc(d),
            esc(tname),
            esc(&panic_text(e))
        )),
    }
}

/// value -> dynamic data -> value. `expect` is what the reference says must come back.
pub fn roundtrip<T: TypeSupport + PartialEq + Debug + Clone>(
    o: &mut Out,
    d: &str,
    tname: &str,
    idx: usize,
    tag: &str,
    v: T,
    expect: T,
) {
    let val = clip(format!("{:?}", v), 200);
    let r = catch_unwind(AssertUnwindSafe(|| {
        let mut data = v.create_dynamic_sample();
        let n = data.get_item_count();
        let mut ids = Vec::new();
        for i in 0..n {
            if let Ok(id) = data.get_member_id_at_index(i) {
                ids.push(id);
            }
        }
        let mut stor = Vec::new();
        for id in &ids {
            if let Ok(s) = data.get_value(*id) {
                stor.push(clip(format!("{:?}", s), 80));
            }
        }
        let back = T::create_sample(&mut data);
        (ids, stor, back)
    }));
    match r {
        Ok((ids, stor, back)) => {
            let res = match &back {
                Some(b) if *b == expect => "ok",
                Some(_) => "ne",
                None => "none",
            };
            o.line(&format!(
                "{{\"d\":{},\"t\":{},\"k\":\"rt\",\"i\":{},\"tag\":{},\"r\":\"{}\",\"ids\":[{}],\"stor\":[{}],\"val\":{},\"got\":{}}}",
                esc(d),
                esc(tname),
                idx,
                esc(tag),
                res,
                ids.iter().map(|x| x.to_string()).collect::<Vec<_>>().join(","),
                stor.iter().map(|x| esc(x)).collect::<Vec<_>>().join(","),
                esc(&val),
                esc(&clip(format!("{:?}", back), 200))
            ));
        }
        Err(e) => o.line(&format!(
            "{{\"d\":{},\"t\":{},\"k\":\"rt\",\"i\":{},\"tag\":{},\"r\":\"panic\",\"ids\":[],\"stor\":[],\"val\":{},\"got\":{}}}",
            esc(d),
            esc(tname),
            idx,
            esc(tag),
            esc(&val),
            esc(&clip(panic_text(e), 200))
        )),
    }
}

pub fn guarded(o: &mut Out, d: &str, f: impl FnOnce(&mut Out)) {
    let r = catch_unwind(AssertUnwindSafe(|| f(o)));
    if let Err(e) = r {
        o.line(&format!(
            "{{\"d\":{},\"k\":\"crash\",\"panic\":{}}}",
            esc(d),
            esc(&panic_text(e))
        ));
    }
    o.line(&format!("{{\"d\":{},\"k\":\"end\"}}", esc(d)));
    o.flush();
}

pub fn quiet_panics() {
    std::panic::set_hook(Box::new(|_| {}));
}
