"""C41: IDL compiler output matches the IDL declarations.

Bounded-exhaustive enumeration of IDL specifications (one small specification per file), compiled by
dust_dds_gen::compile_idl in the build script of ONE generated crate (catch_unwind per file; a cfg flag per
successfully generated file), built against dust_dds, run, and compared with a reference description computed
here from the enumerated AST (IDL 4.2 / XTypes 1.3 rules; nothing of dust-dds is executed to obtain it).
"""
import os

import pc_common as pcc
from pc_c40 import xtypes_hashid, raw_hash


# ----------------------------------------------------------------------------------------------
# IDL types
# ----------------------------------------------------------------------------------------------
class IType:
    def __init__(self, idl, kind, elem=None, bound=None, tname=None, alt_kinds=(), cls=None):
        self.idl, self.kind, self.elem, self.bound, self.tname = idl, kind, elem, bound, tname
        self.alt_kinds = tuple(alt_kinds)  # other kinds accepted (documented in NOTES.md)
        self.cls = cls or idl.replace(" ", "_")  # shape-class token


PRIMS = [
    IType("boolean", "BOOLEAN"),
    IType("octet", "BYTE", alt_kinds=("UINT8",)),  # octet and uint8 share the Rust type u8; accepted
    IType("char", "CHAR8"),
    IType("wchar", "CHAR16"),
    IType("short", "INT16"),
    IType("unsigned short", "UINT16"),
    IType("long", "INT32"),
    IType("unsigned long", "UINT32"),
    IType("long long", "INT64"),
    IType("unsigned long long", "UINT64"),
    IType("float", "FLOAT32"),
    IType("double", "FLOAT64"),
    IType("int8", "INT8"),
    IType("uint8", "UINT8"),
    IType("int16", "INT16"),
    IType("uint16", "UINT16"),
    IType("int32", "INT32"),
    IType("uint32", "UINT32"),
    IType("int64", "INT64"),
    IType("uint64", "UINT64"),
]
P = {t.idl: t for t in PRIMS}
T_STRING = IType("string", "STRING8", cls="string")
T_BSTRING = IType("string<8>", "STRING8", bound=[8], cls="bounded-string")
T_WSTRING = IType("wstring", "STRING16", cls="wstring")
T_BWSTRING = IType("wstring<8>", "STRING16", bound=[8], cls="bounded-wstring")


def seq(elem, bound=None):
    idl = "sequence<%s%s>" % (elem.idl, ", %d" % bound if bound else "")
    if idl.endswith(">>"):
        idl = idl[:-2] + "> >"
    return IType(idl, "SEQUENCE", elem=elem, bound=[bound] if bound else None,
                 cls=("bounded-sequence" if bound else "sequence") + "<" + elem.cls + ">")


def named(name, kind):
    return IType(name, kind, tname=name, cls={"STRUCTURE": "struct-ref", "ENUM": "enum-ref", "UNION": "union-ref"}.get(kind, "alias"))


# ----------------------------------------------------------------------------------------------
# Definitions
# ----------------------------------------------------------------------------------------------
class Member:
    def __init__(self, ty, names, annots=(), dims=()):
        self.ty, self.names, self.annots, self.dims = ty, list(names), list(annots), list(dims)
        # annots: list of ("key",) ("id", n) ("hashid",) ("hashid", "txt") ("optional",)

    def idl(self):
        a = ""
        for an in self.annots:
            if an[0] == "id":
                a += "@id(%d) " % an[1]
            elif an[0] == "hashid" and len(an) > 1:
                a += "@hashid(\"%s\") " % an[1]
            else:
                a += "@%s " % an[0]
        d = "".join("[%d]" % x if isinstance(x, int) else "[%s]" % x for x in self.dims)
        return "%s%s %s;" % (a, self.ty.idl, ", ".join(n + d for n in self.names))

    def has(self, what):
        return any(an[0] == what for an in self.annots)

    def get(self, what):
        for an in self.annots:
            if an[0] == what:
                return an
        return None

    def tokens(self):
        t = []
        for an in self.annots:
            if an[0] == "id":
                t.append("idbig" if an[1] > 16383 else "id")
            elif an[0] == "hashid":
                t.append("hashid" if len(an) == 1 else "hashid(str)")
            elif an[0] == "optional":
                t.append("opt")
            else:
                t.append(an[0])
        s = "+".join(t) if t else "-"
        if len(self.names) > 1:
            s += "(multi-declarator)"
        return s


class StructDef:
    def __init__(self, name, members, ext=None, nested=False, base=None):
        self.name, self.members, self.ext, self.nested, self.base = name, members, ext, nested, base

    def idl(self):
        a = ("@%s " % self.ext if self.ext else "") + ("@nested " if self.nested else "")
        return "%sstruct %s%s { %s };" % (a, self.name, " : %s" % self.base if self.base else "",
                                          " ".join(m.idl() for m in self.members))


class EnumDef:
    def __init__(self, name, enumerators, bit_bound=None):
        self.name, self.enumerators, self.bit_bound = name, enumerators, bit_bound  # [(ident, value|None)]

    def idl(self):
        a = "@bit_bound(%d) " % self.bit_bound if self.bit_bound else ""
        return "%senum %s { %s };" % (a, self.name, ", ".join(
            ("@value(%d) " % v if v is not None else "") + n for n, v in self.enumerators))

    def values(self):
        out, nxt = [], 0
        for n, v in self.enumerators:
            if v is not None:
                nxt = v
            out.append((n, nxt))
            nxt += 1
        return out


class Case:
    def __init__(self, labels, ty, name, dims=()):
        self.labels, self.ty, self.name, self.dims = list(labels), ty, name, list(dims)  # label: int | str | "default"

    def idl(self):
        l = " ".join("default:" if x == "default" else "case %s:" % x for x in self.labels)
        return "%s %s %s%s;" % (l, self.ty.idl, self.name, "".join("[%d]" % d for d in self.dims))


class UnionDef:
    def __init__(self, name, switch, cases, switch_cls=None):
        self.name, self.switch, self.cases = name, switch, cases
        self.switch_cls = switch_cls or switch.cls

    def idl(self):
        return "union %s switch (%s) { %s };" % (self.name, self.switch.idl, " ".join(c.idl() for c in self.cases))


class TypedefDef:
    def __init__(self, name, ty):
        self.name, self.ty = name, ty

    def idl(self):
        return "typedef %s %s;" % (self.ty.idl, self.name)


class ConstDef:
    def __init__(self, name, ty, value):
        self.name, self.ty, self.value = name, ty, value

    def idl(self):
        return "const %s %s = %s;" % (self.ty.idl, self.name, self.value)


class Spec:
    def __init__(self, shape, defs, modules=(), checks=None, coarse=None):
        self.shape, self.defs, self.modules = shape, defs, list(modules)
        self.checks = checks  # names of the definitions to describe (default: all but consts)
        self.coarse = coarse  # coarser shape class used for does-not-compile signatures

    def dnc_shape(self):
        return "%s%s" % ("module/" if self.modules else "", self.coarse or self.shape)

    def idl(self):
        body = "\n".join(d.idl() for d in self.defs)
        for m in reversed(self.modules):
            body = "module %s {\n%s\n};" % (m, body)
        return body + "\n"

    def full_shape(self):
        return "%s%s" % ("module%d/" % len(self.modules) if self.modules else "", self.shape)


# ----------------------------------------------------------------------------------------------
# Enumeration
# ----------------------------------------------------------------------------------------------
LO = "m57"  # raw md5 prefix fits in 28 bits
HI = "m0"   # raw md5 prefix needs the 0x0FFFFFFF mask
assert raw_hash(LO) <= 0x0FFFFFFF < raw_hash(HI)

EXTS = [None, "final", "appendable", "mutable"]

ANNOT_SETS_1 = [
    [], [("key",)], [("id", 5)], [("id", 20000)], [("hashid",)], [("optional",)],
    [("key",), ("id", 5)], [("id", 5), ("key",)], [("optional",), ("id", 5)], [("id", 5), ("optional",)],
    [("key",), ("hashid",)], [("hashid", "other")],
]
ANNOT_SETS_2 = [[], [("key",)], [("id", 5)], [("optional",)], [("key",), ("id", 7)]]


def member_types():
    inner = StructDef("Inner", [Member(P["long"], ["a"])])
    color = EnumDef("Color", [("RED", None), ("GREEN", None)])
    alias = TypedefDef("MyLong", P["long"])
    aseq = TypedefDef("LongSeq", seq(P["long"]))
    out = [(t, [], ()) for t in PRIMS]
    out += [(T_STRING, [], ()), (T_BSTRING, [], ()), (T_WSTRING, [], ()), (T_BWSTRING, [], ()),
            (seq(P["long"]), [], ()), (seq(P["long"], 4), [], ()), (seq(P["octet"]), [], ()),
            (seq(T_STRING), [], ()), (seq(seq(P["long"])), [], ()), (seq(T_BSTRING, 3), [], ()),
            (P["long"], [], (3,)), (P["long"], [], (2, 3)), (P["octet"], [], (4,)), (T_STRING, [], (2,)),
            (named("Inner", "STRUCTURE"), [inner], ()), (named("Color", "ENUM"), [color], ()),
            (IType("MyLong", "INT32", cls="alias<long>"), [alias], ()),
            (IType("LongSeq", "SEQUENCE", elem=P["long"], cls="alias<sequence<long>>"), [aseq], ()),
            (seq(named("Inner", "STRUCTURE")), [inner], ()),
            (named("Inner", "STRUCTURE"), [inner], (2,))]
    return out


def dims_cls(dims):
    if not dims:
        return ""
    return "array%dd" % len(dims) if len(dims) > 1 else "array"


def enum_specs(tier):
    specs = []
    quick = tier == "quick"

    # S1: one `long` member, every extensibility x every annotation set
    for ext in EXTS:
        for an in ANNOT_SETS_1:
            for nm in ([HI, LO] if any(a[0] == "hashid" for a in an) else [HI]):
                m = Member(P["long"], [nm], an)
                specs.append(Spec("struct/%s/%s" % (ext or "none", m.tokens() + ("hi" if nm == HI and m.has("hashid") and len(m.get("hashid")) == 1 else "")),
                                  [StructDef("S", [m], ext=ext)]))

    # S1m (thorough): the same inside a module (type name attribute + member attributes)
    if not quick:
        for ext in EXTS:
            for an in ANNOT_SETS_1:
                m = Member(P["long"], [HI], an)
                specs.append(Spec("struct/%s/%s" % (ext or "none", m.tokens() + ("hi" if m.has("hashid") and len(m.get("hashid")) == 1 else "")),
                                  [StructDef("S", [m], ext=ext)], modules=["a"]))

    # S2: one member, no annotation, every member type x {none, mutable}
    for ext in ((None, "mutable") if quick else EXTS):
        for ty, pre, dims in member_types():
            m = Member(ty, ["x"], [], dims)
            specs.append(Spec("struct/%s/type:%s%s" % (ext or "none", ty.cls, ("/" + dims_cls(dims)) if dims else ""),
                              pre + [StructDef("S", [m], ext=ext)], checks=["S"],
                              coarse="struct/type:%s%s" % (ty.cls, ("/" + dims_cls(dims)) if dims else "")))

    # S3: module nesting x extensibility (type name vs extensibility attribute)
    for mods in (["a"], ["a", "b"]):
        for ext in EXTS:
            specs.append(Spec("struct/%s/key" % (ext or "none"), [StructDef("S", [Member(P["long"], ["x"], [("key",)])], ext=ext)], modules=mods))
    # cross-module reference
    specs.append(Spec("struct/none/type:scoped-ref", [StructDef("Inner", [Member(P["long"], ["a"])]),
                                                      StructDef("S", [Member(named("Inner", "STRUCTURE"), ["x"])])], modules=["a"]))
    specs.append(Spec("struct/none/type:abs-scoped-ref", [StructDef("Inner", [Member(P["long"], ["a"])]),
                                                          StructDef("S", [Member(IType("::a::Inner", "STRUCTURE", tname="a::Inner", cls="abs-ref"), ["x"])])],
                      modules=["a"]))

    # S4: two members, annotation-set pairs x {none, mutable} (thorough: all extensibilities)
    sets2 = ANNOT_SETS_2 if quick else ANNOT_SETS_2 + [[("hashid",)], [("id", 20000)], [("optional",), ("id", 9)], [("id", 9), ("key",)]]
    for ext in ((None, "mutable") if quick else EXTS):
        for x in sets2:
            for y in sets2:
                ix, iy = [a[1] for a in x if a[0] == "id"], [a[1] for a in y if a[0] == "id"]
                if ix and ix == iy:
                    continue
                m1, m2 = Member(P["long"], [HI], x), Member(T_STRING, [LO], y)
                specs.append(Spec("struct/%s/%s|%s" % (ext or "none", m1.tokens(), m2.tokens()), [StructDef("S", [m1, m2], ext=ext)]))
        # one annotated member declaration with two declarators
        specs.append(Spec("struct/%s/key(multi-declarator)" % (ext or "none"),
                          [StructDef("S", [Member(P["long"], ["a", "b"], [("key",)])], ext=ext)]))
        specs.append(Spec("struct/%s/opt(multi-declarator)" % (ext or "none"),
                          [StructDef("S", [Member(P["long"], ["a", "b"], [("optional",)])], ext=ext)]))
        specs.append(Spec("struct/%s/-(multi-declarator)" % (ext or "none"),
                          [StructDef("S", [Member(P["long"], ["a", "b"], []), Member(P["octet"], ["c", "d"], [], (2,))], ext=ext)]))
        # three members: automatic ids continue after an explicit one
        specs.append(Spec("struct/%s/-|id|-" % (ext or "none"),
                          [StructDef("S", [Member(P["long"], ["a"]), Member(P["long"], ["b"], [("id", 10)]), Member(P["long"], ["c"])], ext=ext)]))

    # S5: @optional x member types
    for ty, pre, dims in ((T_STRING, [], ()), (seq(P["long"]), [], ()), (P["long"], [], (3,)),
                          (named("Inner", "STRUCTURE"), [StructDef("Inner", [Member(P["long"], ["a"])])], ())):
        specs.append(Spec("struct/none/opt/type:%s%s" % (ty.cls, ("/" + dims_cls(dims)) if dims else ""),
                          pre + [StructDef("S", [Member(ty, ["x"], [("optional",)], dims)])], checks=["S"]))

    # S6: @nested, inheritance, constants as bounds
    for ext in (None, "mutable"):
        specs.append(Spec("struct/%s/nested" % (ext or "none"), [StructDef("S", [Member(P["long"], ["x"])], ext=ext, nested=True)]))
    specs.append(Spec("struct/none/inheritance", [StructDef("Base", [Member(P["long"], ["a"], [("key",)])]),
                                                  StructDef("S", [Member(T_STRING, ["b"])], base="Base")], checks=["S"]))
    specs.append(Spec("struct/mutable/inheritance", [StructDef("Base", [Member(P["long"], ["a"], [("key",)])], ext="mutable"),
                                                     StructDef("S", [Member(T_STRING, ["b"])], ext="mutable", base="Base")], checks=["S"]))
    specs.append(Spec("struct/none/type:long/array-const-bound",
                      [ConstDef("N", P["long"], "3"), StructDef("S", [Member(P["long"], ["x"], [], ("N",))])], checks=["S"]))
    specs.append(Spec("struct/none/type:long/array-const-bound-ulong",
                      [ConstDef("N", P["unsigned long"], "3"), StructDef("S", [Member(P["long"], ["x"], [], ("N",))])], checks=["S"]))
    specs.append(Spec("struct/none/type:sequence-const-bound",
                      [ConstDef("N", P["long"], "3"), StructDef("S", [Member(IType("sequence<long, N>", "SEQUENCE", elem=P["long"], bound=[3], cls="bounded-sequence<long>"), ["x"])])],
                      checks=["S"]))
    specs.append(Spec("struct/none/empty", [StructDef("S", [])]))

    # E: enums
    for mods in ([], ["a"]):
        for bb in (None, 8, 16, 32):
            for en in ([("A", None)], [("A", None), ("B", None), ("C", None)], [("A", 1), ("B", 5), ("C", 100)],
                       [("A", 3), ("B", None)], [("A", None), ("B", 7), ("C", None)]):
                d = "explicit" if all(v is not None for _, v in en) else ("implicit" if all(v is None for _, v in en) else "mixed")
                specs.append(Spec("enum/bb%s/%s%d" % (bb or "none", d, len(en)), [EnumDef("E", en, bb)], modules=mods,
                                  coarse="enum/bit_bound" if bb else "enum"))

    # U: unions
    e = EnumDef("Color", [("RED", None), ("GREEN", None)])
    switches = [(P["long"], [], [1, 2, 3]), (P["octet"], [], [1, 2, 3]), (P["short"], [], [1, 2, 3]),
                (P["unsigned long"], [], [1, 2, 3]), (P["uint8"], [], [1, 2, 3]), (P["int32"], [], [1, 2, 3]),
                (P["long long"], [], [1, 2, 3]),
                (P["char"], [], ["'a'", "'b'", "'c'"]), (P["boolean"], [], ["TRUE", "FALSE", None]),
                (named("Color", "ENUM"), [e], ["RED", "GREEN", None])]
    for sw, pre, labs in switches:
        bodies = [
            ("1case", [Case([labs[0]], P["long"], "a")]),
            ("2cases", [Case([labs[0]], P["long"], "a"), Case([labs[1]], T_STRING, "b")]),
            ("case+default", [Case([labs[0]], P["long"], "a"), Case(["default"], P["octet"], "b")]),
        ]
        if labs[2] is not None:
            bodies.append(("multi-label", [Case([labs[0], labs[1]], P["long"], "a"), Case([labs[2]], P["double"], "b")]))
            bodies.append(("label+default", [Case([labs[0]], P["long"], "a"), Case([labs[1], "default"], P["double"], "b")]))
        for bname, cases in bodies:
            specs.append(Spec("union/switch:%s/%s" % (sw.cls, bname), pre + [UnionDef("U", sw, cases)], checks=["U"],
                              coarse="union/switch:%s" % sw.cls))
    specs.append(Spec("union/switch:long/array-member", [UnionDef("U", P["long"], [Case([1], P["long"], "a", (3,)), Case([2], seq(P["long"]), "b")])]))
    specs.append(Spec("union/switch:long/struct-member",
                      [StructDef("Inner", [Member(P["long"], ["a"])]), UnionDef("U", P["long"], [Case([1], named("Inner", "STRUCTURE"), "a")])], checks=["U"]))
    for mods in (["a"], ["a", "b"]):
        specs.append(Spec("union/switch:long/2cases", [UnionDef("U", P["long"], [Case([1], P["long"], "a"), Case([2], T_STRING, "b")])], modules=mods))
    specs.append(Spec("union/switch:long/member-of-struct",
                      [UnionDef("U", P["long"], [Case([1], P["long"], "a")]), StructDef("S", [Member(named("U", "UNION"), ["u"])])]))

    # T: typedefs
    tds = [P["long"], P["octet"], P["double"], T_STRING, T_BSTRING, seq(P["long"]), seq(P["long"], 4), seq(T_STRING)]
    for ty in tds:
        specs.append(Spec("typedef/%s" % ty.cls, [TypedefDef("A", ty)]))
    specs.append(Spec("typedef/chain", [TypedefDef("A", P["long"]), TypedefDef("B", IType("A", "INT32", cls="alias"))]))
    specs.append(Spec("typedef/struct-ref", [StructDef("Inner", [Member(P["long"], ["a"])]), TypedefDef("A", named("Inner", "STRUCTURE"))], checks=["A"]))
    specs.append(Spec("typedef/long", [TypedefDef("A", P["long"])], modules=["a"]))
    specs.append(Spec("typedef/two-declarators", [TypedefDef("A, B", P["long"])], checks=[]))
    return specs


# Corners that the generator explicitly does not implement (todo!()/unimplemented!() or absent from the grammar).
# They are excluded from the grammar above; they are still pushed through the generator as *probes* so that the
# result shows whether the exclusion is (still) justified.  Probes never produce findings.
PROBES = [
    ("map type", "struct S { map<long, long> x; };"),
    ("fixed point type", "struct S { fixed<5,2> x; };"),
    ("long double", "struct S { long double x; };"),
    ("any", "struct S { any x; };"),
    ("bitset", "bitset B { bitfield<3> a; };"),
    ("bitmask", "bitmask B { F1, F2 };"),
    ("native", "native N;"),
    ("exception", "exception E { long a; };"),
    ("typedef with array declarator", "typedef long A[3];"),
    ("annotation on union", "@mutable union U switch (long) { case 1: long a; };"),
    ("annotation on union case member", "union U switch (long) { case 1: @id(4) long a; };"),
    ("annotation declaration", "@annotation foo { long v; };"),
    ("interface attribute", "interface I { attribute long a; };"),
    ("valuetype", "valuetype V { public long a; };"),
    ("forward declared struct only", "struct S;"),
    ("struct member of anonymous struct type", "struct S { struct In { long a; } x; };"),
    ("const expression with operator", "const long N = 1 + 2;"),
]


# ----------------------------------------------------------------------------------------------
# Reference
# ----------------------------------------------------------------------------------------------
def qual(spec, name):
    return "::".join(spec.modules + [name])


def ref_ids(members_flat, prev=None):
    ids = []
    for m, nm in members_flat:
        an = m.get("id")
        hs = m.get("hashid")
        if an:
            v = an[1]
        elif hs:
            v = xtypes_hashid(hs[1] if len(hs) > 1 else nm)
        else:
            v = 0 if prev is None else prev + 1
        ids.append(v)
        prev = v
    return ids


def ref_type(ty, dims, spec):
    """Expected description of a member type (arrays wrap the element description)."""
    def base(t):
        r = dict(kind=t.kind, alt=list(t.alt_kinds), bound=t.bound, cls=t.cls)
        if t.elem is not None:
            r["elem"] = base(t.elem)
        if t.tname:
            r["tname"] = t.tname if "::" in t.tname else qual(spec, t.tname)
        return r
    if dims:
        return dict(kind="ARRAY", alt=[], bound=[3 if d == "N" else d for d in dims], elem=base(ty), cls=dims_cls(dims))
    return base(ty)


EXT_KIND = {"final": "Final", "appendable": "Appendable", "mutable": "Mutable"}


def ref_struct(d, spec):
    flat = [(m, nm) for m in d.members for nm in m.names]
    prev = None
    if d.base:
        # XTypes 7.3.1.2.1.1: automatic ids of a derived struct continue after the last member of the base type
        bdef = [x for x in spec.defs if isinstance(x, StructDef) and x.name == d.base][0]
        prev = (ref_ids([(m, nm) for m in bdef.members for nm in m.names]) or [None])[-1]
    ids = ref_ids(flat, prev)
    return dict(kind="STRUCTURE", name=qual(spec, d.name), ext=EXT_KIND.get(d.ext), nested=d.nested,
                base=qual(spec, d.base) if d.base else None,
                members=[dict(name=nm, id=ids[i], key=m.has("key"), opt=m.has("optional"), type=ref_type(m.ty, m.dims, spec), m=m)
                         for i, (m, nm) in enumerate(flat)])


# ----------------------------------------------------------------------------------------------
# Crate generation
# ----------------------------------------------------------------------------------------------
BUILD_RS = r'''
use std::io::Write;
use std::path::Path;

fn main() {
    let out_dir = std::env::var("OUT_DIR").unwrap();
    let manifest = std::env::var("CARGO_MANIFEST_DIR").unwrap();
    println!("cargo:rerun-if-changed=idl");
    println!("cargo:rerun-if-changed=build.rs");
    let list = std::fs::read_to_string(Path::new(&manifest).join("idl").join("LIST")).unwrap();
    std::panic::set_hook(Box::new(|info| {
        let _ = std::fs::write(
            Path::new(&std::env::var("OUT_DIR").unwrap()).join("last_panic.txt"),
            format!("{}", info),
        );
    }));
    for name in list.lines().filter(|l| !l.trim().is_empty()) {
        println!("cargo:rustc-check-cfg=cfg(ok_{})", name);
        let idl = Path::new(&manifest).join("idl").join(format!("{}.idl", name));
        let rs = Path::new(&out_dir).join(format!("{}.rs", name));
        let err = Path::new(&out_dir).join(format!("{}.err", name));
        let _ = std::fs::remove_file(Path::new(&out_dir).join("last_panic.txt"));
        let r = std::panic::catch_unwind(|| dust_dds_gen::compile_idl(&idl));
        match r {
            Ok(Ok(code)) => {
                std::fs::File::create(&rs).unwrap().write_all(code.as_bytes()).unwrap();
                std::fs::write(&err, "").unwrap();
                println!("cargo:rustc-cfg=ok_{}", name);
            }
            Ok(Err(e)) => {
                std::fs::write(&rs, "").unwrap();
                std::fs::write(&err, format!("compile_idl returned Err: {}", e)).unwrap();
            }
            Err(_) => {
                let msg = std::fs::read_to_string(Path::new(&out_dir).join("last_panic.txt")).unwrap_or_default();
                std::fs::write(&rs, "").unwrap();
                std::fs::write(&err, format!("compile_idl panicked: {}", msg)).unwrap();
            }
        }
    }
}
'''

HEADER = "#![allow(dead_code, unused_imports, unused_variables, unused_mut, non_snake_case, non_camel_case_types, non_upper_case_globals)]\n"


def rust_path(spec, name):
    return "g::" + "::".join(spec.modules + [name])


def gen_module(idx, spec, probe=False, idl_text=""):
    mod = pcc.mod_name(idx)
    s = HEADER
    s += "pub mod g {\n    include!(concat!(env!(\"OUT_DIR\"), \"/%s.rs\"));\n}\n" % mod
    s += "pub const GENERATED: &str = include_str!(concat!(env!(\"OUT_DIR\"), \"/%s.rs\"));\n\n" % mod
    s += "pub fn check(o: &mut crate::rt::Out) {\n"
    s += "    o.line(\"{\\\"d\\\":\\\"%s\\\",\\\"k\\\":\\\"hash\\\",\\\"h\\\":\\\"%s\\\"}\");\n" % (mod, pcc.text_hash(idl_text))
    s += "    o.line(&format!(\"{{\\\"d\\\":\\\"%s\\\",\\\"k\\\":\\\"code\\\",\\\"v\\\":{}}}\", crate::rt::esc(GENERATED)));\n" % mod
    if not probe:
        names = spec.checks if spec.checks is not None else [d.name for d in spec.defs if not isinstance(d, ConstDef)]
        for d in spec.defs:
            if isinstance(d, ConstDef) or d.name not in names:
                continue
            p = rust_path(spec, d.name)
            s += "    crate::rt::describe_t::<%s>(o, \"%s\", \"%s\");\n" % (p, mod, d.name)
            if isinstance(d, EnumDef):
                for n, _ in d.enumerators:
                    s += "    o.line(&format!(\"{{\\\"d\\\":\\\"%s\\\",\\\"k\\\":\\\"enumval\\\",\\\"t\\\":\\\"%s\\\",\\\"n\\\":\\\"%s\\\",\\\"v\\\":{}}}\", %s::%s as i64));\n" \
                         % (mod, d.name, n, p, n)
    s += "}\n"
    return s


def pkg_name(ident):
    return "progcheck_%s%s" % (ident, pcc.repo_tag())


BIN_SIZE = 400  # specifications per binary; cargo compiles the binaries of the crate in parallel


def write_crate(ident, specs, probes, excluded):
    crate = pcc.gen_dir(ident)
    os.makedirs(os.path.join(crate, "src", "d"), exist_ok=True)
    n = len(specs)
    groups = pcc.chunks(range(n + len(probes)), BIN_SIZE)
    cargo = """[package]
name = "%s"
version = "0.0.0"
edition = "2024"
build = "build.rs"
autobins = false

[workspace]

%s[dependencies]
dust_dds = { path = "%s/dds" }

[build-dependencies]
dust_dds_gen = { path = "%s/dds_gen" }

[profile.dev]
debug = 0
opt-level = 0
""" % (pkg_name(ident), pcc.bin_sections(pkg_name(ident), len(groups)), pcc.repo(), pcc.repo())
    pcc.write_if_changed(os.path.join(crate, "Cargo.toml"), cargo)
    pcc.copy_lock(crate)
    pcc.write_if_changed(os.path.join(crate, "build.rs"), BUILD_RS)
    top = {"rt.rs": pcc.read_rt()}
    idl_files, files, names = {}, {}, []
    for k, group in enumerate(groups):
        mods, calls = [], []
        for i in group:
            m = pcc.mod_name(i)
            idl_files[m + ".idl"] = specs[i].idl() if i < n else probes[i - n][1] + "\n"
            names.append(m)
            if i in excluded:
                # generated code does not compile: keep the generator run, drop the module
                calls.append("    #[cfg(ok_%s)]\n    o.line(\"{\\\"d\\\":\\\"%s\\\",\\\"k\\\":\\\"excluded\\\"}\");" % (m, m))
            else:
                files[m + ".rs"] = gen_module(i, specs[i] if i < n else None, probe=i >= n, idl_text=idl_files[m + ".idl"])
                mods.append("    #[cfg(ok_%s)]\n    pub mod %s;" % (m, m))
                calls.append("    #[cfg(ok_%s)]\n    rt::guarded(&mut o, \"%s\", d::%s::check);" % (m, m, m))
            calls.append("    #[cfg(not(ok_%s))]\n    o.line(&format!(\"{{\\\"d\\\":\\\"%s\\\",\\\"k\\\":\\\"genfail\\\",\\\"msg\\\":{}}}\", "
                         "rt::esc(include_str!(concat!(env!(\"OUT_DIR\"), \"/%s.err\")))));" % (m, m, m))
        top["b%02d.rs" % k] = "#![allow(dead_code, unexpected_cfgs)]\nmod rt;\nmod d {\n%s\n}\n\nfn main() {\n" \
            "    let path = std::env::args().nth(1).expect(\"out file\");\n    rt::quiet_panics();\n" \
            "    let mut o = rt::Out::new(&path);\n%s\n    o.line(\"{\\\"k\\\":\\\"done\\\"}\");\n    o.flush();\n}\n" \
            % ("\n".join(mods), "\n".join(calls))
    idl_files["LIST"] = "\n".join(names) + "\n"
    pcc.sync_dir(os.path.join(crate, "idl"), idl_files)
    pcc.sync_dir(os.path.join(crate, "src", "d"), files)
    for name in os.listdir(os.path.join(crate, "src")):
        p = os.path.join(crate, "src", name)
        if os.path.isfile(p) and name not in top:
            os.remove(p)
    for name, content in top.items():
        pcc.write_if_changed(os.path.join(crate, "src", name), content)
    return crate


# ----------------------------------------------------------------------------------------------
# Comparison
# ----------------------------------------------------------------------------------------------
def cmp_type(exp, act, path="type"):
    """-> list of (clause, shape-suffix, message)"""
    out = []
    kinds = [exp["kind"]] + exp.get("alt", [])
    if act.get("kind") not in kinds:
        out.append(("member-kind", exp["cls"], "%s kind: expected %s, type reports %r" % (path, "/".join(kinds), act.get("kind"))))
        return out
    if exp.get("bound"):
        if act.get("bound") != exp["bound"]:
            out.append(("bound", exp["cls"], "%s bound: expected %r, type reports %r" % (path, exp["bound"], act.get("bound"))))
    elif exp["kind"] in ("STRING8", "STRING16", "SEQUENCE"):
        # unbounded: XTypes uses 0; dust-dds uses u32::MAX; both accepted
        if act.get("bound") not in ([], [0], [4294967295]):
            out.append(("bound", exp["cls"], "%s is unbounded, type reports bound %r" % (path, act.get("bound"))))
    if exp.get("tname") and act.get("name") != exp["tname"]:
        out.append(("member-type-name", exp["cls"], "%s name: expected %r, type reports %r" % (path, exp["tname"], act.get("name"))))
    if exp.get("elem") is not None:
        ae = act.get("elem")
        if ae is None:
            out.append(("member-kind", exp["cls"], "%s has no element type" % path))
        else:
            out += cmp_type(exp["elem"], ae, path + ".element")
    return out


def member_shape(d, m, clause):
    """`mutable` / `non-mutable` (none, final, appendable behave alike for members) + the member's annotations in
    source order (the order matters for the two-annotations defect)."""
    return "%s/%s" % ("mutable" if d.ext == "mutable" else "non-mutable", m.tokens())


def check_struct(d, spec, text, desc, F, viol):
    ref = ref_struct(d, spec)
    a = desc["v"]
    mod = "module/" if spec.modules else ""
    cshape = "%sstruct/%s%s%s" % (mod, d.ext or "none", "+nested" if d.nested else "", "+base" if d.base else "")
    if a.get("kind") != "STRUCTURE":
        F.add("type-kind", cshape, text, "expected STRUCTURE, type reports %r" % a.get("kind"))
        viol.add("type-kind")
        return
    if a.get("name") != ref["name"]:
        F.add("type-name", cshape, text, "expected %r, type reports %r" % (ref["name"], a.get("name")))
        viol.add("type-name")
    if ref["ext"] is not None and a.get("ext") != ref["ext"]:
        F.add("extensibility", cshape, text, "expected %r, type reports %r" % (ref["ext"], a.get("ext")))
        viol.add("extensibility")
    if a.get("nested") != ref["nested"]:
        F.add("nested-flag", cshape, text, "expected is_nested=%r, type reports %r" % (ref["nested"], a.get("nested")))
        viol.add("nested-flag")
    am = a.get("members", [])
    if ref["base"]:
        if a.get("base") != ref["base"]:
            F.add("base-type", cshape, text, "expected base %r, type reports %r" % (ref["base"], a.get("base")))
            viol.add("base-type")
        # documented dust-dds mapping: the base is additionally embedded as a leading member `parent`
        if am and am[0].get("name") == "parent" and len(am) == len(ref["members"]) + 1:
            am = am[1:]
    if len(am) != len(ref["members"]):
        F.add("member-count", cshape, text, "expected members %r, type reports %r"
              % ([m["name"] for m in ref["members"]], [m.get("name") for m in am]))
        viol.add("member-count")
        return
    for i, (em, m) in enumerate(zip(ref["members"], am)):
        ms = member_shape(d, em["m"], "x")
        for clause, key in (("member-name", "name"), ("member-id", "id"), ("key-flag", "key"), ("optional-flag", "opt")):
            if m.get(key) != em[key]:
                extra = ""
                if clause == "member-id" and i > 0 and not (em["m"].get("id") or em["m"].get("hashid")):
                    prev = [x["m"].tokens() for x in ref["members"][:i] if x["m"].get("id") or x["m"].get("hashid")]
                    if prev:
                        extra = "/after-" + prev[-1]
                sh = ms
                if clause == "member-id" and not (em["m"].get("id") or em["m"].get("hashid")):
                    sh = ms.split("/")[0] + "/auto" + ("(multi-declarator)" if len(em["m"].names) > 1 else "")
                F.add(clause, sh + extra, text, "member #%d `%s` %s: expected %r, type reports %r" % (i, em["name"], key, em[key], m.get(key)))
                viol.add(clause)
        for clause, cls, msg in cmp_type(em["type"], m.get("type", {}), "member `%s` type" % em["name"]):
            F.add(clause, "struct-member/" + cls, text, msg)
            viol.add(clause)


def check_enum(d, spec, text, desc, enumvals, F, viol):
    a = desc["v"]
    mod = "module/" if spec.modules else ""
    shape = "%senum/bb%s" % (mod, d.bit_bound or "none")
    if a.get("kind") != "ENUM":
        F.add("type-kind", shape, text, "expected ENUM, type reports %r" % a.get("kind"))
        viol.add("type-kind")
        return
    if a.get("name") != qual(spec, d.name):
        F.add("type-name", shape, text, "expected %r, type reports %r" % (qual(spec, d.name), a.get("name")))
        viol.add("type-name")
    want = {None: "INT32", 8: "INT8", 16: "INT16", 32: "INT32"}[d.bit_bound]
    if a.get("disc") != want:
        F.add("enum-bit-bound", shape, text, "expected holder %s, type reports %r" % (want, a.get("disc")))
        viol.add("enum-bit-bound")
    exp = d.values()
    got = [(e["n"], e["v"]) for e in enumvals]
    if got != exp:
        F.add("enumerators", shape, text, "generated Rust enum has %r, expected %r" % (got, exp))
        viol.add("enumerators")
    lits = [(m.get("name"), m.get("id")) for m in a.get("members", [])]
    if [n for n, _ in lits] != [n for n, _ in exp]:
        F.add("enum-literals", "enum", text, "enumerators expected %r, type description lists %r" % (exp, lits))
        viol.add("enum-literals")


def label_value(lab, d):
    if isinstance(lab, int):
        return lab
    if lab == "TRUE":
        return 1
    if lab == "FALSE":
        return 0
    if lab.startswith("'"):
        return ord(lab[1])
    return {"RED": 0, "GREEN": 1}[lab]


def check_union(d, spec, text, desc, F, viol):
    a = desc["v"]
    mod = "module/" if spec.modules else ""
    shape = "%sunion/switch:%s" % (mod, d.switch_cls)
    if a.get("kind") != "UNION":
        F.add("type-kind", shape, text, "expected UNION, type reports %r" % a.get("kind"))
        viol.add("type-kind")
        return
    if a.get("name") != qual(spec, d.name):
        F.add("type-name", shape, text, "expected %r, type reports %r" % (qual(spec, d.name), a.get("name")))
        viol.add("type-name")
    kinds = [d.switch.kind] + list(d.switch.alt_kinds)
    if a.get("disc") not in kinds:
        F.add("union-discriminator", shape, text, "expected discriminator %s, type reports %r" % ("/".join(kinds), a.get("disc")))
        viol.add("union-discriminator")
    am = a.get("members", [])
    if len(am) != len(d.cases) + 1:
        F.add("member-count", shape, text, "expected discriminator + %d case members, type reports %d members" % (len(d.cases), len(am)))
        viol.add("member-count")
        return
    for i, (c, m) in enumerate(zip(d.cases, am[1:])):
        labs = [label_value(x, d) for x in c.labels if x != "default"]
        isdef = "default" in c.labels
        cs = "%s/%s" % (shape, ("default" if isdef and not labs else ("labels%d" % len(labs) + ("+default" if isdef else ""))))
        if m.get("name") != c.name:
            F.add("member-name", "union", text, "case member #%d: IDL name %r, type reports %r" % (i, c.name, m.get("name")))
            viol.add("member-name")
        act = list(m.get("labels", []))
        if labs and act != labs or (not labs and not isdef):
            F.add("union-label", cs, text, "case member `%s` labels expected %r, type reports %r" % (c.name, labs, act))
            viol.add("union-label")
        if m.get("deflabel") != isdef:
            F.add("union-default", cs, text, "case member `%s` is_default_label expected %r, type reports %r" % (c.name, isdef, m.get("deflabel")))
            viol.add("union-default")
        for clause, cls, msg in cmp_type(ref_type(c.ty, c.dims, spec), m.get("type", {}), "case member `%s` type" % c.name):
            F.add(clause, "union-member/" + cls, text, msg)
            viol.add(clause)


def check_typedef(d, spec, text, desc, F, viol):
    a = desc["v"]
    for clause, cls, msg in cmp_type(ref_type(d.ty, (), spec), a, "alias `%s`" % d.name):
        F.add(clause, "typedef/" + cls, text, msg)
        viol.add(clause)


IDENT = ["c41_quick"]


def generated_code(i):
    """Output of the IDL compiler for declaration i (from the build script's OUT_DIR), for finding details."""
    import glob
    c = glob.glob(os.path.join(pcc.TARGET_DIR, "debug", "build", pkg_name(IDENT[0]) + "-*", "out", pcc.mod_name(i) + ".rs"))
    if not c:
        return "<not found>"
    c.sort(key=os.path.getmtime)
    try:
        with open(c[-1], encoding="utf-8", errors="replace") as f:
            return f.read().replace("\n", " ")[:500]
    except OSError:
        return "<unreadable>"


def run(tier, seed, result):
    specs = enum_specs(tier)
    probes = PROBES
    n = len(specs)
    texts = [s.idl().strip() for s in specs]
    ident = "c41_%s" % tier
    IDENT[0] = ident
    b = pcc.build_with_bisect(lambda ex: write_crate(ident, specs, probes, ex), n + len(probes), pkg_name(ident), 900)
    F = pcc.Findings("C41")
    distinct = set()
    evaluations = 0
    ntypes = sum(len(s.checks if s.checks is not None else [d for d in s.defs if not isinstance(d, ConstDef)]) for s in specs)
    result["extra"].update({
        "programs": n, "types": ntypes, "build_s": round(b["build_s"], 1), "build_rounds": b["rounds"], "repo": pcc.repo(),
        "grammar": "C41 %s: %d IDL specifications (%d checked types): structs (ext none/final/appendable/mutable; member annotation sets "
                   "over {@key,@id,@hashid,@optional} incl. two annotations on one member; %d member types incl. bounded strings/"
                   "sequences, arrays, nested struct/enum/alias; module nesting 0-2; multi-declarator members; @nested; inheritance; "
                   "const bounds), enums (bit_bound, @value), unions (10 switch types, case/default/multi-label), typedefs; "
                   "+%d probes of excluded corners" % (tier, n, ntypes, len(member_types()), len(probes))})
    if not b["ok"]:
        result["machinery_error"] = b["machinery_error"]
        for i, msgs in sorted(b["excluded"].items()):
            if i < n:
                F.add("does-not-compile", specs[i].full_shape(), texts[i], "rustc: " + " | ".join(msgs[:3]))
        result["findings"] = F.to_list()
        return
    out_file = os.path.join(pcc.gen_dir(ident), "out.jsonl")
    r = pcc.run_program(b["exe"], out_file, 300)
    result["extra"]["run_s"] = round(r["seconds"], 2)
    by, done = {}, False
    for rec in r["records"]:
        if rec.get("k") == "done":
            done = True
            continue
        dd = rec.get("d")
        if dd is None:
            continue
        e = by.setdefault(dd, {"desc": {}, "enumval": {}})
        if rec["k"] == "desc":
            e["desc"][rec["t"]] = rec
        elif rec["k"] == "enumval":
            e["enumval"].setdefault(rec["t"], []).append(rec)
        elif rec["k"] == "hash":
            e["hash"] = rec.get("h")
        elif rec["k"] in ("genfail", "code", "crash", "excluded"):
            e[rec["k"]] = rec.get("msg") or rec.get("v") or rec.get("panic") or True
    if not done:
        result["machinery_error"] = "generated program did not finish (rc=%s): %s" % (r["rc"], r["stderr_tail"][-500:])
    samples = []
    for i, spec in enumerate(specs):
        recs = by.get(pcc.mod_name(i), {"desc": {}, "enumval": {}})
        viol = set()
        evaluations += 1
        shape = spec.full_shape()
        if "genfail" in recs:
            F.add("does-not-compile", spec.dnc_shape(), texts[i], "IDL compiler failed: %s" % str(recs["genfail"])[:400])
            distinct.add("%s/generator-fails" % shape)
            continue
        if i in b["excluded"]:
            F.add("does-not-compile", spec.dnc_shape(), texts[i], "generated Rust does not compile: rustc: %s\ngenerated: %s"
                  % (" | ".join(b["excluded"][i][:3]), generated_code(i)))
            distinct.add("%s/does-not-compile" % shape)
            continue
        if recs.get("hash") != pcc.text_hash(spec.idl()):
            result["machinery_error"] = result["machinery_error"] or (
                "records of %s do not belong to the specification that was generated (stale binary?)" % pcc.mod_name(i))
            continue
        names = spec.checks if spec.checks is not None else [d.name for d in spec.defs if not isinstance(d, ConstDef)]
        for d in spec.defs:
            if isinstance(d, ConstDef) or d.name not in names:
                continue
            desc = recs["desc"].get(d.name)
            if desc is None or "panic" in desc:
                F.add("description-panic", shape, texts[i], "no description for %s: %r (crash %r)" % (d.name, desc, recs.get("crash")))
                viol.add("description-panic")
                continue
            if isinstance(d, StructDef):
                check_struct(d, spec, texts[i], desc, F, viol)
            elif isinstance(d, EnumDef):
                check_enum(d, spec, texts[i], desc, recs["enumval"].get(d.name, []), F, viol)
            elif isinstance(d, UnionDef):
                check_union(d, spec, texts[i], desc, F, viol)
            elif isinstance(d, TypedefDef):
                check_typedef(d, spec, texts[i], desc, F, viol)
        distinct.add("%s/%s" % (shape, "ok" if not viol else "+".join(sorted(viol))))
        if len(samples) < 6 and i % max(1, n // 6) == 0:
            samples.append("IDL: %s  ==> generated: %s  ==> compared: %s" % (
                texts[i].replace("\n", " "), str(recs.get("code", "")).replace("\n", " ")[:300],
                {k: (v["v"].get("name"), v["v"].get("ext"), [(m.get("name"), m.get("id"), m.get("key"), m.get("opt"), (m.get("type") or {}).get("kind"))
                                                            for m in v["v"].get("members", [])]) for k, v in recs["desc"].items()}))
    probe_out = {}
    for j, (pname, ptext) in enumerate(probes):
        recs = by.get(pcc.mod_name(n + j), {})
        if "genfail" in recs:
            probe_out[pname] = "unsupported (generator: %s)" % str(recs["genfail"]).strip().splitlines()[0][:160]
        elif (n + j) in b["excluded"]:
            probe_out[pname] = "generator accepts it, generated Rust does not compile: %s" % b["excluded"][n + j][0][:160]
        else:
            probe_out[pname] = "generator accepts it and output compiles: %s" % str(recs.get("code", "")).replace("\n", " ")[:160]
    result["extra"]["excluded_probes"] = probe_out
    result["evaluations"] = evaluations
    result["distinct"] = sorted(distinct)
    result["samples"] = samples
    result["findings"] = F.to_list()
    result["notes"].append("--seed is accepted but unused: the enumeration is exhaustive and deterministic")
    result["notes"].append("IDL types without extensibility annotation: reported extensibility is not compared (dust-dds maps them to Final)")
