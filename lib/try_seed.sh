#!/bin/bash
# try_seed.sh <seed dir name under /verif/seeded> <check id>... : applies the seeded change to /repo, runs the quick checks, reverts.
S=/verif/seeded/$1; shift
[ -f $S/patch.diff ] || { echo "no $S/patch.diff"; exit 2; }
if ! git -C /repo diff --quiet; then echo "/repo dirty"; exit 2; fi
git -C /repo apply $S/patch.diff || exit 2
for c in "$@"; do
  /verif/check $c ${TIER:+--tier $TIER} 2>&1 | grep -E "^VIOLATION|signature:|^\[$c\]|KNOWN|machinery" | cut -c1-200 | grep -v "^KNOWN" | head -12
done
git -C /repo checkout -- .
git -C /verif checkout -- evidence 2>/dev/null
