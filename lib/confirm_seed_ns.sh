#!/bin/bash
# confirm_seed_ns.sh <worktree> <demo test name>: demo with the change applied and reverted, inside a private netns
WT=$1; DEMO=$2
cd $WT || exit 2
export CARGO_TARGET_DIR=$WT/target CARGO_NET_OFFLINE=true
run() { unshare -rn sh -c "ip link set lo up; cargo test -p dust_dds --offline -j 5 --test $DEMO 2>&1" | grep -E "^test result|^test .*(FAILED|ok)$" | head -8; }
echo "== $DEMO with change"; run
git apply -R SEED/patch.diff || exit 2
echo "== $DEMO without change"; run
git apply SEED/patch.diff
