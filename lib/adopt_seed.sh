#!/bin/bash
# adopt_seed.sh <property id> <n>: confirm the demo of /tmp/wt_<id>_<n> (with / without the change, private netns), copy the
# seed to /verif/seeded/<id>-<n>/ and remove the worktree
ID=$1; N=$2; WT=/tmp/wt_${ID}_$N; DEMO=seeded_${ID}_${N}_demo
[ -f $WT/SEED/patch.diff ] || { echo "no seed in $WT"; exit 2; }
D=/verif/seeded/$ID-$N; mkdir -p $D
/verif/lib/confirm_seed_ns.sh $WT $DEMO 2>&1 | tee $D/confirm.log
cp $WT/SEED/patch.diff $WT/SEED/demo.rs $WT/SEED/README.md $D/ 2>/dev/null
git -C /repo worktree remove --force $WT; rm -f $WT.prompt $WT.prop.json
