#!/bin/bash
# confirm_seed.sh <worktree> <demo test name>: runs the demo with the change applied and with it reverted
WT=$1; DEMO=$2
cd $WT || exit 2
export CARGO_TARGET_DIR=$WT/target CARGO_NET_OFFLINE=true
echo "== with change"; cargo test -p dust_dds --offline --test $DEMO 2>&1 | grep -E "^test result|^test .*(FAILED|ok)$" | head -8
git stash -q -- dds/src
echo "== without change"; cargo test -p dust_dds --offline --test $DEMO 2>&1 | grep -E "^test result|^test .*(FAILED|ok)$" | head -8
git stash pop -q
git status --short | head
