#!/bin/bash
# debugging helper: runs the thorough tier of the given checks (default: all) one after the other, logging result lines
cd /verif
IDS=${@:-$(jq -r '.checks[].property_id' MANIFEST.json)}
for c in $IDS; do
  ./check $c --tier thorough 2>&1 | grep -E "^VIOLATION|signature:|^\[$c\]|MACHINERY" | cut -c1-220
done
