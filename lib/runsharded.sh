#!/bin/bash
# debugging helper: run a check through the orchestrator machinery without classification: 16 shards, merged summary
BIN=$1; ID=$2; TIER=${3:-quick}
python3 - "$BIN" "$ID" "$TIER" <<'PY'
import sys,json,os,time
sys.path.insert(0,'/verif/lib')
import vcommon
b,i,t=sys.argv[1:4]
t0=time.time()
res=vcommon.run_shards(f'/verif/target/harness/release/{b}',[i,'--tier',t],16,3000,6)
m=vcommon.merge(res)
print('evaluations',m['evaluations'],'states',m['states'],'distinct',len(m['distinct']),'wall',round(time.time()-t0,1),'err',m['machinery_error'])
seen=set()
for f in m['findings']:
    if f['sig'] in seen: continue
    seen.add(f['sig']); print('  FINDING',f['sig'],'|',json.dumps(f['replay'])[:300],'|',f['detail'][:400])
print({k:v for k,v in m['extra'].items() if k not in('scenarios','groups','finding_occurrences')})
PY
