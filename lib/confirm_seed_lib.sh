#!/bin/bash
# confirm_seed_lib.sh <worktree> <lib test filter>: demo is a #[cfg(test)] module in the lib; run with the source
# change applied and with it reverted (patch.diff reversed)
WT=$1; F=$2
cd $WT || exit 2
export CARGO_TARGET_DIR=$WT/target CARGO_NET_OFFLINE=true
echo "== with change"; cargo test -p dust_dds --offline --lib $F 2>&1 | grep -E "^test result|^test .*(FAILED|ok)$" | head -8
git apply -R SEED/patch.diff
echo "== without change"; cargo test -p dust_dds --offline --lib $F 2>&1 | grep -E "^test result|^test .*(FAILED|ok)$" | head -8
git apply SEED/patch.diff
