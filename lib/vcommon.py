"""Common orchestration for all checks: build, shard, merge, classify findings, write evidence."""
import argparse, fcntl, hashlib, json, os, re, resource, subprocess, sys, tempfile, time

VERIF = os.path.dirname(os.path.dirname(os.path.abspath(__file__)))
TARGET = os.path.join(VERIF, "target")
REPLAYS = os.path.join(VERIF, "replays")
EVIDENCE = os.path.join(VERIF, "evidence")
KNOWN = os.path.join(VERIF, "known_findings.json")
NCPU = os.cpu_count() or 4

EXIT_OK, EXIT_VIOLATION, EXIT_MACHINERY = 0, 1, 2


def log(*a):
    print(*a, file=sys.stderr, flush=True)


def env_offline():
    e = dict(os.environ)
    e["CARGO_NET_OFFLINE"] = "true"
    e.setdefault("CARGO_TERM_COLOR", "never")
    return e


class Machinery(Exception):
    pass


def build(workspace, package, extra_env=None):
    """cargo build --release -p <package> inside /verif/<workspace>; returns path to the binary dir."""
    ws = os.path.join(VERIF, workspace)
    os.makedirs(TARGET, exist_ok=True)
    # Keep the lock file in sync with /repo's (path dependency); harmless if identical.
    lock_src = "/repo/Cargo.lock"
    lock_dst = os.path.join(ws, "Cargo.lock")
    if not os.path.exists(lock_dst) and os.path.exists(lock_src):
        with open(lock_src, "rb") as f, open(lock_dst, "wb") as g:
            g.write(f.read())
    env = env_offline()
    if extra_env:
        env.update(extra_env)
    with open(os.path.join(TARGET, ".build.lock"), "w") as lk:
        fcntl.flock(lk, fcntl.LOCK_EX)
        t0 = time.time()
        p = subprocess.run(["cargo", "build", "--release", "--offline", "-p", package],
                           cwd=ws, env=env, stdout=subprocess.PIPE, stderr=subprocess.STDOUT, text=True)
        if p.returncode != 0:
            log(p.stdout[-6000:])
            raise Machinery(f"build of {workspace}/{package} failed")
        log(f"[build] {workspace}/{package} ok in {time.time()-t0:.1f}s")
    return os.path.join(TARGET, workspace, "release")


def _limits(mem_gb):
    def f():
        if mem_gb:
            b = int(mem_gb * (1 << 30))
            resource.setrlimit(resource.RLIMIT_AS, (b, b))
        resource.setrlimit(resource.RLIMIT_CORE, (0, 0))
    return f


def run_shards(binary, args, shards, timeout_s, mem_gb=4, env=None):
    """Run `binary args --shard i/n --out file` for i in 0..n; returns list of parsed result dicts."""
    procs = []
    tmpdir = tempfile.mkdtemp(prefix="vshard", dir=os.path.join(VERIF, "target"))
    e = env_offline()
    if env:
        e.update(env)
    for i in range(shards):
        out = os.path.join(tmpdir, f"r{i}.json")
        cmd = [binary] + args + ["--shard", f"{i}/{shards}", "--out", out]
        errf = open(os.path.join(tmpdir, f"e{i}.log"), "w")
        procs.append((i, out, errf, subprocess.Popen(cmd, stdout=errf, stderr=subprocess.STDOUT, env=e,
                                                     preexec_fn=_limits(mem_gb))))
    results = []
    deadline = time.time() + timeout_s
    failed = None
    for i, out, errf, p in procs:
        try:
            rc = p.wait(timeout=max(1, deadline - time.time()))
        except subprocess.TimeoutExpired:
            p.kill()
            p.wait()
            failed = failed or f"shard {i} exceeded the wall-clock cap of {timeout_s}s"
            continue
        errf.close()
        if not os.path.exists(out):
            tail = open(errf.name).read()[-3000:]
            failed = failed or f"shard {i} exited rc={rc} without a result file:\n{tail}"
            continue
        try:
            results.append(json.load(open(out)))
        except Exception as ex:
            failed = failed or f"shard {i}: unreadable result ({ex})"
    if failed:
        for _, _, _, p in procs:
            if p.poll() is None:
                p.kill()
        raise Machinery(failed)
    subprocess.run(["rm", "-rf", tmpdir])
    return results


def merge(results):
    """Merge shard results: ints are summed, `distinct` hash lists are unioned, lists concatenated (capped)."""
    m = {"evaluations": 0, "states": 0, "transitions": 0, "distinct": set(), "samples": [], "findings": [],
         "extra": {}, "exhaustive": True, "machinery_error": None, "notes": []}
    for r in results:
        for k in ("evaluations", "states", "transitions"):
            m[k] += int(r.get(k, 0))
        m["distinct"].update(r.get("distinct", []))
        for s in r.get("samples", []):
            if len(m["samples"]) < 8:
                m["samples"].append(s)
        m["findings"].extend(r.get("findings", []))
        if not r.get("exhaustive", True):
            m["exhaustive"] = False
        if r.get("machinery_error"):
            m["machinery_error"] = m["machinery_error"] or r["machinery_error"]
        m["notes"].extend(r.get("notes", []))
        for k, v in (r.get("extra") or {}).items():
            if isinstance(v, bool):
                m["extra"][k] = m["extra"].get(k, True) and v
            elif isinstance(v, (int, float)):
                if k.startswith("max_"):
                    m["extra"][k] = max(m["extra"].get(k, v), v)
                elif k.startswith("min_"):
                    m["extra"][k] = min(m["extra"].get(k, v), v)
                elif k.startswith("cfg_"):
                    m["extra"][k] = v
                else:
                    m["extra"][k] = m["extra"].get(k, 0) + v
            elif isinstance(v, list):
                cur = m["extra"].setdefault(k, [])
                for x in v:
                    if x not in cur and len(cur) < 64:
                        cur.append(x)
            elif isinstance(v, dict):
                cur = m["extra"].setdefault(k, {})
                for kk, vv in v.items():
                    if isinstance(vv, (int, float)) and not isinstance(vv, bool):
                        cur[kk] = cur.get(kk, 0) + vv
                    else:
                        cur[kk] = vv
            else:
                m["extra"][k] = v
    return m


def load_known():
    if not os.path.exists(KNOWN):
        return []
    d = json.load(open(KNOWN))
    return d.get("findings", [])


def classify(prop, findings):
    """Split findings into (known: {entry_id: [findings]}, unlisted: {sig: finding})."""
    known_entries = [k for k in load_known() if k.get("property") == prop and k.get("status", "open") == "open"]
    known, unlisted = {}, {}
    for f in findings:
        sig = f.get("sig", "?")
        hit = None
        for k in known_entries:
            if re.fullmatch(k["signature"], sig):
                hit = k
                break
        if hit is not None:
            known.setdefault(hit["id"], (hit, []))[1].append(f)
        else:
            if sig not in unlisted:
                unlisted[sig] = f
    return known, unlisted


def write_replay(prop, sig, finding):
    os.makedirs(REPLAYS, exist_ok=True)
    h = hashlib.sha1(sig.encode()).hexdigest()[:10]
    path = os.path.join(REPLAYS, f"{prop}-{h}.json")
    json.dump({"property": prop, "sig": sig, "detail": finding.get("detail"), "replay": finding.get("replay")},
              open(path, "w"), indent=1)
    return path


def write_evidence(prop, tier, seed, level, coverage, assumptions, wall, violations):
    os.makedirs(EVIDENCE, exist_ok=True)
    ev = {"property_id": prop, "tier": tier, "seed": seed, "level": level, "coverage": coverage,
          "assumptions": assumptions, "wall_s": round(wall, 2), "violations": violations}
    tmp = os.path.join(EVIDENCE, f".{prop}.tmp")
    json.dump(ev, open(tmp, "w"), indent=1)
    os.replace(tmp, os.path.join(EVIDENCE, f"{prop}.json"))


def main(argv):
    import checks
    ap = argparse.ArgumentParser()
    ap.add_argument("id")
    ap.add_argument("--tier", default=os.environ.get("VERIF_TIER", "quick"), choices=["quick", "thorough"])
    ap.add_argument("--replay")
    ap.add_argument("--keep-going", action="store_true")
    a = ap.parse_args(argv)
    if a.id == "gen-manifest":
        return checks.gen_manifest()
    if a.id == "setup":
        return checks.setup()
    spec = checks.CHECKS.get(a.id)
    if spec is None:
        log(f"unknown check {a.id}")
        return EXIT_MACHINERY
    try:
        seed = int(os.environ.get("VERIF_SEED", "0"))
    except ValueError:
        seed = 0
    t0 = time.time()
    try:
        if a.replay:
            return spec.replay(a.id, a.replay)
        m = spec.run(a.id, a.tier, seed)
    except Machinery as ex:
        log(f"MACHINERY-FAILURE check={a.id}: {ex}")
        return EXIT_MACHINERY
    wall = time.time() - t0
    if m.get("machinery_error"):
        log(f"MACHINERY-FAILURE check={a.id}: {m['machinery_error']}")
        return EXIT_MACHINERY
    known, unlisted = classify(a.id, m["findings"])
    for kid, (entry, fs) in sorted(known.items()):
        print(f"KNOWN-FINDING: property={a.id} {entry['what']} [{kid}; {len(fs)} occurrence(s) this run]", flush=True)
    rc = EXIT_OK
    for sig, f in sorted(unlisted.items()):
        path = write_replay(a.id, sig, f)
        print(f"VIOLATION property={a.id} replay={path}", flush=True)
        log(f"  signature: {sig}\n  detail: {str(f.get('detail'))[:1500]}")
        rc = EXIT_VIOLATION
    distinct = len(m["distinct"]) if isinstance(m["distinct"], (set, list)) else int(m["distinct"])
    cov = spec.coverage(a.id, a.tier, m, distinct)
    cov["known_findings_fired"] = sorted(known.keys())
    vac = spec.vacuity(a.id, a.tier, m, distinct)
    write_evidence(a.id, a.tier, seed, spec.level, cov, spec.assumptions, wall, len(unlisted))
    if vac and rc == EXIT_OK:
        log(f"MACHINERY-FAILURE check={a.id}: vacuous run: {vac}")
        return EXIT_MACHINERY
    log(f"[{a.id}] tier={a.tier} evaluations={m['evaluations']} states={m['states']} distinct={distinct} "
        f"known={len(known)} unlisted={len(unlisted)} wall={wall:.1f}s")
    return rc
