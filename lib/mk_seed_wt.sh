#!/bin/bash
# mk_seed_wt.sh <property id> <n>: scratch worktree /tmp/wt_<id>_<n> of /repo HEAD plus the prompt for a mutation agent in /tmp/wt_<id>_<n>.prompt
ID=$1; N=$2; WT=/tmp/wt_${ID}_$N
git -C /repo worktree add --detach -q $WT HEAD || exit 2
python3 - "$ID" "$N" "$WT" <<'PY'
import json, sys
pid, n, wt = sys.argv[1:]
prop = next(json.loads(l) for l in open('/verif/properties.jsonl') if json.loads(l)['id'] == pid)
open(wt + '.prop.json', 'w').write(json.dumps(prop, indent=1))
t = open('/verif/lib/mutation_prompt_template.txt').read()
t = t.replace('__WT__', wt).replace('__PROP__', json.dumps(prop, indent=1)).replace('__IDL__', (pid + '_' + n).lower()).replace('__ID__', pid + '_' + n)
open(wt + '.prompt', 'w').write(t)
PY
echo $WT
