"""Table of checks (one per claimed property) and MANIFEST generation."""
import json, os, subprocess, sys
import vcommon
from vcommon import VERIF, NCPU

ENGINES = {
    "simcheck": dict(workspace="harness", package="simcheck",
                     kind="deterministic full-stack simulation of real participants (virtual clock, in-memory faulty "
                          "network, single-threaded executor) + exhaustive deviation-bounded prefix-replay explorer"),
    "histcheck": dict(workspace="harness", package="histcheck",
                      kind="explicit-state BFS over the real DataReaderEntity/DataWriterEntity with canonical state "
                           "hashing, in lock-step with a reference DDS history model"),
    "enumcheck": dict(workspace="harness", package="enumcheck",
                      kind="bounded-exhaustive input-lattice enumeration on the real codecs / pure functions with "
                           "round-trip, differential and totality oracles (crash-isolated)"),
    "loomcheck": dict(workspace="loomcheck", package="loomcheck",
                      kind="loom: exhaustive preemption-bounded thread interleavings of the unmodified channel and "
                           "std-runtime sources compiled against loom-backed shims"),
    "progcheck": dict(workspace="progcheck", package=None,
                      kind="bounded-exhaustive program enumeration (derive declarations / IDL specs) compiled against "
                           "/repo and compared with a reference description"),
}


class Spec:
    def __init__(self, engine, level, text, note, technique, design_ref, rule, assumptions,
                 shards=(NCPU, NCPU), timeout=(170, 3600), mem_gb=4, floor=(2, 2), nontrivial=None,
                 model_keys=False, extra_args=None):
        self.engine = engine
        self.level = level
        self.text = text
        self.note = note
        self.technique = technique
        self.design_ref = design_ref
        self.rule = rule
        self.assumptions = assumptions
        self.shards = shards
        self.timeout = timeout
        self.mem_gb = mem_gb
        self.floor = floor
        self.model_keys = model_keys
        self.extra_args = extra_args or []

    def _tier_index(self, tier):
        return 0 if tier == "quick" else 1

    def binary(self):
        e = ENGINES[self.engine]
        d = vcommon.build(e["workspace"], e["package"])
        return os.path.join(d, e["package"])

    def run(self, pid, tier, seed):
        ti = self._tier_index(tier)
        b = self.binary()
        res = vcommon.run_shards(b, [pid, "--tier", tier, "--seed", str(seed)] + self.extra_args,
                                 self.shards[ti], self.timeout[ti], self.mem_gb)
        return vcommon.merge(res)

    def replay(self, pid, path):
        b = self.binary()
        p = subprocess.run([b, pid, "--replay", path] + self.extra_args, env=vcommon.env_offline())
        return p.returncode

    def coverage(self, pid, tier, m, distinct):
        cov = {
            "evaluations": m["evaluations"],
            "distinct_nontrivial": distinct,
            "rule": self.rule,
            "samples": m["samples"][:8],
            "exhaustive": bool(m["exhaustive"]),
        }
        if m["states"] or self.model_keys:
            cov["states"] = m["states"]
            cov["transitions"] = m["transitions"]
            # every transition is executed on the real implementation object
            cov["traces_validated_against_impl"] = m["transitions"]
        cov.update({k: v for k, v in m["extra"].items()})
        if m["notes"]:
            cov["notes"] = m["notes"][:20]
        return cov

    def vacuity(self, pid, tier, m, distinct):
        ti = self._tier_index(tier)
        need_eval, need_distinct = self.floor if isinstance(self.floor[0], int) else self.floor[ti]
        if m["evaluations"] < need_eval:
            return f"only {m['evaluations']} evaluations (floor {need_eval})"
        if distinct < need_distinct:
            return f"only {distinct} distinct non-trivial cases (floor {need_distinct})"
        return None


CHECKS = {}


def reg(pid, spec):
    CHECKS[pid] = spec


# ---------------------------------------------------------------------------------------------------------
# E3 enumcheck
# ---------------------------------------------------------------------------------------------------------
reg("C38", Spec(
    "enumcheck", "exploration",
    "Every usize in 0..=70000 plus the usize boundary set is passed to the real set_fragment_size from every previous "
    "setting in {8,1344,65000}; the accept/reject verdict and the retained setting are compared with the documented "
    "range. The input space has 3 classes (below/inside/above) with 4 boundaries, all of which are enumerated, so the "
    "check is exhaustive over everything the code can distinguish.",
    "Trusted: the transport's observable `fragment_size` handed to a created participant reflects the stored setting.",
    "bounded-exhaustive input enumeration (small-scope model checking of a pure function)",
    "DESIGN.md §4 C38",
    "all v in 0..=70000 ∪ {2^k, 2^k±1, usize::MAX-1, usize::MAX} × previous setting ∈ {8,1344,65000}; a case is "
    "non-trivial/distinct per (previous, class(v), verdict) triple",
    ["sizes above 70000 are represented by the boundary set only"],
    shards=(1, 1), floor=(1000, 4)))


# ---------------------------------------------------------------------------------------------------------
# E1 simcheck
# ---------------------------------------------------------------------------------------------------------
SIM_NOTE = ("Trusted: the simulation harness (virtual clock/timer/spawner/transport implementing dust-dds's public runtime and "
            "transport traits; an independent 200-line RTPS wire parser for classifying datagrams). Its determinism is "
            "checked on every run (baseline of each scenario executed twice with identical trace hashes; prefix replay must "
            "reproduce the prefix). Both participants live in one process and share the single DDS worker, as in any "
            "single-process dust-dds deployment; the sync API wrappers and the UDP transport are not on the explored path.")
SIM_ASSUME = ["virtual time: no jitter between two consecutive steps of one task",
              "deviations beyond the completed bound per execution are not explored (after the last deviation the network is perfect)",
              "payload/QoS values outside the scenario alphabets are not explored"]


def sim(level, text, rule, design_ref, floor=(50, 10), timeout=(170, 3600), model_keys=False, extra_assume=()):
    return Spec("simcheck", level, text, SIM_NOTE,
                "stateless model checking of the real implementation: exhaustive deviation-bounded enumeration of "
                "fault/schedule/timing choice vectors by prefix replay in a deterministic full-stack simulation",
                design_ref, rule, SIM_ASSUME + list(extra_assume), floor=floor, timeout=timeout, model_keys=model_keys)


FATES = "{deliver, drop, duplicate, hold-behind-next, hold-until-clock-advance, duplicate-late}"

reg("C01", sim(
    "fault_enumeration",
    "Every fate vector with at most 2 (quick) / 3 (thorough) non-default fates over all user-traffic datagrams "
    "(DATA, DATA_FRAG, HEARTBEAT, GAP, ACKNACK, NACK_FRAG, both directions) of each scenario is executed against two real "
    "participants; after the last deviation the network is perfect. Checked on every execution: exactly-once, per-instance "
    "publication order, byte-identical payloads at every take, and delivery of everything the writer still holds within "
    "3 s of virtual time after healing. Scenarios cover small and fragmented samples, 1-2 instances, write spacing below "
    "and above the poke/heartbeat periods, KEEP_ALL and KEEP_LAST(1,2) writers.",
    f"all choice vectors with ≤ bound non-default entries; one choice point per (datagram, destination) inside the fault "
    f"window with alphabet {FATES}; distinct = distinct execution trace hashes (observations + delivered datagrams + times)",
    "DESIGN.md §4 C01"))

reg("C02", sim(
    "fault_enumeration",
    "Same exploration with a BEST_EFFORT reader (reliable and best-effort writer), including a fragmented sample followed "
    "by small ones so fragments interleave with later DATA. Safety only: presented samples form an at-most-once, "
    "per-instance ordered, byte-identical subsequence of what was written.",
    f"all choice vectors with ≤ bound non-default entries over alphabet {FATES}; distinct = distinct trace hashes",
    "DESIGN.md §4 C02"))


# ---------------------------------------------------------------------------------------------------------
# MANIFEST
# ---------------------------------------------------------------------------------------------------------
def gen_manifest():
    props = [json.loads(l) for l in open(os.path.join(VERIF, "properties.jsonl"))]
    na_path = os.path.join(VERIF, "lib", "not_applicable.json")
    na = json.load(open(na_path)) if os.path.exists(na_path) else {}
    checks = []
    for p in props:
        pid = p["id"]
        s = CHECKS.get(pid)
        if not s:
            continue
        checks.append({
            "property_id": pid,
            "quick_cmd": f"./check {pid} --tier quick",
            "thorough_cmd": f"./check {pid} --tier thorough",
            "evidence_file": f"/verif/evidence/{pid}.json",
            "replay_cmd_template": f"./check {pid} --replay {{path}}",
            "engine": s.engine,
            "level_claimed": {"category": s.level, "text": s.text, "design_ref": s.design_ref},
            "level_note": s.note,
            "technique": s.technique,
        })
    not_app = []
    for p in props:
        if p["id"] not in CHECKS:
            not_app.append({"property_id": p["id"],
                            "reason": na.get(p["id"], "check not built yet in this session; planned engine in DESIGN.md §1")})
    hooks_commits = subprocess.run(["git", "-C", "/repo", "log", "--format=%h %s", "--grep=^verif hook"],
                                   capture_output=True, text=True).stdout.strip().splitlines()
    man = {
        "version": 1,
        "setup_cmd": "./check setup",
        "hooks": {
            "guard": "--cfg dust_dds_verif",
            "enable": "RUSTFLAGS='--cfg dust_dds_verif --cap-lints allow' (fixed in /verif/harness/.cargo/config.toml; "
                      "the harness crates depend on /repo/dds by path, so every check rebuilds from /repo's working tree)",
            "baseline_off_cmd": "cd /repo && cargo nextest run --workspace --no-fail-fast --test-threads 8 --offline "
                                "|| cargo test --workspace --no-fail-fast --offline",
            "source_commits": [c.split()[0] for c in hooks_commits],
            "add_only": True,
        },
        "engines": [{"name": k, "path": f"/verif/{v['workspace']}", "kind_free_text": v["kind"],
                     "serves_properties": [pid for pid, s in CHECKS.items() if s.engine == k]}
                    for k, v in ENGINES.items()],
        "checks": checks,
        "not_applicable": not_app,
        "notes": "Exit codes: 0 held / only listed known findings; 1 unlisted violation; 2 machinery failure (never a "
                 "verdict). Known findings: /verif/known_findings.json (never written at run time).",
    }
    json.dump(man, open(os.path.join(VERIF, "MANIFEST.json"), "w"), indent=1)
    print(f"MANIFEST.json: {len(checks)} checks, {len(not_app)} not_applicable")
    return 0


def setup():
    """Build every engine once (offline)."""
    rc = 0
    seen = set()
    for pid, s in CHECKS.items():
        e = ENGINES[s.engine]
        key = (e["workspace"], e["package"])
        if key in seen or e["package"] is None:
            continue
        seen.add(key)
        try:
            vcommon.build(*key)
        except vcommon.Machinery as ex:
            vcommon.log(f"setup: {ex}")
            rc = 2
    return rc
