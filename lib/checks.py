"""Table of checks (one per claimed property) and MANIFEST generation."""
import json, os, subprocess, sys
import vcommon
from vcommon import VERIF, NCPU

ENGINES = {
    "simcheck": dict(workspace="harness", package="simcheck",
                     kind="deterministic full-stack simulation of real participants (virtual clock, in-memory faulty "
                          "network, single-threaded executor) + exhaustive deviation-bounded prefix-replay explorer"),
    "histcheck": dict(workspace="harness", package="histcheck",
                      kind="explicit-state BFS over the real DataReaderEntity/DataWriterEntity with canonical state "
                           "hashing, in lock-step with a reference DDS history model"),
    "enumcheck": dict(workspace="harness", package="enumcheck",
                      kind="bounded-exhaustive input-lattice enumeration on the real codecs / pure functions with "
                           "round-trip, differential and totality oracles (crash-isolated)"),
    "xcdrcheck": dict(workspace="harness", package="xcdrcheck",
                      kind="bounded-exhaustive type x value lattice enumeration on the real XCDR serializer/deserializer, key hash, "
                           "discovery parameter lists and type assignability, against an own reference codec (refcodec.rs)"),
    "loomcheck": dict(workspace="loomcheck", package="loomcheck",
                      kind="loom: exhaustive preemption-bounded thread interleavings of the unmodified channel and "
                           "std-runtime sources compiled against loom-backed shims"),
    "progcheck": dict(workspace="progcheck", package=None,
                      kind="bounded-exhaustive program enumeration (derive declarations / IDL specs) compiled against "
                           "/repo and compared with a reference description"),
}


class Spec:
    def __init__(self, engine, level, text, note, technique, design_ref, rule, assumptions,
                 shards=(NCPU, NCPU), timeout=(170, 3600), mem_gb=4, floor=(2, 2), nontrivial=None,
                 model_keys=False, extra_args=None, also=None):
        self.engine = engine
        # further engines whose shards are run for the same id and merged into the same result (e.g. the function-level
        # enumeration of xcdrcheck plus the end-to-end scenarios of simcheck for C11)
        self.also = also or []
        self.level = level
        self.text = text
        self.note = note
        self.technique = technique
        self.design_ref = design_ref
        self.rule = rule
        self.assumptions = assumptions
        self.shards = shards
        self.timeout = timeout
        self.mem_gb = mem_gb
        self.floor = floor
        self.model_keys = model_keys
        self.extra_args = extra_args or []

    def _tier_index(self, tier):
        return 0 if tier == "quick" else 1

    def binary(self, engine=None):
        e = ENGINES[engine or self.engine]
        if e["package"] is None:
            # script engine (progcheck): an executable /verif/<workspace>/<workspace> that builds what it needs itself
            return os.path.join(vcommon.VERIF, e["workspace"], e["workspace"])
        d = vcommon.build(e["workspace"], e["package"])
        return os.path.join(d, e["package"])

    def run(self, pid, tier, seed):
        ti = self._tier_index(tier)
        b = self.binary()
        res = vcommon.run_shards(b, [pid, "--tier", tier, "--seed", str(seed)] + self.extra_args,
                                 self.shards[ti], self.timeout[ti], self.mem_gb)
        for eng in self.also:
            res += vcommon.run_shards(self.binary(eng), [pid, "--tier", tier, "--seed", str(seed)],
                                      self.shards[ti], self.timeout[ti], self.mem_gb)
        return vcommon.merge(res)

    def replay(self, pid, path):
        b = self.binary()
        # a replay of one of the additional engines names its scenario
        try:
            import json as _json
            rj = _json.load(open(path))
            if self.also and isinstance(rj.get("replay", rj), dict) and "scenario" in rj.get("replay", rj):
                b = self.binary(self.also[0])
        except Exception:
            pass
        p = subprocess.run([b, pid, "--replay", path] + self.extra_args, env=vcommon.env_offline())
        return p.returncode

    def coverage(self, pid, tier, m, distinct):
        cov = {
            "evaluations": m["evaluations"],
            "distinct_nontrivial": distinct,
            "rule": self.rule,
            "samples": m["samples"][:8],
            "exhaustive": bool(m["exhaustive"]),
        }
        if m["states"] or self.model_keys:
            cov["states"] = m["states"]
            cov["transitions"] = m["transitions"]
            # every transition is executed on the real implementation object
            cov["traces_validated_against_impl"] = m["transitions"]
        cov.update({k: v for k, v in m["extra"].items()})
        if m["notes"]:
            cov["notes"] = m["notes"][:20]
        return cov

    def vacuity(self, pid, tier, m, distinct):
        ti = self._tier_index(tier)
        need_eval, need_distinct = self.floor if isinstance(self.floor[0], int) else self.floor[ti]
        if m["evaluations"] < need_eval:
            return f"only {m['evaluations']} evaluations (floor {need_eval})"
        if distinct < need_distinct:
            return f"only {distinct} distinct non-trivial cases (floor {need_distinct})"
        return None


CHECKS = {}


def reg(pid, spec):
    CHECKS[pid] = spec


# ---------------------------------------------------------------------------------------------------------
# E3 enumcheck
# ---------------------------------------------------------------------------------------------------------
reg("C38", Spec(
    "enumcheck", "exploration",
    "Every usize in 0..=70000 plus the usize boundary set is passed to the real set_fragment_size from every previous "
    "setting in {8,1344,65000}; the accept/reject verdict and the retained setting are compared with the documented "
    "range. The input space has 3 classes (below/inside/above) with 4 boundaries, all of which are enumerated, so the "
    "check is exhaustive over everything the code can distinguish.",
    "Trusted: the transport's observable `fragment_size` handed to a created participant reflects the stored setting.",
    "bounded-exhaustive input enumeration (small-scope model checking of a pure function)",
    "DESIGN.md §4 C38",
    "all v in 0..=70000 ∪ {2^k, 2^k±1, usize::MAX-1, usize::MAX} × previous setting ∈ {8,1344,65000}; a case is "
    "non-trivial/distinct per (previous, class(v), verdict) triple",
    ["sizes above 70000 are represented by the boundary set only"],
    shards=(1, 1), floor=(1000, 4)))


reg("C08", Spec(
    "enumcheck", "exploration",
    "Every submessage kind is built through its public constructor over a field lattice (sequence numbers 1, 2^31-1, 2^31, 2^32, "
    "2^32+1, 2^63-300, 0, -1; set bases x member sets {empty, {base}, {base+255}, all 256, mixed, every single bit of 12 positions}; "
    "counts {0,1,-1,MAX,MIN}; all flag combinations; inline QoS {none, key hash, status info, both, unknown PID}; payload sizes "
    "0..5, 8, 1344, 65000, 65499..65536, 70000 (all of 65502..65540 and 200000 in thorough); DATA_FRAG shapes with fragment sizes 8..65000), "
    "plus all messages of 2 and 3 submessages over 9 kinds in every order. Each message is encoded with RtpsMessageWrite, every "
    "octetsToNextHeader is checked against the real layout by an independent walker, and RtpsMessageRead::try_from must return "
    "the same header and submessage list.",
    "Trusted: the Debug/accessor rendering used to compare submessages; the independent header walker.",
    "bounded-exhaustive input-lattice enumeration with a round-trip oracle",
    "DESIGN.md §4 C08",
    "product lattice described in level text; a case is distinct per (submessage class, outcome)",
    ["big-endian decoding is covered by C07's byte-swapped seeds, not here", "payload content is a fixed position-dependent pattern"],
    floor=(3000, 20)))

reg("C14", Spec(
    "enumcheck", "exploration",
    "Literally exhaustive: every nanosecond value 0..10^9 (with seconds 0,1,2; a 1024-stride for six further boundary seconds) and "
    "every one of the 2^32 second values (with nanoseconds 0,1,5*10^8,10^9-1) is converted DDS Duration -> RTPS duration -> DDS and "
    "DDS Time -> transport Time -> RTPS wire Time -> back, and compared for identity. Arithmetic: the full product of a 50-value "
    "boundary lattice (seconds MIN..MAX, nanoseconds 0..10^9-1) for a+b, a-b (compared with exact i128 arithmetic saturated to "
    "the representable range), normalisation, and monotonicity over all triples; Time+Duration and Time-Time normalisation.",
    "Trusted: the i128 reference arithmetic in the harness.",
    "exhaustive input enumeration of pure conversion/arithmetic functions",
    "DESIGN.md §4 C14",
    "all 10^9 nanosecond values x {0,1,2} s + all 2^32 seconds x 4 nanosecond values + 50^3 arithmetic triples; distinct counts outcome classes only (the space is homogeneous)",
    ["conversion through the public From impls; wire byte order handled by C08"],
    floor=(10**9, 2), timeout=(300, 3600)))

# ---------------------------------------------------------------------------------------------------------
# E1 simcheck
# ---------------------------------------------------------------------------------------------------------
SIM_NOTE = ("Trusted: the simulation harness (virtual clock/timer/spawner/transport implementing dust-dds's public runtime and "
            "transport traits; an independent 200-line RTPS wire parser for classifying datagrams). Its determinism is "
            "checked on every run (baseline of each scenario executed twice with identical trace hashes; prefix replay must "
            "reproduce the prefix). Both participants live in one process and share the single DDS worker, as in any "
            "single-process dust-dds deployment; the sync API wrappers and the UDP transport are not on the explored path.")
SIM_ASSUME = ["virtual time: no jitter between two consecutive steps of one task",
              "deviations beyond the completed bound per execution are not explored (after the last deviation the network is perfect)",
              "payload/QoS values outside the scenario alphabets are not explored"]


def sim(level, text, rule, design_ref, floor=(50, 10), timeout=(170, 3600), model_keys=False, extra_assume=()):
    return Spec("simcheck", level, text, SIM_NOTE,
                "stateless model checking of the real implementation: exhaustive deviation-bounded enumeration of "
                "fault/schedule/timing choice vectors by prefix replay in a deterministic full-stack simulation",
                design_ref, rule, SIM_ASSUME + list(extra_assume), floor=floor, timeout=timeout, model_keys=model_keys)


FATES = "{deliver, drop, duplicate, hold-behind-next, hold-until-clock-advance, duplicate-late}"

reg("C01", sim(
    "fault_enumeration",
    "Every fate vector with at most 2 (quick) / 3 (thorough) non-default fates over all user-traffic datagrams "
    "(DATA, DATA_FRAG, HEARTBEAT, GAP, ACKNACK, NACK_FRAG, both directions) of each scenario is executed against two real "
    "participants; after the last deviation the network is perfect. Checked on every execution: exactly-once, per-instance "
    "publication order, byte-identical payloads at every take, and delivery of everything the writer still holds within "
    "3 s of virtual time after healing. Scenarios cover small and fragmented samples, 1-2 instances, write spacing below "
    "and above the poke/heartbeat periods, KEEP_ALL and KEEP_LAST(1,2) writers.",
    f"all choice vectors with ≤ bound non-default entries; one choice point per (datagram, destination) inside the fault "
    f"window with alphabet {FATES}; distinct = distinct execution trace hashes (observations + delivered datagrams + times)",
    "DESIGN.md §4 C01"))

reg("C02", sim(
    "fault_enumeration",
    "Same exploration with a BEST_EFFORT reader (reliable and best-effort writer), including a fragmented sample followed "
    "by small ones so fragments interleave with later DATA. Safety only: presented samples form an at-most-once, "
    "per-instance ordered, byte-identical subsequence of what was written.",
    f"all choice vectors with ≤ bound non-default entries over alphabet {FATES}; distinct = distinct trace hashes",
    "DESIGN.md §4 C02"))


reg("C05", sim(
    "fault_enumeration",
    "For fragment sizes {8, 12, 64, 65, 1344, 65000} (thorough adds 9, 10, 16, 63, 64999) and serialized sample sizes k*f-4, k*f, k*f+4 "
    "for k = 1..4 (k ≤ 2 for the large fragment sizes), reliable and best-effort: the first transmission of every DATA_FRAG / DATA "
    "datagram of the sample is captured in flight and then delivered under EVERY combination of per-datagram fate {deliver, drop, "
    "duplicate} and EVERY delivery order (all k! permutations for ≤ 4 datagrams); afterwards the real protocol (HEARTBEAT, "
    "NACK_FRAG, ACKNACK, retransmission) runs on a perfect network. Also two fragmented samples whose fragments interleave. "
    "Oracle: every presented sample is byte-identical to what was written (position-dependent pattern) and presented at most once; "
    "reliable: every sample is presented within 3 s.",
    "full enumeration of choice vectors: 3^k fates x k! orders per (fragment size, sample size, reliability); distinct = distinct observation traces",
    "DESIGN.md §4 C05", floor=(10000, 1000)))

reg("C03", sim(
    "fault_enumeration",
    "wait_for_acknowledgments is called in scenarios with one reliable reader, two reliable readers, a best-effort reader next "
    "to a reliable one, and with the only unacknowledged reader leaving by reader deletion, participant deletion or lease "
    "expiry (lease patched to 1 s in flight) while the call is pending. All fate vectors up to the bound over user traffic. "
    "Soundness is judged at the instant the future resolves: every still-matched reliable reader must hold every sample "
    "written so far (non-destructive read; ground truth of who is matched is kept by the harness). Completion: within 1.2 s "
    "of virtual time after healing, within 1 s after reader/participant deletion, within lease + 1.5 s after a silent departure.",
    f"all choice vectors with ≤ bound (2 quick on the small scenarios, 1 on the departure scenarios; +1 thorough) non-default "
    f"entries over alphabet {FATES}; distinct = distinct trace hashes",
    "DESIGN.md §4 C03"))

reg("C04", sim(
    "fault_enumeration",
    "Writer durability {VOLATILE, TRANSIENT_LOCAL} x reader {VOLATILE, TRANSIENT_LOCAL} (compatible pairs) x writer history "
    "{KEEP_ALL, KEEP_LAST 1, KEEP_LAST 2} x 2 instances x reader created {after 3 writes immediately, after 3 writes + 300 ms, "
    "before any write} x same/other participant, with all fate vectors up to the bound on the catch-up traffic (HEARTBEAT, "
    "ACKNACK, DATA, GAP). A TL reader must eventually present exactly the last-depth-per-instance early samples plus all later "
    "ones, once each, and wait_for_historical_data must complete; a VOLATILE reader must never present a sample written "
    "before it existed.",
    f"all choice vectors with ≤ 2 (3 thorough) non-default entries over alphabet {FATES}; distinct = distinct trace hashes",
    "DESIGN.md §4 C04"))

reg("C16", sim(
    "model_checking",
    "All histories of depth 3 (4 thorough) over {create/delete remote reader a, create/delete remote reader b, make a's deadline "
    "(in)compatible, change a's subscriber partition, delete b's participant, silence b's participant until its lease (1 s) "
    "expires, create/delete a second local writer} against three real participants, with the matched statuses read after every "
    "step, and depth 4 (5) with the statuses read only at the end (change fields then span several events). After every step: "
    "the writer's matched list equals the specified matched set for the reader the step touched; current_count equals the list "
    "length; total_count grows by the number of new list members; both change fields equal the difference since the previous "
    "read; reader-side status consistent with the reader's own list and with the writer side; after an unmatch no DATA/HEARTBEAT/GAP "
    "of the writer is addressed to a participant without matched readers. The specification is re-synchronised on the "
    "implementation's belief after every step so that a listed finding does not cascade.",
    API_RULE if False else "every operation history up to the depth over the 7-operation alphabet (one OP choice point per step, all alternatives); "
    "distinct = distinct observation traces", "DESIGN.md §4 C16", floor=(500, 100)))

reg("C17", sim(
    "fault_enumeration",
    "Two participants on one shared multicast medium with (domain, tag) in {(0,0,same), (0,1,same), (0,0,different tag)}: all fate "
    "vectors with ≤ 2 (3) non-default fates over every SPDP datagram between them; same domain and tag must discover each other "
    "within 1.5 s (7 announcement periods) after the last fault, different domain or tag never. Lease expiry: lease in {1 s, 2 s} "
    "(patched into SPDP in flight) x silence starting {0,70,130,199} ms after an announcement: removal no earlier than lease and no "
    "later than lease + 50 ms (+15 ms polling slack) after the last delivered datagram. An ignored participant must not reappear "
    "during 2 s of further announcements.",
    f"all choice vectors with ≤ bound non-default entries over alphabet {FATES} on SPDP datagrams; the lease scenarios are single "
    f"executions per (lease, phase); distinct = distinct trace hashes", "DESIGN.md §4 C17", floor=(500, 100)))

reg("C27", sim(
    "fault_enumeration",
    "A RELIABLE KEEP_LAST(depth 1,2) writer with max_blocking_time {0, 30 ms, 120 ms, infinite} writes bursts of 4-5 samples on 1-2 "
    "instances to a reliable reader whose ACKNACKs are lost for {0, 80, 300} ms, with all fate vectors up to the bound on user "
    "traffic on top. Oracles: a write returns Timeout no earlier than max_blocking_time and no later than max_blocking_time + 50 ms "
    "(never with infinite blocking); every sample whose write returned Ok eventually reaches the reader (it was never discarded "
    "unacknowledged); a sample whose write timed out is never delivered; every HEARTBEAT announces at most depth samples (single "
    "instance) and the final history is exactly the newest depth successful writes; with no / only a best-effort reader writes never block.",
    f"all choice vectors with ≤ bound (2 without outage, 1 with; +1 thorough) non-default entries over alphabet {FATES}; distinct = distinct trace hashes",
    "DESIGN.md §4 C27", floor=(1000, 100)))

reg("C29", sim(
    "fault_enumeration",
    "TRANSIENT_LOCAL reliable writer with lifespan {40, 300} ms writes samples with source timestamps {now, now - lifespan/2, "
    "now - 2 lifespan, now - lifespan - 1 ms}; reader present from the start or joining {0, lifespan/2, lifespan + 60 ms} after the "
    "writes; fate vectors up to the bound on user traffic so that first transmissions are lost and repairs / history happen after "
    "expiry. Every sample the application sees must be younger than lifespan (+ 20 ms polling + 50 ms worker period) at the moment it is taken.",
    f"all choice vectors with ≤ bound (2 / 1 for late joiners; +1 thorough) non-default entries over alphabet {FATES}; distinct = distinct trace hashes",
    "DESIGN.md §4 C29", floor=(300, 50)))

reg("C30", sim(
    "model_checking",
    "Writer and reader with a 100 ms deadline; write-time patterns: second write at {40,95,100,105,195,205,260} ms, a regular 80 ms "
    "stream, two interleaved instances, and all gap sequences from {40,95,100,105,150,195,205,260} ms for 3 writes on one instance and "
    "4 writes on two instances (TIME choice points, full enumeration). Every 25 ms the offered (status) and requested (listener) "
    "deadline-missed totals must lie between the number of full periods that ended more than 53 ms ago and the number that can "
    "have ended by now; totals never decrease; listener notifications carry 1,2,3,... (each increase signalled once).",
    "all TIME choice vectors (gap alphabet of 8 values per write) + 9 fixed patterns; distinct = distinct observation traces",
    "DESIGN.md §4 C30", floor=(300, 50)))

reg("C31", sim(
    "model_checking",
    "Five scenarios drive the inputs of the worker's sleep computation negative or overdue (20 ms deadlines several periods overdue, "
    "lifespans with source timestamps in the past, samples filtered / rejected at the reader, a blocked write plus an expiring lease) "
    "with all combinations of write spacing {0,7,33,61,120 ms} and source-timestamp age {0,25,100 ms} per write (TIME choice points, "
    "full enumeration). Oracle on every Timer::delay request made by the worker task: duration ≤ 50 ms. The same oracle is also "
    "evaluated on every execution of the C27, C29 and C30 scenarios.",
    "all TIME choice vectors (5 x 3^4 per scenario); distinct = distinct trace hashes",
    "DESIGN.md §4 C31", floor=(300, 50)))

reg("C26", sim(
    "model_checking",
    "Seven filter expressions (= and <= on an int32 and on a string member, boundary and negative parameters, empty string) x reliable / "
    "best-effort x all 8 pass/fail patterns of three samples x 4 arrival groupings (three separate datagrams; all three DATA "
    "submessages merged into one datagram; first two merged; last two merged — merging is done in flight from the real datagrams). "
    "The reader on the content-filtered topic must present exactly the passing samples; an unfiltered control reader on the related "
    "topic must present all three.",
    "full enumeration of OP choice vectors (8 patterns x 4 groupings) per expression; distinct = distinct observation traces",
    "DESIGN.md §4 C26", floor=(300, 50)))

reg("C32", sim(
    "model_checking",
    "Three client tasks (a WaitSet waiter with 1-2 attached StatusConditions, a remote writer raising DataAvailable, a task enabling "
    "the status through set_enabled_statuses after it changed) are interleaved with each other and with the DDS worker by the "
    "harness scheduler: at every step with several ready tasks each of the first four may run next (SCHED choice points); all "
    "vectors with ≤ 3 (4 thorough) deviations from FIFO. After settling: get_trigger_value is true while the enabled status is "
    "unread, and wait() has returned a non-empty list.",
    "all SCHED choice vectors with ≤ bound non-FIFO picks; distinct = distinct observation traces",
    "DESIGN.md §4 C32", floor=(100, 5)))

reg("C33", sim(
    "model_checking",
    "For each status-raising event on the subscriber side (new data, subscription matched, requested incompatible QoS, sample "
    "rejected): all 8 combinations of listener presence at reader / subscriber / participant level x all 8 combinations of masks "
    "enabling the status at those levels (x DataOnReaders enabled at the subscriber for the data event). Exactly one callback must "
    "arrive, at the most specific level that has a listener whose mask enables the status; none if no level does; data is "
    "signalled as data-on-readers at the subscriber when enabled there.",
    "full enumeration of OP choice vectors (8 x 8 [x 2]) per event; distinct = distinct observation traces",
    "DESIGN.md §4 C33", floor=(200, 50)))

BYTES_RULE = ("L-bytes lattice around every seed: identity, every truncation length, every single-byte substitution from "
              "{00,01,02,03,07,08,7f,80,fe,ff}, every 2-aligned 16-bit and 4-aligned 32-bit field substitution (both byte orders) "
              "from {0,1,2,3,4,8,len-1,len,len+1,0x7fff,0x8000,0xfffc,0xfffe,0xffff} / {0,1,2,4,len-1,len,len+1,0x100,0x10000,"
              "0x7fffffff,0x80000000,0xfffffffe,0xffffffff} (thorough: all pairs of 32-bit substitutions in the first 64 bytes), "
              "plus the closed space RTPS header + one submessage of every id 0..255 x flags 0..15 x declared length in "
              "{0,1,3,4,8,20,28,63,64,65,0xffff} x body in {zeros, ones}. Seeds: every distinct datagram (by sender, submessage "
              "kinds and entity ids) of a real simulated run with discovery, fragmented and unfragmented user data, dispose, "
              "GAP, ACKNACK with bits, NACK_FRAG, HEARTBEAT, with fragment sizes 64 and 1344, and the serialized payloads found in them. "
              "distinct = distinct (target, mutation shape, outcome) triples")

reg("C07", Spec(
    "simcheck", "exploration",
    "Every case of the L-bytes lattice is fed to RtpsMessageRead::try_from (datagram seeds + synthetic messages) and, for payload "
    "seeds, to the discovery decoders (participant, publication, subscription, topic: each seed also to a neighbouring decoder), "
    "the type-lookup request/reply types and the user sample types through deserialize_top_level_type, each additionally with all "
    "12 representation identifiers. Oracle: returns Ok or Err; no panic; peak allocation ≤ 64 x input length + 64 KiB (counting "
    "global allocator); no abort and no hang (the sweep runs in a supervised child process: a death or 6 s without progress is "
    "attributed to the exact input and the sweep resumes after it).",
    "Trusted: the supervisor/child protocol and the counting allocator of the harness.",
    "bounded-exhaustive enumeration of a byte-level neighbourhood of valid encodings (deviation bound 1, thorough 2) with a totality oracle, crash-isolated",
    "DESIGN.md §4 C07", BYTES_RULE,
    ["byte strings further than one (two) substitutions from a valid encoding are not explored", "user payload types: the keyed and the string-bearing sample type of the harness"],
    floor=(100000, 30), timeout=(300, 7200), mem_gb=8))

reg("C06", Spec(
    "simcheck", "exploration",
    "Every case of the L-bytes lattice over the captured datagrams (quick: half of the byte-substitution set) is injected through "
    "TransportDataReceiver::receive_message into a running participant P1 that has discovered a peer P2 and has matched user "
    "endpoints in both directions — after discovery (all cases), mid-transfer of a fragmented sample (reduced set) and before "
    "discovery (thorough). Each injection is one complete simulated execution. Oracle: the worker does not panic; the execution "
    "terminates within its step and virtual-time caps and the process neither aborts nor hangs (supervised child); peak allocation "
    "of the execution ≤ 8 MiB + 64 x length + 64 KiB; afterwards get_qos and create_topic succeed and a reliable write->read round "
    "trip works in both directions on endpoints that the injected bytes do not name (a forged well-formed message naming an "
    "endpoint can legitimately shadow its sequence numbers — spoofing is outside the property).",
    "Trusted: simulation harness (see C01), supervisor/child protocol, counting allocator.",
    "bounded-exhaustive fault injection: every datagram of a byte-level neighbourhood injected into a live simulated participant",
    "DESIGN.md §4 C06", BYTES_RULE,
    ["sequences of several malformed datagrams are not explored (one injection per execution)", "the UDP transport's own receive path is not on the explored path"],
    floor=(50000, 8), timeout=(400, 7200), mem_gb=8))

reg("C15", sim(
    "exploration",
    "(a) Function level: for each RxO policy (durability 4x4, deadline 3x3, latency budget 3x3, liveliness (3 kinds x 3 leases)^2, "
    "reliability, destination order, ownership, presentation (2 scopes x coherent x ordered)^2, data representation 5x5 lists) the "
    "full offered x requested product, combined with every one of the 256 subsets of the other eight policies being made "
    "incompatible, is passed to both real compatibility functions (writer-side verdict about a discovered reader, reader-side "
    "verdict about a discovered writer); the set of offending policy ids must equal the DDS RxO table's and both sides must agree. "
    "(b) End to end between two real participants: every single-policy offered x requested pair, and every pair of partition name "
    "lists of length ≤ 2 over {'', a, ab, a*, ?b, [ab], [!a]b, b, abc} (46 x 46; pairs whose only possible match is pattern-vs-"
    "pattern are skipped: undefined by DDS): matched on both sides iff compatible and partitions match under the DDS rule "
    "(reference: a 40-line textbook fnmatch), and an incompatible pair is notified once through on_offered_incompatible_qos "
    "naming the offending policy.",
    "(a) 216 policy value pairs x 256 subsets x 2 functions; (b) full enumeration of OP choice vectors; distinct = (policy, verdict, "
    "number of other incompatible policies) classes + distinct observation traces",
    "DESIGN.md §4 C15", floor=(20000, 50)))

API_RULE = ("every operation history up to the stated depth over the stated alphabet (one OP choice point per step, all "
            "alternatives at every step = full enumeration, no deviation bound); each history is one execution against a real "
            "participant and its worker; every return value is compared with a reference contract model; distinct = distinct "
            "observation traces")

reg("C28", sim(
    "model_checking",
    "All histories of depth 4 (5 thorough) over {register k1/k2, lookup k1/k2, write k1, dispose k1/k2, unregister k1/k2, enable} on a "
    "keyed writer created enabled and not enabled, and depth 5 (6) over {register, unregister, dispose, write, lookup} on a keyless "
    "writer, through the public async API. Contract model: NotEnabled before enable; register idempotent with a stable, key-specific "
    "handle; lookup = Some exactly for registered keys (write registers implicitly, unregister un-registers); dispose/unregister of an "
    "unknown key = BadParameter; keyless instance operations = IllegalOperation.",
    API_RULE, "DESIGN.md §4 C28", floor=(1000, 100)))

reg("C35", sim(
    "model_checking",
    "For each entity kind (publisher, subscriber, topic, writer, reader) one long-lived entity is created, the id counter is advanced by "
    "pre in {0,126,253..256,300} (and 65534 for the 16-bit counters) create+delete pairs, then all histories of depth 3 (1 after the "
    "long pre-histories) over {create, delete oldest, delete newest} are executed in a checked build (arithmetic overflow panics). "
    "Every new handle must differ from the handles of all live entities; creation may return an error but must not panic or kill the worker.",
    API_RULE, "DESIGN.md §4 C35", floor=(200, 2), timeout=(400, 7200)))

reg("C36", sim(
    "model_checking",
    "All histories of depth 5 (6 thorough) over {create writer/reader, delete writer/reader/publisher/subscriber/topic/participant, "
    "participant.delete_contained_entities, use deleted writer/reader} against a reference entity-tree model with DDS return codes "
    "(PreconditionNotMet while children exist, AlreadyDeleted afterwards, Ok otherwise); plus publisher/subscriber."
    "delete_contained_entities followed by deletion of the parent.",
    API_RULE, "DESIGN.md §4 C36", floor=(1000, 100)))

reg("C37", sim(
    "model_checking",
    "All combinations of history depth {KEEP_ALL,1,2,3} x max_samples {unlimited,1,2,3} x max_samples_per_instance {unlimited,1,2,3} at "
    "creation of a reader and of a writer (InconsistentPolicy iff the DDS consistency rules are broken), followed by every set_qos to "
    "a second (depth, max_samples_per_instance) pair with/without an additional immutable-policy change on the enabled entity "
    "(InconsistentPolicy / ImmutablePolicy / Ok) with get_qos before and after (atomicity); plus a changeable-policy update that must "
    "become visible in the remote reader's matched-publication data.",
    API_RULE, "DESIGN.md §4 C37", floor=(1000, 100)))

# ---------------------------------------------------------------------------------------------------------
# E2 histcheck
# ---------------------------------------------------------------------------------------------------------
HIST_NOTE = ("Trusted: the reference model in harness/histcheck/src/model.rs (one-step DDS history-cache specification "
             "written from DDS 1.4) and the cfg(dust_dds_verif) read-only accessor of InstanceState's private fields. "
             "Where the DDS specification leaves behaviour open (time filter on dispose/unregister changes, ownership after "
             "dispose, instance-state change by a rejected or time-filtered change, KEEP_LAST replacement by non-data "
             "changes, equal-strength tie = incumbent) the model accepts what the implementation does.")
HIST_ASSUME = ["operation alphabets and depth bounds as listed under coverage.groups; histories longer than the depth bound are not explored",
               "timestamps from a small set; reception timestamps strictly increasing",
               "the reader entity is driven directly (UserDefinedDataReader), not through the mail handler"]


def hist(text, rule, design_ref, floor=(10000, 5), also=None):
    return Spec("histcheck", "model_checking", text + (" Plus fixed end-to-end histories through the public API (simcheck s_audit.rs)." if also else ""), HIST_NOTE,
                "explicit-state breadth-first model checking of the real reader history cache with canonical state "
                "hashing; one-step conformance to a reference model from every reachable state",
                design_ref, rule, HIST_ASSUME, floor=floor, model_keys=True, timeout=(170, 3600), also=also)


HIST_RULE = ("BFS over all operation histories up to the depth bound from the empty cache; state = canonical snapshot of the "
             "real object (samples, instance records, ownership table) + ghost variables (live writers, accepted timestamps); "
             "every (state, operation) pair is executed on the real UserDefinedDataReader and compared with the model; "
             "distinct = distinct (operation kind, outcome class) pairs observed")

reg("C18", hist("All histories (depth 5 quick / 7 thorough) of writes/disposes of 2 writers on 2 instances with reads/takes, for KEEP_LAST "
                "depth 1-3 and KEEP_ALL combined with resource limits equal to / one above the depth: after every reception the stored "
                "samples per instance must be exactly the model's (oldest replaced, never rejected for depth, nothing lost under KEEP_ALL).",
                HIST_RULE, "DESIGN.md §4 C18"))
reg("C19", hist("All histories over 3 instances x {write, dispose, unregister} for 11 consistent resource-limit settings: the snapshot never "
                "exceeds a limit, a change that would exceed one is Rejected with a reason whose limit is really reached and leaves the "
                "stored samples unchanged, a change with room is never rejected.",
                HIST_RULE, "DESIGN.md §4 C19", also=["simcheck"]))
reg("C20", hist("From every reachable cache state (depth 4 quick / 6 thorough) the complete read/take lattice (2 x max{unlimited,1,2,0} x 3 sample "
                "masks x 3 view masks x 4 instance masks x 4 instance arguments = 1152 calls) is executed and every returned sample, every "
                "SampleInfo field (states, generation counts, three ranks, handles, valid_data), the error code and the complete post-state "
                "are compared with the model.",
                HIST_RULE, "DESIGN.md §4 C20"))
reg("C21", hist("All arrival orders of up to 5 (7) samples with source timestamps from {1,2,3} (ties and duplicates included) from 1-2 writers on "
                "2 instances, KEEP_ALL / KEEP_LAST 1,2, with takes in between: per instance the stored and the read order must be "
                "non-decreasing in source timestamp (ties in arrival order); BY_RECEPTION: arrival order.",
                HIST_RULE, "DESIGN.md §4 C21"))
reg("C22", hist("All sequences (depth 5 / 7) over 2 writers x 2 instances x {write, dispose, unregister, dispose+unregister} with reads and "
                "takes: instance state, view state and both generation counts of the instance record and of every stored sample must "
                "follow the DDS life cycle (NO_WRITERS only when the last live writer unregisters, NEW exactly on first appearance or rebirth).",
                HIST_RULE, "DESIGN.md §4 C22", also=["simcheck"]))
reg("C23", hist("From every reachable state over 3 instances (mixed read / unread / taken / disposed) all read/take_next_instance calls "
                "(2 x 2 max x 27 mask combinations x previous handle in {none, h0, h1, h2, unknown}) must return the samples of the first "
                "instance greater than the previous handle that has matching samples, NoData only if there is none.",
                HIST_RULE, "DESIGN.md §4 C23", floor=(5000, 5)))
reg("C24", hist("All histories of 2-3 writers with strengths {1<2, tie, 1<2<=2} x 2 instances x {write, dispose, unregister} under EXCLUSIVE "
                "(and SHARED as control): a change of a writer that is not stronger than the current owner must leave samples, instance "
                "state and ownership untouched; an accepted write makes its writer the owner; an unregister releases ownership.",
                HIST_RULE, "DESIGN.md §4 C24", also=["simcheck"]))
reg("C25", hist("All timestamp sequences (length 5 / 6) over {1..5} incl. out-of-order and equal, minimum_separation in {0,1,2,3}, both destination "
                "orders, takes in between: a data sample closer than the separation to any previously accepted data sample of the instance "
                "must be filtered, one that is far from every accepted change must not be.",
                HIST_RULE, "DESIGN.md §4 C25"))


# ---------------------------------------------------------------------------------------------------------
# E3b xcdrcheck
# ---------------------------------------------------------------------------------------------------------
X_NOTE = ("Trusted: the own reference codec /verif/harness/xcdrcheck/src/refcodec.rs (XCDR1/XCDR2 encoder + strict decoder written from "
          "DDS-XTypes 1.3 7.4, calls no dust-dds code; encoder and decoder check each other on every case: reference_selfcheck_failures "
          "must be 0), the AST<->DynamicType bridge, md5. The reference is a second reading of the standard, not another vendor: points "
          "on which vendors differ (wstring length convention; XCDR version/order of the key stream) are recorded as accepted "
          "alternatives, not findings (NOTES.md §6, DESIGN.md §7.4). Every failing case is reduced to the smallest failing shape before "
          "its signature is formed; each stored finding re-runs under --replay.")
def xc(level, text, rule, assumptions, floor, timeout=(300, 7200), also=None):
    return Spec("xcdrcheck", level, text, X_NOTE, "bounded-exhaustive enumeration of a type x value x representation lattice against a reference codec",
                "DESIGN.md §4, /verif/harness/xcdrcheck/NOTES.md", rule, assumptions, floor=floor, timeout=timeout, mem_gb=8, also=also)

reg("C09", xc("exploration",
    "All struct types of the lattice (quick 36 288: 1-2 members over 21 member kinds x {plain,key,optional} x {final,appendable,mutable} x "
    "{sequential,sparse,large} ids; thorough 839 241 incl. 3 members and 33 kinds) x the full cartesian product of boundary values per "
    "member x {XCDR1,XCDR2} x {LE,BE}: deserialize(serialize(v)) == v (floats bitwise), length multiple of 4, options byte = padding "
    "count established by the reference decoder; panics caught.",
    "every (type, value, representation) of the lattice; evaluations = cases",
    ["nesting bound 2, collections up to length 3, boundary value lattice (NOTES.md §2)", "maps, bitmasks, char16, nested collections not enumerated (todo!() in the serializer)"],
    (1_000_000, 1000)))
reg("C10", xc("exploration",
    "Same lattice as C09. (a) dust-dds bytes == reference bytes, else the strict reference decoder must read them back to v (legal "
    "alternative) or the smallest set of named deviations is reported; (b) reference bytes - canonical and legal alternatives dust-dds "
    "never produces (long headers, padded lengths, reordered / unknown members, LC variants, both list ends) - must decode in dust-dds to v.",
    "every (type, value, representation, encoding variation) of the lattice; evaluations = comparisons + decodings",
    ["reference = own reading of DDS-XTypes 1.3 (no other vendor installed)", "wstring length convention accepted either way"],
    (1_000_000, 1000)))
reg("C11", xc("exploration",
    "24 keyed shapes x outer extensibility (48 types, thorough 72) x ALL ORDERED PAIRS of lattice values: handle(a) == handle(b) iff the "
    "XTypes key holders are equal (key members only, recursively). End-to-end part (simcheck, added after seeded change C11-1): 5 types "
    "whose key members are not the leading members (final, appendable, mutable, two keys apart, string key) x reliable/best-effort, "
    "3 keys x {small sample = one DATA with key hash, 200-byte sample = DATA_FRAGs without key hash} x 2 payload contents + dispose: the "
    "handle in the reader's SampleInfo equals the handle register_instance returned on the writer.",
    "all ordered value pairs of every keyed type of the lattice; every sample of the end-to-end scenarios",
    ["key members capped at 8 lattice values, others 3", "end-to-end part without injected faults"], (100_000, 50), also=["simcheck"]))
reg("C12", xc("exploration",
    "Same keyed types, every value: instance handle == own key hash per 7.6.8 (zero padded when the MAXIMUM size of the key holder is <= 16, "
    "MD5 otherwise); a mismatch is explained by the smallest set of named deviations, each a finding.",
    "every value of every keyed type of the lattice; every user DATA submessage of the end-to-end scenarios (simcheck s_keys.rs: the "
    "PID_KEY_HASH dust-dds puts on the wire is the handle the writer assigned, and single-DATA samples carry one)",
    ["XCDR version and member order of the key stream are not fixed by the property: both accepted"], (1000, 30), also=["simcheck"]))
reg("C13", xc("exploration",
    "Field tables of the 4 announcement kinds with per-field boundary lattices: all-default + every single-field variation (thorough: every "
    "pair of variations), each put on the wire in 5 ways (LE/BE, defaults sent or omitted, reversed order) and with 5 unknown parameter ids "
    "spliced at every boundary: from_bytes succeeds and shows every announced value, from_bytes(into_bytes(x)) == x, unknown ids ignored.",
    "every assignment x wire form x splice position of the lattice",
    ["values enter through from_bytes of own bytes (the discovery structs cannot be constructed from outside the crate), hence octet "
     "sequences > 65 528 bytes are not reachable there; the end-to-end scenarios C13.audit[user-data,len=...] (simcheck) announce "
     "65 000 ... 70 000 octets of user data through the public API"],
    (10_000, 100), also=["simcheck"]))
reg("C39", xc("exploration",
    "5 base member lists x 3 extensibilities x 22 edits (thorough: all pairs of edits) x both directions x 3 type-consistency settings: "
    "reflexivity; dust-dds's assignability answer vs own reading of 7.2.4.4.8; for pairs assignable under the rules every writer value "
    "(XCDR1/XCDR2) must decode with the reader's type to the common members + defaults.",
    "every (writer type, reader type, setting, value, representation) of the lattice; evaluations = type pairs x settings; states = value decodings",
    ["struct types only (enum/union evolution not enumerated)"], (500, 100)))


# ---------------------------------------------------------------------------------------------------------
# E4 loomcheck
# ---------------------------------------------------------------------------------------------------------
LOOM_NOTE = ("Trusted: loom 0.7.2 (DPOR, C11 memory model for its own primitives), the critical_section implementation on loom "
             "primitives, the virtual std (vstd: one global loom mutex, per-thread condvars, virtual Instant advanced by a "
             "demand-driven clock thread) and, for C42, the build-time import rewriting of the two std_runtime source files "
             "(only `use` paths and tracing attributes; anything unanticipated is a build failure = machinery exit). "
             "`alloc::sync::Arc`/`RefCell` accesses are not instrumented by loom (they are only touched inside critical sections).")
LOOM_ASSUME = ["preemption-bounded (quick 3 / 2, thorough 4 / 3), not unbounded", "at most 3 producers, 2 concurrent sleeps, 5 threads (loom limit)",
               "virtual time: spontaneous clock ticks limited to the tick budget; no OS jitter"]

reg("C34", Spec(
    "loomcheck", "model_checking",
    "The unmodified oneshot.rs, mpsc.rs and notification.rs are compiled (by #[path]) against a loom-backed critical_section and "
    "explored by loom with preemption bound 3 (thorough 4) in 15 harnesses: oneshot {send || recv; drop-sender || recv; send-then-"
    "drop || recv re-polled with a new waker; mail request/reply}, mpsc {2 and 3 producers || consumer (FIFO per producer, exactly "
    "once); clone/drop while the consumer waits; all senders dropped}, notification {notify || wait; clone || drop || wait; last "
    "sender dropped; notify-then-drop}. Every violated oracle or loom deadlock (= lost wake-up) is a finding.",
    LOOM_NOTE, "stateless model checking of thread interleavings with loom (DPOR, preemption-bounded) on the unmodified sources",
    "DESIGN.md §4 C34, /verif/loomcheck/NOTES.md",
    "all interleavings with ≤ bound preemptions per harness; evaluations = loom iterations; distinct = distinct observed outcomes per harness",
    LOOM_ASSUME, floor=(10000, 8), timeout=(300, 7200), mem_gb=8))

reg("C42", Spec(
    "loomcheck", "model_checking",
    "timer.rs and executor.rs of the std runtime (imports rewritten at build time to a loom-backed virtual std with a virtual clock) are "
    "explored by loom with preemption bound 2 (thorough 3) and one (two) spontaneous clock tick(s) in 14 harnesses: one sleep; two "
    "sleeps with equal / inverted deadlines; sleep dropped before / after its first poll (counting waker); sleep re-polled with a "
    "new waker; block_timeout around a oneshot sent before / at / after the timeout and around a Sleep; block_on of a future "
    "completed by another thread; executor spawn/join; executor task that sleeps; sleep(Duration::MAX). Oracles: a sleep "
    "resolves only when virtual now ≥ deadline and does resolve; a dropped sleep is not woken after its cancel was processed; "
    "block_timeout returns Timeout only if the future was pending when the clock reached start+duration; block_on returns the output.",
    LOOM_NOTE, "stateless model checking of thread interleavings with loom (DPOR, preemption-bounded) on the import-rewritten sources",
    "DESIGN.md §4 C42, /verif/loomcheck/NOTES.md",
    "all interleavings with ≤ bound preemptions and ≤ tick budget per harness; evaluations = loom iterations; distinct = distinct observed outcomes",
    LOOM_ASSUME, floor=(10000, 8), timeout=(300, 7200), mem_gb=8))


# ---------------------------------------------------------------------------------------------------------
# E5 progcheck
# ---------------------------------------------------------------------------------------------------------
PROG_NOTE = ("Trusted: rustc/cargo, the python reference (XTypes 1.3 member-id rules incl. MD5 hashid via hashlib, README attribute "
             "language), the attribution of rustc diagnostics to declarations by file name (un-attributable errors are machinery "
             "errors), the public DynamicType accessors used to dump the description. Every generated module prints a hash of its "
             "declaration text, a mismatch (stale binary) is a machinery error. See /verif/progcheck/NOTES.md for the grammar, the "
             "excluded corners (probed, reported under extra.excluded_probes) and accepted alternatives.")

reg("C40", Spec(
    "progcheck", "exploration",
    "All declarations of a grammar of #[derive(DdsType)] types (quick 594: structs with 1-3 members over 14 member types x 4 "
    "extensibilities x all legal attribute subsets {key, optional, id, hashid, non_serialized, default_value}, split attributes, "
    "container attributes, enums x bit_bound x discriminant shapes, unions x discriminator types x case/default shapes; thorough "
    "4280 incl. tuple structs and 24 member types) are compiled against /repo's dust_dds in one generated crate; each module dumps "
    "the published DynamicType through the public accessors and round-trips every value of a boundary value lattice through "
    "create_dynamic_sample/create_sample under catch_unwind. Compared with a python reference description.",
    PROG_NOTE, "bounded-exhaustive enumeration of programs (type declarations x value lattice) against a reference description",
    "DESIGN.md §4 C40, /verif/progcheck/NOTES.md",
    "every declaration of the grammar, every value of the per-declaration value product; evaluations = description + round-trip checks",
    ["grammar bound: <= 3 members, listed member types and attribute subsets; NaN excluded (PartialEq)",
     "illegal combinations excluded (NOTES.md): key+optional, id+hashid, Option<T> without optional, ...",
     "automatic id after a hashid member: XTypes numbering or the derive's documented-in-code numbering both accepted"],
    shards=(1, 1), timeout=(600, 3600), mem_gb=24, floor=(1000, 20)))

reg("C41", Spec(
    "progcheck", "exploration",
    "All IDL specifications of a grammar (quick 319, thorough 705: structs x extensibility x 12 annotation sets, 40 member types "
    "incl. all primitive spellings, strings, sequences, arrays, references, modules, multi-declarators, enums x bit_bound, unions "
    "x 10 switch types, typedef chains, inheritance, constants) are compiled by dust_dds_gen::compile_idl in the build script of a "
    "generated crate (catch_unwind per file), the output is compiled against dust_dds, and each type's published description "
    "(names, member kinds, bounds, keys, ids, extensibility, enumerator values, union labels) is compared with a python "
    "reference computed from the IDL AST.",
    PROG_NOTE, "bounded-exhaustive enumeration of programs (IDL specifications) against a reference description",
    "DESIGN.md §4 C41, /verif/progcheck/NOTES.md",
    "every specification of the grammar; evaluations = specifications checked",
    ["grammar bound per NOTES.md; excluded IDL corners (map, fixed, long double, any, bitset, bitmask, ...) are probed and listed, never findings",
     "octet reported as UINT8 accepted; un-annotated types are Final (dust-dds mapping) not compared"],
    shards=(1, 1), timeout=(600, 3600), mem_gb=24, floor=(300, 20)))


# ---------------------------------------------------------------------------------------------------------
# MANIFEST
# ---------------------------------------------------------------------------------------------------------
def gen_manifest():
    props = [json.loads(l) for l in open(os.path.join(VERIF, "properties.jsonl"))]
    na_path = os.path.join(VERIF, "lib", "not_applicable.json")
    na = json.load(open(na_path)) if os.path.exists(na_path) else {}
    checks = []
    for p in props:
        pid = p["id"]
        s = CHECKS.get(pid)
        if not s:
            continue
        checks.append({
            "property_id": pid,
            "quick_cmd": f"./check {pid} --tier quick",
            "thorough_cmd": f"./check {pid} --tier thorough",
            "evidence_file": f"/verif/evidence/{pid}.json",
            "replay_cmd_template": f"./check {pid} --replay {{path}}",
            "engine": s.engine,
            "level_claimed": {"category": s.level, "text": s.text, "design_ref": s.design_ref},
            "level_note": s.note,
            "technique": s.technique,
        })
    not_app = []
    for p in props:
        if p["id"] not in CHECKS:
            not_app.append({"property_id": p["id"],
                            "reason": na.get(p["id"], "check not built yet in this session; planned engine in DESIGN.md §1")})
    hooks_commits = subprocess.run(["git", "-C", "/repo", "log", "--format=%h %s", "--grep=^verif hook"],
                                   capture_output=True, text=True).stdout.strip().splitlines()
    man = {
        "version": 1,
        "setup_cmd": "./check setup",
        "hooks": {
            "guard": "--cfg dust_dds_verif",
            "enable": "RUSTFLAGS='--cfg dust_dds_verif --cap-lints allow' (fixed in /verif/harness/.cargo/config.toml; "
                      "the harness crates depend on /repo/dds by path, so every check rebuilds from /repo's working tree)",
            "baseline_off_cmd": "/verif/lib/baseline.sh /repo   # the BASELINE.json command (nextest, guard off) in a private "
                                "network namespace, compared with BASELINE.json stable_pass; BASELINE_THREADS=1 for a loaded machine",
            "source_commits": [c.split()[0] for c in hooks_commits],
            "add_only": True,
        },
        "engines": [{"name": k, "path": f"/verif/{v['workspace']}", "kind_free_text": v["kind"],
                     "serves_properties": [pid for pid, s in CHECKS.items() if s.engine == k or k in s.also]}
                    for k, v in ENGINES.items()],
        "checks": checks,
        "not_applicable": not_app,
        "notes": "Exit codes: 0 held / only listed known findings; 1 unlisted violation; 2 machinery failure (never a "
                 "verdict). Known findings: /verif/known_findings.json (never written at run time).",
    }
    json.dump(man, open(os.path.join(VERIF, "MANIFEST.json"), "w"), indent=1)
    print(f"MANIFEST.json: {len(checks)} checks, {len(not_app)} not_applicable")
    return 0


def setup():
    """Build every engine once (offline)."""
    rc = 0
    seen = set()
    for pid, s in CHECKS.items():
        e = ENGINES[s.engine]
        key = (e["workspace"], e["package"])
        if key in seen or e["package"] is None:
            continue
        seen.add(key)
        try:
            vcommon.build(*key)
        except vcommon.Machinery as ex:
            vcommon.log(f"setup: {ex}")
            rc = 2
    return rc
