#!/bin/bash
# check_seeds_apply.sh: every /verif/seeded/*/patch.diff must apply to /repo's current tree (git apply --check)
rc=0
for d in /verif/seeded/*/; do git -C /repo apply --check $d/patch.diff 2>/dev/null || { echo "NOAPPLY $(basename $d)"; rc=1; }; done
exit $rc
