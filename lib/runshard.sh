#!/bin/bash
# debugging helper: run one engine binary as a single shard and summarise the result
BIN=$1; ID=$2; TIER=${3:-quick}
( ulimit -v 8000000; timeout 900 ./target/harness/release/$BIN $ID --tier $TIER --shard 0/1 ) | python3 -c "
import json,sys
r=json.load(sys.stdin)
print({k:v for k,v in r.items() if k not in('distinct','samples','findings','extra')}, 'distinct',len(r['distinct']))
occ=r['extra'].get('finding_occurrences',{})
for f in r['findings']: print('  FINDING',f['sig'], occ.get(f['sig']), '|', json.dumps(f['replay'])[:300], '|', f['detail'][:500])
e=r['extra']; print({k:e[k] for k in e if k not in ('scenarios','finding_occurrences','groups')})
for s in e.get('scenarios',[]): print('   ',s)
"
