#!/usr/bin/env python3
"""Validate MANIFEST.json and all evidence files against the schemas (uses the tooling venv's jsonschema)."""
import json, glob, sys
import jsonschema
ok = True
try:
    jsonschema.validate(json.load(open('/verif/MANIFEST.json')), json.load(open('/root/.vp/MANIFEST.schema.json')))
except Exception as e:
    print("MANIFEST invalid:", e); ok = False
es = json.load(open('/root/.vp/EVIDENCE.schema.json'))
for f in sorted(glob.glob('/verif/evidence/*.json')):
    try:
        jsonschema.validate(json.load(open(f)), es)
    except Exception as e:
        print(f, "invalid:", str(e)[:300]); ok = False
print("valid" if ok else "INVALID")
sys.exit(0 if ok else 1)
