#!/bin/bash
# Runs the repository's pinned test suite with the verification guard OFF and compares with BASELINE.json's
# stable_pass list. Usage: baseline.sh [repo_dir]   (default /repo). Exit 0 iff every stable test passed.
REPO=${1:-/repo}
# The integration tests open UDP sockets on fixed domain ids and cross-talk with anything else on this machine that runs
# dust-dds (other checks, other test runs): run inside a private network namespace when that is possible.
if [ -z "$BASELINE_IN_NS" ] && unshare -rn true 2>/dev/null; then
  export BASELINE_IN_NS=1
  exec unshare -rn sh -c "ip link set lo up; exec \"$0\" \"$REPO\""
fi
cd "$REPO" || exit 2
unset RUSTFLAGS
export CARGO_NET_OFFLINE=true
OUT=$(mktemp -d)
cargo nextest run --workspace --no-fail-fast --tool-config-file pb:/w/lib/nextest.toml --profile pb --test-threads ${BASELINE_THREADS:-8} --offline > "$OUT/log" 2>&1
J=$(find "$REPO/target/nextest/pb" -name junit.xml | head -1)
python3 - "$J" <<'PY'
import json, sys, xml.etree.ElementTree as ET
stable = set(json.load(open('/root/.vp/BASELINE.json'))['stable_pass'])
t = ET.parse(sys.argv[1])
res = {}
for tc in t.iter('testcase'):
    cls = tc.get('classname'); name = tc.get('name')
    full = f"{cls}::{name}" if not name.startswith(cls) else name
    ok = tc.find('failure') is None and tc.find('error') is None
    res[name] = ok; res[full] = ok
def norm(s): return s.replace('-', '_')
keys = {norm(k): v for k, v in res.items()}
missing, failed = [], []
for s in stable:
    crate, _, rest = s.partition('::')
    cands = [s, rest, norm(s), norm(rest)]
    hit = None
    for c in cands:
        for k, v in keys.items():
            if k == c or k.endswith('::' + c) or k.endswith(c):
                hit = v if hit is None else (hit and v)
        if hit is not None: break
    if hit is None: missing.append(s)
    elif not hit: failed.append(s)
print(f"stable={len(stable)} failed={len(failed)} not_found={len(missing)}")
for f in failed: print("FAILED", f)
for m in missing[:10]: print("NOTFOUND", m)
sys.exit(1 if failed or missing else 0)
PY
RC=$?
rm -rf "$OUT"
exit $RC
