//! E1 simcheck: deterministic full-stack simulation + exhaustive deviation-bounded exploration.
mod dds;
mod explore;
mod sim;
mod wire;

mod s_acks;
mod s_api;
mod s_audit;
mod s_bytes;
mod s_delivery;
mod s_events;
mod s_keys;
mod s_match;
mod s_qos;
mod s_timing;

use vutil::{Args, Report};

fn scenarios(id: &str, args: &Args) -> Option<Vec<explore::Scenario>> {
    // fixed end-to-end histories that belong to the property (also for properties whose main engine is another one)
    let extra = s_audit::extra(id);
    let main = scenarios_main(id, args);
    // debugging aid: SIM_ONLY=<substring> restricts the run to the scenarios whose name contains it
    if let Ok(only) = std::env::var("SIM_ONLY") {
        let mut v: Vec<explore::Scenario> = main.unwrap_or_default();
        v.extend(extra);
        v.retain(|s| s.name.contains(&only));
        return Some(v);
    }
    match (main, extra.is_empty()) {
        (None, true) => None,
        (None, false) => Some(extra),
        (Some(mut v), _) => {
            v.extend(extra);
            Some(v)
        }
    }
}

fn scenarios_main(id: &str, args: &Args) -> Option<Vec<explore::Scenario>> {
    Some(match id {
        "C01" => s_delivery::c01(args),
        "C02" => s_delivery::c02(args),
        "C03" => s_acks::c03(args),
        "C04" => s_acks::c04(args),
        "C05" => s_delivery::c05(args),
        "C11" => s_keys::c11(args),
        "C12" => s_keys::c12(args),
        "C15" => s_qos::c15(args),
        "C16" => s_match::c16(args),
        "C17" => s_match::c17(args),
        "C26" => s_events::c26(args),
        "C27" => s_timing::c27(args),
        "C28" => s_api::c28(args),
        "C29" => s_timing::c29(args),
        "C30" => s_timing::c30(args),
        "C31" => s_timing::c31(args),
        "C32" => s_events::c32(args),
        "C33" => s_events::c33(args),
        "C35" => s_api::c35(args),
        "C36" => s_api::c36(args),
        "C37" => s_api::c37(args),
        _ => return None,
    })
}

#[global_allocator]
static ALLOC: s_bytes::Counting = s_bytes::Counting;

fn main() {
    // panics inside explored executions are caught and reported as findings; keep stderr quiet
    std::panic::set_hook(Box::new(|_| {}));
    let args = Args::parse();
    let mut rep = Report::new();
    if args.id == "C06" || args.id == "C07" {
        if let Some(path) = &args.replay {
            let v = vutil::read_replay(path);
            std::process::exit(if s_bytes::replay(&args.id, &v) { 0 } else { 1 });
        }
        let t0 = std::time::Instant::now();
        let mut rep = s_bytes::run(&args, &args.id);
        rep.set("max_shard_wall_ms", vutil::serde_json::json!(t0.elapsed().as_millis() as u64));
        rep.write(&args);
        return;
    }
    let Some(scen) = scenarios(&args.id, &args) else {
        rep.machinery_error = Some(format!("simcheck: unknown check {}", args.id));
        rep.write(&args);
        return;
    };
    if let Some(path) = &args.replay {
        let v = vutil::read_replay(path);
        let ok = explore::replay(scen, &v);
        std::process::exit(if ok { 0 } else { 1 });
    }
    let t0 = std::time::Instant::now();
    if args.id == "C15" {
        s_qos::function_level(&args, &mut rep);
    }
    explore::explore(&args, &mut rep, scen);
    rep.set("max_shard_wall_ms", vutil::serde_json::json!(t0.elapsed().as_millis() as u64));
    rep.write(&args);
}
