//! C01 (reliable delivery), C02 (best-effort safety), C05-e2e (fragment reassembly) scenarios.
use crate::dds::*;
use crate::explore::Scenario;
use crate::sim::{Ctx, FATES_FULL, MS, SEC};
use std::collections::BTreeMap;
use std::rc::Rc;
use vutil::Args;

#[derive(Clone)]
pub struct Params {
    pub name: String,
    pub writes: Vec<(u8, usize)>, // (instance id, payload length)
    pub gap_ms: i64,
    pub w_hist: HistoryQosPolicyKind,
    pub w_reliable: bool,
    pub r_reliable: bool,
    pub frag: usize,
    pub w_block_ms: Option<u64>,
    pub settle_ms: i64,
}

fn hist_name(h: &HistoryQosPolicyKind) -> String {
    match h {
        HistoryQosPolicyKind::KeepAll => "KA".into(),
        HistoryQosPolicyKind::KeepLast(d) => format!("KL{d}"),
    }
}

async fn delivery(ctx: Ctx, p: Rc<Params>) {
    let f = ctx.factory("", None);
    let n1 = node::<KeyedData>(&f, 0, "T").await;
    let n2 = node::<KeyedData>(&f, 0, "T").await;
    let mut wq = reliable_w(p.w_hist, p.w_block_ms);
    if !p.w_reliable {
        wq.reliability.kind = ReliabilityQosPolicyKind::BestEffort;
    }
    let rq = if p.r_reliable { reliable_r(HistoryQosPolicyKind::KeepAll) } else { best_effort_r(HistoryQosPolicyKind::KeepAll) };
    let w = n1.publisher.create_datawriter::<KeyedData>(&n1.topic, QosKind::Specific(wq), NO_LISTENER, NO_STATUS).await.expect("writer");
    let r = n2.subscriber.create_datareader::<KeyedData>(&n2.topic, QosKind::Specific(rq), NO_LISTENER, NO_STATUS).await.expect("reader");
    if !wait_pub_matched(&ctx, &w, 1, 3000).await || !wait_sub_matched(&ctx, &r, 1, 3000).await {
        ctx.violation("setup/no-match", "writer and reader did not match within 3 s on a perfect network");
        return;
    }
    ctx.set_window(user_window());
    ctx.open_window();

    let mut written: Vec<(u8, u32, usize)> = vec![];
    let mut got: Vec<(u8, u32)> = vec![];
    let mut last_seq: BTreeMap<u8, u32> = BTreeMap::new();
    let check = |ctx: &Ctx, s: &Sample<KeyedData>, got: &mut Vec<(u8, u32)>, last_seq: &mut BTreeMap<u8, u32>, written: &Vec<(u8, u32, usize)>| {
        let Some(d) = &s.data else {
            ctx.violation("unexpected-invalid-sample", format!("sample without data: {:?}", s.sample_info));
            return;
        };
        ctx.obs(format!("take id={} seq={} len={} t={}", d.id, d.seq, d.value.len(), ctx.ms()));
        match written.iter().find(|w| w.1 == d.seq) {
            None => ctx.violation("unknown-sample", format!("reader presented seq {} which was never (successfully) written", d.seq)),
            Some(w) => {
                if w.0 != d.id || d.value != pattern(d.seq, w.2) {
                    ctx.violation("corrupt", format!("seq {} id {} len {} differs from what was written (id {} len {})", d.seq, d.id, d.value.len(), w.0, w.2));
                }
            }
        }
        if got.contains(&(d.id, d.seq)) {
            ctx.violation("duplicate", format!("seq {} of instance {} presented twice", d.seq, d.id));
        }
        if let Some(l) = last_seq.get(&d.id) {
            if *l >= d.seq {
                ctx.violation("order", format!("instance {}: seq {} presented after seq {}", d.id, d.seq, l));
            }
        }
        last_seq.insert(d.id, d.seq);
        got.push((d.id, d.seq));
    };

    let mut last_write = ctx.now();
    for (i, (id, len)) in p.writes.iter().enumerate() {
        match w.write(sample(*id, i as u32, *len), None).await {
            Ok(()) => written.push((*id, i as u32, *len)),
            Err(DdsError::Timeout) => ctx.obs(format!("write {i} timeout")),
            Err(e) => ctx.violation("write-error", format!("write {i} failed with {e:?}")),
        }
        last_write = ctx.now();
        if p.gap_ms > 0 {
            ctx.sleep_ms(p.gap_ms).await;
            for s in take_all(&r).await {
                check(&ctx, &s, &mut got, &mut last_seq, &written);
            }
        }
    }
    // what the writer still holds: last `depth` successful writes per instance
    let mut expected: Vec<(u8, u32)> = vec![];
    let ids: Vec<u8> = { let mut v: Vec<u8> = written.iter().map(|w| w.0).collect(); v.sort(); v.dedup(); v };
    for id in ids {
        let mut of: Vec<u32> = written.iter().filter(|w| w.0 == id).map(|w| w.1).collect();
        if let HistoryQosPolicyKind::KeepLast(d) = p.w_hist {
            let k = of.len().saturating_sub(d as usize);
            of.drain(..k);
        }
        expected.extend(of.into_iter().map(|s| (id, s)));
    }
    loop {
        for s in take_all(&r).await {
            check(&ctx, &s, &mut got, &mut last_seq, &written);
        }
        if expected.iter().all(|e| got.contains(e)) {
            break;
        }
        let quiet_since = ctx.last_deviation_time().max(last_write);
        if ctx.now() - quiet_since > 3 * SEC {
            if p.r_reliable && p.w_reliable {
                let missing: Vec<_> = expected.iter().filter(|e| !got.contains(e)).collect();
                ctx.violation("not-delivered", format!("3 s after the network healed the reader still misses {missing:?} (written {written:?}, got {got:?})"));
            }
            break;
        }
        ctx.sleep_ms(20).await;
    }
    // late duplicates / stragglers
    ctx.sleep_ms(p.settle_ms).await;
    for s in take_all(&r).await {
        check(&ctx, &s, &mut got, &mut last_seq, &written);
    }
    ctx.count("samples_presented", got.len() as u64);
    ctx.obs(format!("final got={got:?}"));
}

fn post_repair_counters(out: &crate::sim::RunOutcome, _v: &mut Vec<(String, String)>) {
    // nothing to judge; counters are computed in `stats` below (kept separate to stay cheap)
    let _ = out;
}

fn mk(p: Params, bound: usize, thorough: bool) -> Scenario {
    let name = p.name.clone();
    let frag = p.frag;
    let p = Rc::new(p);
    Scenario::new(name, bound, move |ctx| delivery(ctx, p.clone()))
        .cfg(|c| {
            c.fragment_size = frag;
            c.horizon_ms = 30_000;
            if thorough {
                c.fates = FATES_FULL;
            }
        })
        .post(post_repair_counters)
}

fn base(name: &str, writes: Vec<(u8, usize)>) -> Params {
    Params {
        name: name.into(),
        writes,
        gap_ms: 0,
        w_hist: HistoryQosPolicyKind::KeepAll,
        w_reliable: true,
        r_reliable: true,
        frag: 1344,
        w_block_ms: Some(100),
        settle_ms: 450,
    }
}

pub fn c01(args: &Args) -> Vec<Scenario> {
    let t = args.thorough();
    // deviation bounds (quick, thorough): the back-to-back small-sample scenario is the cheapest per execution and gets the
    // deepest bound
    let b = if t { 4 } else { 3 };
    let b2 = if t { 3 } else { 2 };
    let mut v = vec![];
    let f = 64usize;
    // small samples, one and two instances, back-to-back and spaced around the poke/heartbeat periods
    for gap in [0i64, 60, 250] {
        let mut p = base(&format!("C01.small[gap={gap}]"), vec![(1, 10), (1, 11), (2, 12)]);
        p.gap_ms = gap;
        v.push(mk(p, if gap == 0 { b } else { b2 }, t));
    }
    // fragmented samples: sizes around multiples of the fragment size
    for (tag, sizes) in [("2f+1", vec![(1u8, 2 * f + 1), (1, 10)]), ("f-1,f,f+1", vec![(1, f - 30), (1, f - 29), (1, f - 28)]), ("3f", vec![(1, 3 * f - 20), (2, 8)])] {
        let mut p = base(&format!("C01.frag[{tag}]"), sizes);
        p.frag = f;
        v.push(mk(p, b2, t));
    }
    // KEEP_LAST writers
    for d in [1u32, 2] {
        let mut p = base(&format!("C01.keeplast[depth={d}]"), vec![(1, 10), (1, 11), (1, 12), (2, 13)]);
        p.w_hist = HistoryQosPolicyKind::KeepLast(d);
        p.gap_ms = 0;
        v.push(mk(p, b2, t));
    }
    if t {
        // longer histories at a lower bound
        let mut p = base("C01.small[gap=0,writes=5]", vec![(1, 10), (1, 11), (2, 12), (1, 13), (2, 14)]);
        p.gap_ms = 0;
        v.push(mk(p, 2, t));
        let mut p = base("C01.frag[4f+1,f]", vec![(1, 4 * f + 1), (2, f - 28), (1, 9)]);
        p.frag = f;
        v.push(mk(p, 2, t));
    }
    v
}

pub fn c02(args: &Args) -> Vec<Scenario> {
    let t = args.thorough();
    let b = if t { 6 } else { 4 };
    let b2 = if t { 5 } else { 3 };
    let f = 64usize;
    let mut v = vec![];
    for w_rel in [true, false] {
        let mut p = base(&format!("C02.small[wrel={w_rel}]"), vec![(1, 10), (1, 11), (2, 12)]);
        p.r_reliable = false;
        p.w_reliable = w_rel;
        v.push(mk(p, b, t));
        // fragmented sample followed by small ones: fragments interleave with later DATA
        let mut p = base(&format!("C02.frag[wrel={w_rel}]"), vec![(1, 2 * f + 1), (1, 10), (1, f + 40)]);
        p.r_reliable = false;
        p.w_reliable = w_rel;
        p.frag = f;
        v.push(mk(p, b2, t));
        // more and larger samples
        let mut p = base(&format!("C02.mixed[wrel={w_rel}]"), vec![(1, 3 * f + 5), (2, 2 * f), (1, 10), (2, f - 28), (1, 11)]);
        p.r_reliable = false;
        p.w_reliable = w_rel;
        p.frag = f;
        v.push(mk(p, b2 - 1, t));
        for gap in [60i64, 250] {
            let mut p = base(&format!("C02.small[wrel={w_rel},gap={gap}]"), vec![(1, 10), (1, 11), (2, 12)]);
            p.r_reliable = false;
            p.w_reliable = w_rel;
            p.gap_ms = gap;
            v.push(mk(p, b2, t));
        }
    }
    let _ = (MS, hist_name(&HistoryQosPolicyKind::KeepAll));
    v
}

// ---------------------------------------------------------------------------------------------------------------
// C05: fragment reassembly for any size under all fragment-level fault patterns
// ---------------------------------------------------------------------------------------------------------------
fn permutations(n: usize) -> Vec<Vec<usize>> {
    fn rec(cur: &mut Vec<usize>, used: &mut Vec<bool>, n: usize, out: &mut Vec<Vec<usize>>) {
        if cur.len() == n {
            out.push(cur.clone());
            return;
        }
        for i in 0..n {
            if !used[i] {
                used[i] = true;
                cur.push(i);
                rec(cur, used, n, out);
                cur.pop();
                used[i] = false;
            }
        }
    }
    let mut out = vec![];
    rec(&mut vec![], &mut vec![false; n], n, &mut out);
    out
}

/// serialized size of KeyedData{id, seq, value[len]} = 4 (encapsulation) + 1 + 3 + 4 + 4 + len, padded to 4
fn value_len_for_serialized(total: usize) -> Option<usize> {
    if total < 16 + 1 || total % 4 != 0 {
        return None;
    }
    Some(total - 16)
}

async fn fragments(ctx: Ctx, frag: usize, value_lens: Vec<usize>, reliable: bool) {
    let f = ctx.factory("", None);
    let n1 = node::<KeyedData>(&f, 0, "T").await;
    let n2 = node::<KeyedData>(&f, 0, "T").await;
    let mut wq = reliable_w(HistoryQosPolicyKind::KeepAll, Some(100));
    let rq = if reliable { reliable_r(HistoryQosPolicyKind::KeepAll) } else { best_effort_r(HistoryQosPolicyKind::KeepAll) };
    if !reliable {
        wq.reliability.kind = ReliabilityQosPolicyKind::BestEffort;
    }
    let w = n1.publisher.create_datawriter::<KeyedData>(&n1.topic, QosKind::Specific(wq), NO_LISTENER, NO_STATUS).await.expect("writer");
    let r = n2.subscriber.create_datareader::<KeyedData>(&n2.topic, QosKind::Specific(rq), NO_LISTENER, NO_STATUS).await.expect("reader");
    if !wait_pub_matched(&ctx, &w, 1, 3000).await || !wait_sub_matched(&ctx, &r, 1, 3000).await {
        ctx.violation("setup/no-match", "no match");
        return;
    }
    // capture the first transmission of every user DATA / DATA_FRAG datagram instead of delivering it
    let stash: Rc<std::cell::RefCell<Vec<Vec<u8>>>> = Rc::new(std::cell::RefCell::new(vec![]));
    let st = stash.clone();
    crate::sim::with(|wd| {
        wd.net.filter = Some(Box::new(move |d, m| {
            let hit = d.src == 0 && d.dst == 1 && !d.meta && m.subs.iter().any(|s| (s.id == crate::wire::DATA_FRAG || s.id == crate::wire::DATA) && crate::wire::is_user_entity(&s.writer));
            if hit {
                st.borrow_mut().push(d.bytes.as_ref().clone());
            }
            hit
        }))
    });
    for (i, len) in value_lens.iter().enumerate() {
        w.write(sample(1 + i as u8, i as u32, *len), None).await.expect("write");
    }
    ctx.sleep_ms(1).await;
    crate::sim::with(|wd| wd.net.filter = None);
    let datagrams: Vec<Vec<u8>> = stash.borrow().clone();
    let k = datagrams.len();
    ctx.obs(format!("frag={frag} lens={value_lens:?} datagrams={k}"));
    // fate of every captured datagram and the delivery order: all enumerated
    let fates: Vec<usize> = (0..k).map(|_| ctx.choose(b'N', 3)).collect(); // 0 deliver, 1 drop, 2 duplicate
    // up to 4 datagrams (5 in the thorough tier): every arrival order; beyond: in order, reversed, stride 2, and a riffle of the
    // two halves (with two samples: their fragments alternate)
    let thorough = std::env::args().any(|a| a == "thorough");
    let perms = if k <= 4 || (k <= 5 && thorough && value_lens.len() > 1) {
        permutations(k)
    } else {
        let h = (k + 1) / 2;
        vec![(0..k).collect(), (0..k).rev().collect(), (0..k).map(|i| (i * 2) % k + (if i * 2 >= k && k % 2 == 0 { 1 } else { 0 })).collect(), (0..k).map(|i| if i % 2 == 0 { i / 2 } else { h + i / 2 }).collect()]
    };
    let order = &perms[ctx.choose(b'N', perms.len())];
    let mut order_ok = order.clone();
    order_ok.sort();
    order_ok.dedup();
    let order: Vec<usize> = if order_ok.len() == k { order.clone() } else { (0..k).collect() };
    for &i in &order {
        match fates[i] {
            0 => ctx.inject(1, datagrams[i].clone()),
            1 => {}
            _ => {
                ctx.inject(1, datagrams[i].clone());
                ctx.inject(1, datagrams[i].clone());
            }
        }
    }
    let any_dropped = fates.iter().any(|f| *f == 1);
    // best-effort, nothing dropped: every fragment of every sample arrives. A best-effort reader never goes back, so a sample
    // may be given up once a later one has been completed; a sample completed before every later one must be presented -
    // whatever fragments of other samples arrive in between
    let mut must_deliver: Vec<u32> = vec![];
    if !reliable && !any_dropped {
        let mut completed_at: std::collections::BTreeMap<i64, usize> = Default::default();
        for (pos, &i) in order.iter().enumerate() {
            let m = crate::wire::parse(&datagrams[i]);
            for sm in m.subs.iter().filter(|s| s.id == crate::wire::DATA_FRAG || s.id == crate::wire::DATA) {
                let e = completed_at.entry(sm.sn).or_insert(pos);
                *e = (*e).max(pos);
            }
        }
        for (sn, c) in &completed_at {
            if completed_at.iter().all(|(sn2, c2)| sn2 <= sn || c2 > c) {
                must_deliver.push((*sn - 1) as u32);
            }
        }
    }
    let start = ctx.now();
    let mut got: Vec<u32> = vec![];
    loop {
        for s in take_all(&r).await {
            let Some(d) = s.data else { continue };
            let Some(len) = value_lens.get(d.seq as usize) else {
                ctx.violation("unknown-sample", format!("seq {}", d.seq));
                continue;
            };
            if d.value != pattern(d.seq, *len) || d.id != 1 + d.seq as u8 {
                let first_bad = d.value.iter().zip(pattern(d.seq, *len).iter()).position(|(a, b)| a != b);
                ctx.violation(
                    format!("payload-corrupt/{}", if d.value.len() != *len { "length" } else { "content" }),
                    format!("frag={frag} written value len {len}, presented len {}, first differing byte {first_bad:?}; fates={fates:?} order={order:?}", d.value.len()),
                );
            }
            if got.contains(&d.seq) {
                ctx.violation("duplicate", format!("seq {} presented twice; fates={fates:?} order={order:?}", d.seq));
            }
            ctx.obs(format!("take seq={} len={} t={} fates={fates:?} order={order:?}", d.seq, d.value.len(), ctx.ms()));
            got.push(d.seq);
        }
        if got.len() == value_lens.len() {
            break;
        }
        if ctx.now() - start > 3 * SEC {
            if reliable {
                ctx.violation(format!("not-delivered/{}", if any_dropped { "after-loss" } else { "reorder-or-duplicate-only" }), format!("frag={frag} lens={value_lens:?}: got {got:?} after 3 s; fates={fates:?} order={order:?}"));
            } else if !any_dropped && fates.iter().all(|f| *f == 0) && order.windows(2).all(|w| w[0] < w[1]) {
                ctx.violation("not-delivered/best-effort-no-fault", format!("frag={frag} lens={value_lens:?}: got {got:?}"));
            } else if must_deliver.iter().any(|x| !got.contains(x)) {
                ctx.violation("not-delivered/best-effort-all-fragments-arrived", format!("frag={frag} lens={value_lens:?}: every fragment arrived (fates={fates:?} order={order:?}), samples {must_deliver:?} were complete before any later sample, presented {got:?}"));
            }
            break;
        }
        ctx.sleep_ms(20).await;
    }
    ctx.sleep_ms(450).await;
    for s in take_all(&r).await {
        if let Some(d) = s.data {
            if got.contains(&d.seq) {
                ctx.violation("duplicate", format!("seq {} presented twice (late); fates={fates:?} order={order:?}", d.seq));
            }
        }
    }
}

/// one reliable sample of `n` fragments; on their first transmission the fragments are delivered according to `keep`
/// (0 only #1, 1 all but the last, 2 all but #257, 3 the odd ones, 4 none), everything afterwards is delivered
async fn many_fragments(ctx: Ctx, n: usize, keep: u8) {
    let f = ctx.factory("", None);
    let n1 = node::<KeyedData>(&f, 0, "T").await;
    let n2 = node::<KeyedData>(&f, 0, "T").await;
    let w = n1.publisher.create_datawriter::<KeyedData>(&n1.topic, QosKind::Specific(reliable_w(HistoryQosPolicyKind::KeepAll, Some(100))), NO_LISTENER, NO_STATUS).await.expect("writer");
    let r = n2.subscriber.create_datareader::<KeyedData>(&n2.topic, QosKind::Specific(reliable_r(HistoryQosPolicyKind::KeepAll)), NO_LISTENER, NO_STATUS).await.expect("reader");
    if !wait_pub_matched(&ctx, &w, 1, 3000).await || !wait_sub_matched(&ctx, &r, 1, 3000).await {
        ctx.violation("setup/no-match", "no match");
        return;
    }
    let seen: Rc<std::cell::RefCell<std::collections::BTreeSet<u32>>> = Rc::new(std::cell::RefCell::new(Default::default()));
    let s2 = seen.clone();
    let total = n as u32;
    crate::sim::with(|wd| {
        wd.net.filter = Some(Box::new(move |d, m| {
            if d.src != 0 || d.dst != 1 || d.meta {
                return false;
            }
            let Some(sub) = m.subs.iter().find(|s| s.id == crate::wire::DATA_FRAG && crate::wire::is_user_entity(&s.writer)) else { return false };
            let k = sub.frag_start;
            let first_time = s2.borrow_mut().insert(k);
            if !first_time {
                return false;
            }
            let deliver = match keep {
                0 => k == 1,
                1 => k != total,
                2 => k != 257,
                3 => k % 2 == 1,
                _ => false,
            };
            !deliver
        }))
    });
    // serialized size = 16 + len (see value_len_for_serialized): n fragments of 8 bytes
    let len = n * 8 - 16;
    let s = sample(1, 7, len);
    if w.write(s.clone(), None).await.is_err() {
        ctx.violation("many-fragments/write-failed", "write");
        return;
    }
    let ok = poll_until(&ctx, 50, 20_000, || async { !read_all(&r).await.is_empty() }).await;
    let got = take_all(&r).await;
    if !ok || got.len() != 1 {
        ctx.violation(format!("many-fragments/not-delivered/keep={keep}"), format!("{n} fragments, {} distinct fragments transmitted at least once, {} samples presented after 20 s", seen.borrow().len(), got.len()));
        return;
    }
    if got[0].data.as_ref() != Some(&s) {
        ctx.violation(format!("many-fragments/payload-corrupt/keep={keep}"), "the presented sample differs from the written one");
    }
}

pub fn c05(args: &Args) -> Vec<Scenario> {
    let t = args.thorough();
    let mut v = vec![];
    let frags: Vec<usize> = if t { vec![8, 9, 10, 12, 16, 63, 64, 65, 1344, 64_999, 65_000] } else { vec![8, 12, 64, 65, 1344, 65_000] };
    for &f in &frags {
        for kk in 1..=4usize {
            if f > 2000 && kk > if t { 3 } else { 2 } {
                continue;
            }
            for delta in [-4i64, 0, 4] {
                // total serialized size around k*f (the serialized sample is always a multiple of 4 bytes)
                let total = ((kk * f) as i64 + delta).max(20);
                let total = (total as usize + 3) / 4 * 4;
                let Some(len) = value_len_for_serialized(total) else { continue };
                for reliable in [true, false] {
                    if !reliable && !t && f != 64 && f != 12 {
                        continue;
                    }
                    v.push(Scenario::new(format!("C05.frag[f={f},k={kk},delta={delta},len={len},rel={reliable}]"), 99, move |ctx| fragments(ctx, f, vec![len], reliable)).cfg(|c| {
                        c.fragment_size = f;
                        c.horizon_ms = 30_000;
                    }));
                }
            }
        }
    }
    // samples with more fragments than a fragment-number set can name (256): loss patterns that leave a missing fragment
    // beyond the first 256 (the reader's NACK_FRAG construction indexed out of bounds before the C06 fix)
    for (tag, keep) in [("only-first", 0u8), ("all-but-last", 1), ("all-but-257", 2), ("every-other", 3), ("none", 4)] {
        v.push(Scenario::new(format!("C05.many-fragments[f=8,n=300,first-transmission={tag}]"), 0, move |ctx| many_fragments(ctx, 300, keep)).cfg(|c| {
            c.fragment_size = 8;
            c.horizon_ms = 60_000;
            c.step_cap = 20_000_000;
        }));
    }
    // two fragmented samples whose fragments interleave (3 fixed interleavings + fates)
    for &f in &[16usize, 64] {
        for reliable in [true, false] {
            let (a, b) = (value_len_for_serialized(2 * f + 4).unwrap(), value_len_for_serialized(2 * f).unwrap());
            v.push(Scenario::new(format!("C05.interleave[f={f},rel={reliable}]"), 99, move |ctx| fragments(ctx, f, vec![a, b], reliable)).cfg(|c| {
                c.fragment_size = f;
                c.horizon_ms = 30_000;
            }));
        }
    }
    v
}
