//! C06 (no datagram can crash, hang or exhaust a running participant) and C07 (decoders are total): bounded-exhaustive
//! neighbourhood of the valid encodings (L-bytes lattice: every truncation, every single-byte substitution from a
//! boundary byte set, every aligned 16/32-bit field substitution from a boundary value set), with seeds captured from
//! a real simulated run. Each shard is a supervisor that runs the sweep in a child process, so that an abort, an
//! allocation failure or a hang is attributed to one exact input and the sweep continues after it.
use crate::dds::*;
use crate::s_events::FilterData;
use crate::sim::{run_one, Ctx, End, RunConfig};
use dust_dds::rtps_messages::overall_structure::RtpsMessageRead;
use dust_dds::verif_hooks::data_representation_builtin_endpoints::{
    discovered_reader_data::DiscoveredReaderData, discovered_topic_data::DiscoveredTopicData, discovered_writer_data::DiscoveredWriterData,
    spdp_discovered_participant_data::SpdpDiscoveredParticipantData,
};
use dust_dds::verif_hooks::xtypes_deserializer::deserialize_top_level_type;
use std::alloc::{GlobalAlloc, Layout, System};
use std::io::Write;
use std::sync::atomic::{AtomicUsize, Ordering::Relaxed};
use vutil::serde_json::{json, Value};
use vutil::{Args, Report};

// ---------------------------------------------------------------------------------------------------------------
// counting, limiting allocator
// ---------------------------------------------------------------------------------------------------------------
pub struct Counting;
static LIVE: AtomicUsize = AtomicUsize::new(0);
static PEAK: AtomicUsize = AtomicUsize::new(0);
static MAX_REQ: AtomicUsize = AtomicUsize::new(0);
/// a single request above this is refused (returns null -> the child aborts and the supervisor attributes it)
static REQ_CAP: AtomicUsize = AtomicUsize::new(usize::MAX);

unsafe impl GlobalAlloc for Counting {
    unsafe fn alloc(&self, l: Layout) -> *mut u8 {
        let n = l.size();
        if n > REQ_CAP.load(Relaxed) {
            MAX_REQ.fetch_max(n, Relaxed);
            return std::ptr::null_mut();
        }
        let p = unsafe { System.alloc(l) };
        if !p.is_null() {
            let live = LIVE.fetch_add(n, Relaxed) + n;
            PEAK.fetch_max(live, Relaxed);
            MAX_REQ.fetch_max(n, Relaxed);
        }
        p
    }
    unsafe fn dealloc(&self, p: *mut u8, l: Layout) {
        LIVE.fetch_sub(l.size(), Relaxed);
        unsafe { System.dealloc(p, l) }
    }
    unsafe fn realloc(&self, p: *mut u8, l: Layout, new: usize) -> *mut u8 {
        if new > REQ_CAP.load(Relaxed) {
            MAX_REQ.fetch_max(new, Relaxed);
            return std::ptr::null_mut();
        }
        let q = unsafe { System.realloc(p, l, new) };
        if !q.is_null() {
            if new >= l.size() {
                let live = LIVE.fetch_add(new - l.size(), Relaxed) + (new - l.size());
                PEAK.fetch_max(live, Relaxed);
            } else {
                LIVE.fetch_sub(l.size() - new, Relaxed);
            }
            MAX_REQ.fetch_max(new, Relaxed);
        }
        q
    }
}

fn alloc_begin() -> usize {
    let live = LIVE.load(Relaxed);
    PEAK.store(live, Relaxed);
    MAX_REQ.store(0, Relaxed);
    live
}
fn alloc_peak_since(base: usize) -> usize {
    PEAK.load(Relaxed).saturating_sub(base)
}

// ---------------------------------------------------------------------------------------------------------------
// seeds
// ---------------------------------------------------------------------------------------------------------------
#[derive(Clone)]
pub struct Seed {
    pub name: String,
    pub bytes: Vec<u8>,
}

/// one deterministic simulated run: discovery of two participants, keyed + filter-typed user traffic, a fragmented
/// sample, a late joiner (GAP), a lost datagram (ACKNACK with bits, NACK_FRAG). Returns the distinct datagrams P2 -> P1
/// and P1 -> P2 and the serialized payloads found in them.
fn capture() -> (Vec<Seed>, Vec<Seed>) {
    // once with small fragments (DATA_FRAG / NACK_FRAG / HEARTBEAT traffic of user and discovery writers) and once
    // with the default fragment size (discovery data as plain DATA: parameter-list payload seeds)
    let (mut d, mut p) = capture_with(64, "");
    let (d2, p2) = capture_with(1344, "");
    // participants with a domain tag: their announcements carry PID_DOMAIN_TAG (a string parameter the default
    // configuration never sends). Only the participant announcements of this capture are kept
    let (d3, p3) = capture_with(1344, "tag");
    for mut s in d3.into_iter().filter(|s| s.name.contains("15/0100c2")) {
        s.name = s.name.replace("dgram[", "dgram[tagged:");
        d.push(s);
    }
    for mut s in p3.into_iter().filter(|s| s.name.starts_with("spdp[")) {
        s.name = s.name.replace("spdp[", "spdp[tagged:");
        p.push(s);
    }
    for s in d2 {
        if !d.iter().any(|x| x.name == s.name) {
            d.push(s);
        }
    }
    for s in p2 {
        if !p.iter().any(|x| x.name == s.name) {
            p.push(s);
        }
    }
    (d, p)
}

fn capture_with(fragment_size: usize, domain_tag: &'static str) -> (Vec<Seed>, Vec<Seed>) {
    let mut cfg = RunConfig::default();
    cfg.fragment_size = fragment_size;
    let out = run_one(&cfg, &[], move |ctx: Ctx| async move {
        let f = ctx.factory(domain_tag, Some(200));
        let n1 = node::<KeyedData>(&f, 0, "T").await;
        let n2 = node::<KeyedData>(&f, 0, "T").await;
        let w = n2.publisher.create_datawriter::<KeyedData>(&n2.topic, QosKind::Specific(reliable_w(HistoryQosPolicyKind::KeepAll, Some(100))), NO_LISTENER, NO_STATUS).await.unwrap();
        let r = n1.subscriber.create_datareader::<KeyedData>(&n1.topic, QosKind::Specific(reliable_r(HistoryQosPolicyKind::KeepAll)), NO_LISTENER, NO_STATUS).await.unwrap();
        wait_pub_matched(&ctx, &w, 1, 3000).await;
        wait_sub_matched(&ctx, &r, 1, 3000).await;
        // drop the second fragment of the fragmented sample and the second small DATA once: repair traffic
        let dropped = std::rc::Rc::new(std::cell::RefCell::new((false, false)));
        let d2 = dropped.clone();
        crate::sim::with(|wd| {
            wd.net.filter = Some(Box::new(move |d, m| {
                if d.src != 1 || d.meta {
                    return false;
                }
                let mut st = d2.borrow_mut();
                if !st.0 && m.subs.iter().any(|s| s.id == crate::wire::DATA_FRAG && s.frag_start == 2) {
                    st.0 = true;
                    return true;
                }
                if !st.1 && m.subs.iter().any(|s| s.id == crate::wire::DATA && s.sn == 3) {
                    st.1 = true;
                    return true;
                }
                false
            }))
        });
        w.write(sample(1, 0, 10), None).await.unwrap();
        w.write(sample(2, 1, 150), None).await.unwrap();
        w.write(sample(1, 2, 11), None).await.unwrap();
        w.dispose(sample(2, 1, 1), None).await.unwrap();
        ctx.sleep_ms(700).await;
        let _ = take_all(&r).await;
        // a second topic with a string member, best effort
        let t1 = n1.participant.create_topic::<FilterData>("F", "F", QosKind::Default, NO_LISTENER, NO_STATUS).await.unwrap();
        let t2 = n2.participant.create_topic::<FilterData>("F", "F", QosKind::Default, NO_LISTENER, NO_STATUS).await.unwrap();
        let mut wq = reliable_w(HistoryQosPolicyKind::KeepAll, Some(100));
        wq.reliability.kind = ReliabilityQosPolicyKind::BestEffort;
        wq.user_data.value = vec![1, 2, 3];
        let w2 = n2.publisher.create_datawriter::<FilterData>(&t2, QosKind::Specific(wq), NO_LISTENER, NO_STATUS).await.unwrap();
        let r2 = n1.subscriber.create_datareader::<FilterData>(&t1, QosKind::Specific(best_effort_r(HistoryQosPolicyKind::KeepAll)), NO_LISTENER, NO_STATUS).await.unwrap();
        wait_pub_matched(&ctx, &w2, 1, 3000).await;
        w2.write(FilterData { id: 1, x: -5, s: "hello".into(), seq: 9 }, None).await.unwrap();
        // late joining volatile reader: GAP
        let r3 = n1.subscriber.create_datareader::<KeyedData>(&n1.topic, QosKind::Specific(reliable_r(HistoryQosPolicyKind::KeepAll)), NO_LISTENER, NO_STATUS).await.unwrap();
        ctx.sleep_ms(500).await;
        let _ = (r2, r3);
    });
    let mut dgrams: Vec<Seed> = vec![];
    let mut payloads: Vec<Seed> = vec![];
    let mut seen: Vec<String> = vec![];
    for (_, src, bytes, _) in &out.sent {
        let m = crate::wire::parse(bytes);
        let sig = format!("{}:{}", src, m.subs.iter().map(|s| format!("{:02x}/{:02x}{:02x}{:02x}{:02x}", s.id, s.writer[1], s.writer[2], s.writer[3], s.reader[3])).collect::<Vec<_>>().join(","));
        if seen.contains(&sig) {
            continue;
        }
        seen.push(sig.clone());
        dgrams.push(Seed { name: format!("dgram[{sig}]"), bytes: bytes.as_ref().clone() });
        for s in &m.subs {
            if (s.id == crate::wire::DATA) && s.payload.len() >= 4 {
                let kind = match s.writer {
                    [0, 1, 0, 0xc2] => "spdp",
                    [0, 0, 3, 0xc2] => "sedp-pub",
                    [0, 0, 4, 0xc2] => "sedp-sub",
                    [0, 0, 2, 0xc2] => "sedp-topic",
                    w if crate::wire::is_user_entity(&w) => "user",
                    _ => "other",
                };
                payloads.push(Seed { name: format!("{kind}[{sig}]"), bytes: s.payload.clone() });
            }
        }
    }
    (dgrams, payloads)
}

// ---------------------------------------------------------------------------------------------------------------
// mutations (L-bytes lattice), enumerated deterministically
// ---------------------------------------------------------------------------------------------------------------
const BYTES: [u8; 10] = [0x00, 0x01, 0x02, 0x03, 0x07, 0x08, 0x7f, 0x80, 0xfe, 0xff];

pub fn mutations(seed: &[u8], pairs: bool) -> Vec<(String, Vec<u8>)> {
    let n = seed.len();
    let mut v: Vec<(String, Vec<u8>)> = vec![("identity".into(), seed.to_vec())];
    for l in 0..n {
        v.push((format!("trunc@{l}"), seed[..l].to_vec()));
    }
    for i in 0..n {
        for b in BYTES {
            if seed[i] != b {
                let mut m = seed.to_vec();
                m[i] = b;
                v.push((format!("byte@{i}={b:#04x}"), m));
            }
        }
    }
    let v16 = |len: usize| -> Vec<u16> { vec![0, 1, 2, 3, 4, 8, (len as u16).wrapping_sub(1), len as u16, (len as u16).wrapping_add(1), 0x7fff, 0x8000, 0xfffc, 0xfffe, 0xffff] };
    let v32 = |len: usize| -> Vec<u32> { vec![0, 1, 2, 4, (len as u32).wrapping_sub(1), len as u32, (len as u32).wrapping_add(1), 0x100, 0x10000, 0x7fff_ffff, 0x8000_0000, 0xffff_fffe, 0xffff_ffff] };
    let mut i = 0;
    while i + 2 <= n {
        for x in v16(n - i) {
            for le in [true, false] {
                let b = if le { x.to_le_bytes() } else { x.to_be_bytes() };
                if seed[i..i + 2] != b {
                    let mut m = seed.to_vec();
                    m[i..i + 2].copy_from_slice(&b);
                    v.push((format!("u16@{i}={x:#x}{}", if le { "le" } else { "be" }), m));
                }
            }
        }
        i += 2;
    }
    let mut i = 0;
    while i + 4 <= n {
        for x in v32(n - i) {
            for le in [true, false] {
                let b = if le { x.to_le_bytes() } else { x.to_be_bytes() };
                if seed[i..i + 4] != b {
                    let mut m = seed.to_vec();
                    m[i..i + 4].copy_from_slice(&b);
                    v.push((format!("u32@{i}={x:#x}{}", if le { "le" } else { "be" }), m));
                }
            }
        }
        i += 4;
    }
    // 64-bit sequence numbers (RTPS: high i32 then low u32) at every 4-aligned offset: the extremes cannot be reached by
    // substituting one 32-bit half (i64::MIN needs low = 0, i64::MAX needs low = 0xffffffff)
    let sn64: [(&str, u32, u32); 6] = [("max", 0x7fff_ffff, 0xffff_ffff), ("min", 0x8000_0000, 0), ("max-1", 0x7fff_ffff, 0xffff_fffe), ("-1", 0xffff_ffff, 0xffff_ffff), ("0", 0, 0), ("2^48", 0x1_0000, 0)];
    let mut i = 0;
    while i + 8 <= n {
        for (name, hi, lo) in sn64 {
            for le in [true, false] {
                let mut b = [0u8; 8];
                b[..4].copy_from_slice(&if le { hi.to_le_bytes() } else { hi.to_be_bytes() });
                b[4..].copy_from_slice(&if le { lo.to_le_bytes() } else { lo.to_be_bytes() });
                if seed[i..i + 8] != b {
                    let mut m = seed.to_vec();
                    m[i..i + 8].copy_from_slice(&b);
                    v.push((format!("sn64@{i}={name}{}", if le { "le" } else { "be" }), m));
                }
            }
        }
        i += 4;
    }
    if pairs {
        // all pairs of 32-bit substitutions inside the first 64 bytes
        let lim = n.min(64);
        let vals = [0u32, 1, 0x7fff_ffff, 0xffff_ffff];
        let mut a = 0;
        while a + 4 <= lim {
            let mut b = a + 4;
            while b + 4 <= lim {
                for x in vals {
                    for y in vals {
                        let mut m = seed.to_vec();
                        m[a..a + 4].copy_from_slice(&x.to_le_bytes());
                        m[b..b + 4].copy_from_slice(&y.to_le_bytes());
                        v.push((format!("u32@{a}={x:#x}+u32@{b}={y:#x}"), m));
                    }
                }
                b += 4;
            }
            a += 4;
        }
    }
    v
}

/// the closed space "RTPS header + one submessage of every id x flags x declared length x body"
fn synthetic_messages() -> Vec<(String, Vec<u8>)> {
    let mut v = vec![];
    let mut header = b"RTPS".to_vec();
    header.extend_from_slice(&[2, 4, 1, 16]);
    header.extend_from_slice(&[10, 0, 0, 1, 0, 0, 0, 1, 1, 0, 0, 0]);
    for id in 0..=255u8 {
        for flags in 0..16u8 {
            for (bn, body) in [("zeros", vec![0u8; 64]), ("ones", vec![0xffu8; 64])] {
                for declared in [0u16, 1, 3, 4, 8, 20, 28, 64, 65, 63, 0xffff] {
                    let mut m = header.clone();
                    m.push(id);
                    m.push(flags);
                    m.extend_from_slice(&if flags & 1 != 0 { declared.to_le_bytes() } else { declared.to_be_bytes() });
                    m.extend_from_slice(&body);
                    v.push((format!("synthetic id={id:#04x} flags={flags:#x} len={declared} body={bn}"), m));
                }
            }
        }
    }
    v
}

// ---------------------------------------------------------------------------------------------------------------
// C07 targets
// ---------------------------------------------------------------------------------------------------------------
fn decode_target(target: &str, bytes: &[u8]) -> &'static str {
    match target {
        "rtps-message" => match RtpsMessageRead::try_from(bytes) {
            Ok(_) => "Ok",
            Err(_) => "Err",
        },
        "spdp" => match SpdpDiscoveredParticipantData::from_bytes(bytes) {
            Ok(_) => "Ok",
            Err(_) => "Err",
        },
        "sedp-pub" => match DiscoveredWriterData::from_bytes(bytes) {
            Ok(_) => "Ok",
            Err(_) => "Err",
        },
        "sedp-sub" => match DiscoveredReaderData::from_bytes(bytes) {
            Ok(_) => "Ok",
            Err(_) => "Err",
        },
        "sedp-topic" => match DiscoveredTopicData::from_bytes(bytes) {
            Ok(_) => "Ok",
            Err(_) => "Err",
        },
        "user-keyed" => match deserialize_top_level_type(<KeyedData as dust_dds::xtypes::type_support::Type>::TYPE, bytes) {
            Ok(_) => "Ok",
            Err(_) => "Err",
        },
        "user-filter" => match deserialize_top_level_type(<FilterData as dust_dds::xtypes::type_support::Type>::TYPE, bytes) {
            Ok(_) => "Ok",
            Err(_) => "Err",
        },
        "type-lookup-request" => match deserialize_top_level_type(<dust_dds::verif_hooks::data_representation_builtin_endpoints::type_lookup::TypeLookupRequest as dust_dds::xtypes::type_support::Type>::TYPE, bytes) {
            Ok(_) => "Ok",
            Err(_) => "Err",
        },
        "type-lookup-reply" => match deserialize_top_level_type(<dust_dds::verif_hooks::data_representation_builtin_endpoints::type_lookup::TypeLookupReply as dust_dds::xtypes::type_support::Type>::TYPE, bytes) {
            Ok(_) => "Ok",
            Err(_) => "Err",
        },
        _ => "unknown-target",
    }
}

/// all cases of C07: (target, description, bytes)
fn c07_cases(thorough: bool) -> Vec<(String, String, Vec<u8>)> {
    let (dgrams, payloads) = capture();
    let mut cases = vec![];
    for s in &dgrams {
        for (d, b) in mutations(&s.bytes, thorough) {
            cases.push(("rtps-message".to_string(), format!("{} {d}", s.name), b));
        }
    }
    for (d, b) in synthetic_messages() {
        cases.push(("rtps-message".to_string(), d, b));
    }
    for s in &payloads {
        let kind = s.name.split('[').next().unwrap();
        let targets: Vec<&str> = match kind {
            "spdp" => vec!["spdp", "sedp-pub"],
            "sedp-pub" => vec!["sedp-pub", "sedp-sub"],
            "sedp-sub" => vec!["sedp-sub", "sedp-topic"],
            "sedp-topic" => vec!["sedp-topic", "spdp"],
            "user" => vec!["user-keyed", "user-filter", "type-lookup-request", "type-lookup-reply"],
            _ => vec!["type-lookup-request", "type-lookup-reply"],
        };
        for t in targets {
            for (d, b) in mutations(&s.bytes, thorough) {
                cases.push((t.to_string(), format!("{} {d}", s.name), b.clone()));
                // every representation identifier on the unmodified seed and on each truncation class
                if d == "identity" {
                    for rid in 0u8..=0x0b {
                        let mut x = b.clone();
                        x[0] = 0;
                        x[1] = rid;
                        cases.push((t.to_string(), format!("{} repr_id={rid:#x}", s.name), x));
                    }
                }
            }
        }
    }
    cases
}

fn budget(len: usize) -> usize {
    64 * len + 64 * 1024
}

fn panic_sig(p: &Box<dyn std::any::Any + Send>) -> String {
    let m = p.downcast_ref::<String>().cloned().or_else(|| p.downcast_ref::<&str>().map(|s| s.to_string())).unwrap_or_else(|| "panic".into());
    // strip numbers so that one defect has one signature
    let m: String = m.lines().next().unwrap_or("").chars().take(80).collect();
    let mut out = String::new();
    let mut last_digit = false;
    for ch in m.chars() {
        if ch.is_ascii_digit() {
            if !last_digit {
                out.push('N');
            }
            last_digit = true;
        } else {
            out.push(ch);
            last_digit = false;
        }
    }
    out
}

// ---------------------------------------------------------------------------------------------------------------
// C06: inject into a running participant
// ---------------------------------------------------------------------------------------------------------------
/// returns (end, violations): the participant P1 has discovered P2 and matched endpoints; `bytes` is injected, then
/// P1 must still answer API calls and complete a reliable round trip with P2
fn c06_one(bytes: Vec<u8>, phase: usize) -> (End, Vec<(String, String)>, u64) {
    let mut cfg = RunConfig::default();
    cfg.fragment_size = 64;
    cfg.keep_logs = false;
    cfg.step_cap = 200_000;
    cfg.horizon_ms = 20_000;
    let out = run_one(&cfg, &[], move |ctx: Ctx| async move {
        let f = ctx.factory("", Some(200));
        let n1 = node::<KeyedData>(&f, 0, "T").await;
        if phase == 0 {
            // before discovery of any peer
            ctx.inject(0, bytes.clone());
            ctx.sleep_ms(60).await;
        }
        let n2 = node::<KeyedData>(&f, 0, "T").await;
        let w = n2.publisher.create_datawriter::<KeyedData>(&n2.topic, QosKind::Specific(reliable_w(HistoryQosPolicyKind::KeepAll, Some(100))), NO_LISTENER, NO_STATUS).await.unwrap();
        let r = n1.subscriber.create_datareader::<KeyedData>(&n1.topic, QosKind::Specific(reliable_r(HistoryQosPolicyKind::KeepAll)), NO_LISTENER, NO_STATUS).await.unwrap();
        // P1 also has a writer so that ACKNACK / NACK_FRAG injections find a target
        let tu1 = n1.participant.create_topic::<KeyedData>("U", "T", QosKind::Default, NO_LISTENER, NO_STATUS).await.unwrap();
        let tu2 = n2.participant.create_topic::<KeyedData>("U", "T", QosKind::Default, NO_LISTENER, NO_STATUS).await.unwrap();
        let w1 = n1.publisher.create_datawriter::<KeyedData>(&tu1, QosKind::Specific(reliable_w(HistoryQosPolicyKind::KeepAll, Some(100))), NO_LISTENER, NO_STATUS).await.unwrap();
        let r2 = n2.subscriber.create_datareader::<KeyedData>(&tu2, QosKind::Specific(reliable_r(HistoryQosPolicyKind::KeepAll)), NO_LISTENER, NO_STATUS).await.unwrap();
        // the endpoints used for the liveness check afterwards exist and are matched before the injection (a forged
        // discovery datagram may legitimately shadow later announcements: that is spoofing, not a robustness failure)
        let tv1 = n1.participant.create_topic::<KeyedData>("V", "T", QosKind::Default, NO_LISTENER, NO_STATUS).await.unwrap();
        let tv2 = n2.participant.create_topic::<KeyedData>("V", "T", QosKind::Default, NO_LISTENER, NO_STATUS).await.unwrap();
        let wa = n2.publisher.create_datawriter::<KeyedData>(&tv2, QosKind::Specific(reliable_w(HistoryQosPolicyKind::KeepAll, Some(100))), NO_LISTENER, NO_STATUS).await.unwrap();
        let ra = n1.subscriber.create_datareader::<KeyedData>(&tv1, QosKind::Specific(reliable_r(HistoryQosPolicyKind::KeepAll)), NO_LISTENER, NO_STATUS).await.unwrap();
        let wb = n1.publisher.create_datawriter::<KeyedData>(&tv1, QosKind::Specific(reliable_w(HistoryQosPolicyKind::KeepAll, Some(100))), NO_LISTENER, NO_STATUS).await.unwrap();
        let rb = n2.subscriber.create_datareader::<KeyedData>(&tv2, QosKind::Specific(reliable_r(HistoryQosPolicyKind::KeepAll)), NO_LISTENER, NO_STATUS).await.unwrap();
        // A datagram whose RTPS header carries the GUID prefix of P1 or P2 and that holds a participant announcement
        // (SPDP writer entity id) is a forged announcement of a live participant: whatever it says about locators, lease
        // or endpoints legitimately replaces what the peer knows (spoofing, not a robustness failure), so the matching
        // and communication oracles do not apply; crash / hang / allocation / API oracles still do.
        let prefixes: Vec<[u8; 12]> = [n1.participant.get_instance_handle(), n2.participant.get_instance_handle()]
            .iter()
            .map(|h| {
                let b: [u8; 16] = (*h).into();
                let mut p = [0u8; 12];
                p.copy_from_slice(&b[..12]);
                p
            })
            .collect();
        let forged_participant_announcement =
            bytes.len() >= 20 && prefixes.iter().any(|p| &bytes[8..20] == p) && bytes.windows(4).any(|w| w == [0x00, 0x01, 0x00, 0xc2]);
        if !wait_pub_matched(&ctx, &w, 1, 3000).await || !wait_sub_matched(&ctx, &r, 1, 3000).await || !wait_sub_matched(&ctx, &ra, 2, 3000).await || !wait_sub_matched(&ctx, &rb, 2, 3000).await {
            if forged_participant_announcement {
                ctx.obs("forged announcement of a live participant: matching oracle skipped");
            } else {
                ctx.violation("no-match-after-injection", "P1 and P2 did not match");
            }
            return;
        }
        // a forged datagram naming the liveness endpoints themselves can legitimately shadow their sequence numbers
        let live_ids: Vec<[u8; 4]> = [wa.get_instance_handle(), ra.get_instance_handle(), wb.get_instance_handle(), rb.get_instance_handle()]
            .iter()
            .map(|h| {
                let b: [u8; 16] = (*h).into();
                [b[12], b[13], b[14], b[15]]
            })
            .collect();
        // (raw byte scan, independent of how a malformed datagram is split into submessages)
        let names_live_endpoint = bytes.windows(4).any(|w| live_ids.iter().any(|id| id == w));
        let _ = w1.write(sample(1, 100, 150), None).await;
        if phase == 1 {
            ctx.inject(0, bytes.clone());
            ctx.sleep_ms(60).await;
        }
        if phase == 2 {
            // mid-transfer: a fragmented sample is on its way
            let _ = w.write(sample(1, 0, 150), None).await;
            ctx.inject(0, bytes.clone());
            ctx.sleep_ms(60).await;
        }
        if phase == 3 {
            // a fragment of a change the reader KNOWS to be missing: change 2 of `w` is fragmented and announced by
            // HEARTBEAT but every one of its own fragments is dropped, so the injected (mutated) DATA_FRAG - captured for
            // exactly this writer and sequence number - is all the reader holds of it when it answers the next
            // HEARTBEAT (NACK_FRAG computation: data_size / fragment_size, missing-fragment search) and when the repair
            // fragments arrive afterwards (reassembly next to the forged fragment)
            crate::sim::with(|wd| {
                wd.net.filter = Some(Box::new(|d, m| d.src == 1 && !d.meta && m.subs.iter().any(|s| s.id == crate::wire::DATA_FRAG && s.sn == 2)))
            });
            let _ = w.write(sample(1, 0, 10), None).await;
            let _ = w.write(sample(2, 1, 150), None).await;
            ctx.sleep_ms(30).await;
            ctx.inject(0, bytes.clone());
            ctx.sleep_ms(450).await;
            crate::sim::with(|wd| wd.net.filter = None);
            ctx.sleep_ms(450).await;
        }
        // afterwards: API still answers, communication with the well-behaved peer still works
        if n1.participant.get_qos().await.is_err() {
            ctx.violation("api-dead/get_qos", "get_qos failed after the injection");
        }
        if n1.participant.create_topic::<KeyedData>("T2", "T", QosKind::Default, NO_LISTENER, NO_STATUS).await.is_err() {
            ctx.violation("api-dead/create_topic", "create_topic failed after the injection");
        }
        if names_live_endpoint || forged_participant_announcement {
            ctx.obs("datagram names a liveness endpoint or forges a live participant's announcement: communication oracle skipped");
            let _ = (&r, &r2);
            return;
        }
        let _ = wa.write(sample(1, 7, 12), None).await;
        let ok = poll_until(&ctx, 20, 2500, || async { read_all(&ra).await.iter().any(|s| s.data.as_ref().map(|d| d.seq == 7).unwrap_or(false)) }).await;
        if !ok {
            ctx.violation("communication-broken/P2-to-P1", "a sample written by the well-behaved peer after the injection never arrived");
        }
        let _ = wb.write(sample(1, 101, 12), None).await;
        let ok = poll_until(&ctx, 20, 2500, || async { read_all(&rb).await.iter().any(|s| s.data.as_ref().map(|d| d.seq == 101).unwrap_or(false)) }).await;
        if !ok {
            ctx.violation("communication-broken/P1-to-P2", "a sample written by the participant after the injection never reached its peer");
        }
        let _ = (&r, &r2);
    });
    (out.end, out.violations, out.steps)
}

fn c06_cases(thorough: bool) -> Vec<(usize, String, Vec<u8>)> {
    let (dgrams, _) = capture();
    let mut cases = vec![];
    // datagrams P2 -> P1 carry prefixes P1 knows; mutate all captured datagrams, three phases
    for s in &dgrams {
        let from_p2 = s.name.starts_with("dgram[1:");
        for (d, b) in mutations(&s.bytes, false) {
            // quick tier: byte substitutions only from half of the boundary byte set (each injection is a whole
            // simulated execution)
            if !thorough && d.starts_with("byte@") && !(d.ends_with("=0x00") || d.ends_with("=0x01") || d.ends_with("=0x07") || d.ends_with("=0x80") || d.ends_with("=0xff")) {
                continue;
            }
            // phase 1 (after discovery) for every case; the other phases on a reduced mutation set
            cases.push((1usize, format!("{} {d}", s.name), b.clone()));
            let reduced = d.starts_with("trunc@") || d.starts_with("u32@") || d.starts_with("sn64@") || d == "identity";
            if from_p2 && (thorough || reduced) {
                cases.push((2usize, format!("{} {d}", s.name), b.clone()));
            }
            // phase 3 (fragment of a known-missing change) for the user DATA_FRAG datagrams of P2: field substitutions,
            // truncations, identity (quick), everything (thorough)
            if from_p2 && s.name.contains("16/") && (thorough || reduced || d.starts_with("u16@")) {
                cases.push((3usize, format!("{} {d}", s.name), b.clone()));
            }
            if thorough && reduced {
                cases.push((0usize, format!("{} {d}", s.name), b));
            }
        }
    }
    for (k, (d, b)) in synthetic_messages().into_iter().enumerate() {
        if thorough || k % 4 == 0 {
            cases.push((1, d, b));
        }
    }
    cases
}

// ---------------------------------------------------------------------------------------------------------------
// child / supervisor
// ---------------------------------------------------------------------------------------------------------------
fn child(args: &Args, which: &str, from: usize, progress_path: &str, findings_path: &str) -> Report {
    let mut rep = Report::new();
    let mut prog = std::fs::OpenOptions::new().create(true).write(true).open(progress_path).expect("progress file");
    let mut ff = std::fs::OpenOptions::new().create(true).append(true).open(findings_path).expect("findings file");
    let mut mark = |i: usize, evals: u64| {
        use std::io::{Seek, SeekFrom};
        let _ = prog.seek(SeekFrom::Start(0));
        let _ = prog.write_all(format!("{i:012} {evals:012}\n").as_bytes());
    };
    let mut emit = |sig: String, detail: String, replay: Value| {
        let _ = writeln!(ff, "{}", json!({"sig": sig, "detail": detail, "replay": replay}));
    };
    // a single request of 1 GiB or more can only come from a length field read off the wire
    REQ_CAP.store(1 << 30, Relaxed);
    mark(from, 0);
    if which == "C07" {
        let cases = c07_cases(args.thorough());
        rep.set("cfg_cases_total", json!(cases.len()));
        {
            let (d, p) = capture();
            rep.set("cfg_seed_datagrams", json!(d.len()));
            rep.set("cfg_seed_payloads", json!(p.len()));
            rep.set("cfg_seed_names", json!(d.iter().map(|s| format!("{} ({}B)", s.name, s.bytes.len())).chain(p.iter().map(|s| format!("{} ({}B)", s.name, s.bytes.len()))).collect::<Vec<_>>()));
        }
        for (i, (target, desc, bytes)) in cases.iter().enumerate() {
            if i < from || !args.mine(i) {
                continue;
            }
            mark(i, rep.evaluations);
            rep.evaluations += 1;
            let base = alloc_begin();
            let r = std::panic::catch_unwind(|| decode_target(target, bytes));
            let peak = alloc_peak_since(base);
            let shape = desc.split(' ').nth(1).map(|m| m.split('@').next().unwrap_or("").split('=').next().unwrap_or("").to_string()).unwrap_or_default();
            match r {
                Ok(outcome) => {
                    rep.distinct(format!("{target}/{shape}/{outcome}"));
                    if peak > budget(bytes.len()) {
                        emit(format!("allocation/{target}"), format!("{desc}: {} input bytes, peak allocation {peak} bytes (budget {})", bytes.len(), budget(bytes.len())), json!({"target": target, "desc": desc, "hex": vutil::hex(bytes)}));
                    }
                }
                Err(p) => {
                    rep.distinct(format!("{target}/{shape}/PANIC"));
                    emit(format!("panic/{target}/{}", panic_sig(&p)), format!("{desc}"), json!({"target": target, "desc": desc, "hex": vutil::hex(bytes)}));
                }
            }
            if rep.evaluations % 40_009 == 1 {
                rep.sample(json!({"target": target, "case": desc, "len": bytes.len()}));
            }
        }
    } else {
        let cases = c06_cases(args.thorough());
        rep.set("cfg_cases_total", json!(cases.len()));
        for (i, (phase, desc, bytes)) in cases.iter().enumerate() {
            if i < from || !args.mine(i) {
                continue;
            }
            mark(i, rep.evaluations);
            rep.evaluations += 1;
            let base = alloc_begin();
            let (end, viol, steps) = c06_one(bytes.clone(), *phase);
            let peak = alloc_peak_since(base);
            let shape = desc.split(' ').nth(1).map(|m| m.split('@').next().unwrap_or("").split('=').next().unwrap_or("").to_string()).unwrap_or_default();
            let class = match &end {
                End::Done => "survived".to_string(),
                e => format!("{e:?}").chars().take(12).collect(),
            };
            rep.distinct(format!("phase{phase}/{shape}/{class}/{}", viol.is_empty()));
            let replay = json!({"phase": phase, "desc": desc, "hex": vutil::hex(bytes)});
            match &end {
                End::Done => {}
                End::Panic(m) => {
                    let b: Box<dyn std::any::Any + Send> = Box::new(m.clone());
                    emit(format!("panic/{}", panic_sig(&b)), format!("phase {phase}: {desc}: {m}"), replay.clone());
                }
                e => emit(format!("no-termination/{e:?}"), format!("phase {phase}: {desc}: execution ended with {e:?} after {steps} steps"), replay.clone()),
            }
            for (s, d) in viol {
                emit(s, format!("phase {phase}: {desc}: {d}"), replay.clone());
            }
            // the whole execution (two participants, discovery, transfers) allocates a few hundred KiB; an injected
            // datagram must not add more than its budget on top of a generous fixed allowance
            if peak > 8 * 1024 * 1024 + budget(bytes.len()) {
                emit("allocation".into(), format!("phase {phase}: {desc}: peak allocation of the execution {peak} bytes"), replay);
            }
            rep.max("max_exec_peak_alloc", peak as u64);
            if rep.evaluations % 20_011 == 1 {
                rep.sample(json!({"phase": phase, "case": desc, "len": bytes.len(), "end": class}));
            }
        }
    }
    rep
}

pub fn run(args: &Args, which: &str) -> Report {
    // child mode?
    if let Some(p) = args.rest.iter().position(|a| a == "--child") {
        let from: usize = args.rest[p + 1].parse().unwrap();
        let progress = args.rest[p + 2].clone();
        let findings = args.rest[p + 3].clone();
        return child(args, which, from, &progress, &findings);
    }
    // supervisor
    let mut total = Report::new();
    let exe = std::env::current_exe().expect("exe");
    let dir = std::env::temp_dir();
    let tag = format!("{}-{}-{}", which, std::process::id(), args.shard);
    let progress = dir.join(format!("vbytes-{tag}.progress"));
    let findings = dir.join(format!("vbytes-{tag}.findings"));
    let _ = std::fs::remove_file(&findings);
    let mut from = 0usize;
    let mut restarts = 0;
    loop {
        let _ = std::fs::remove_file(&progress);
        let out = dir.join(format!("vbytes-{tag}.out"));
        let _ = std::fs::remove_file(&out);
        let mut cmd = std::process::Command::new(&exe);
        cmd.arg(which).arg("--tier").arg(&args.tier).arg("--shard").arg(format!("{}/{}", args.shard, args.nshards)).arg("--out").arg(&out);
        cmd.arg("--child").arg(from.to_string()).arg(&progress).arg(&findings);
        cmd.stderr(std::process::Stdio::null());
        let mut ch = cmd.spawn().expect("spawn child");
        // watchdog (a case takes microseconds to milliseconds): a hang is 6 s of *CPU time of the child* without a
        // progress mark (busy loop), or 120 s of wall time during which the child used no CPU (blocked). Wall time alone
        // is not used: on an overloaded machine a healthy child may not be scheduled for many seconds.
        let cpu_of = |pid: u32| -> f64 {
            // utime + stime (fields 14, 15 of /proc/<pid>/stat, in clock ticks of 1/100 s)
            let st = std::fs::read_to_string(format!("/proc/{pid}/stat")).unwrap_or_default();
            let after = st.rsplit(')').next().unwrap_or("");
            let f: Vec<&str> = after.split_whitespace().collect();
            let t: u64 = f.get(11).and_then(|x| x.parse::<u64>().ok()).unwrap_or(0) + f.get(12).and_then(|x| x.parse::<u64>().ok()).unwrap_or(0);
            t as f64 / 100.0
        };
        let mut last = String::new();
        let mut last_change = std::time::Instant::now();
        let mut cpu_at_change = 0f64;
        let mut changes = 0u32;
        let status = loop {
            match ch.try_wait() {
                Ok(Some(st)) => break Some(st),
                Ok(None) => {}
                Err(_) => break None,
            }
            std::thread::sleep(std::time::Duration::from_millis(200));
            let cur = std::fs::read_to_string(&progress).unwrap_or_default();
            let cpu = cpu_of(ch.id());
            let cpu_limit = if changes < 2 { 90.0 } else { 6.0 };
            let wall = last_change.elapsed().as_secs();
            if cur != last {
                last = cur;
                last_change = std::time::Instant::now();
                cpu_at_change = cpu;
                changes += 1;
            } else if cpu - cpu_at_change > cpu_limit || (wall > 120 && cpu - cpu_at_change < 1.0) || wall > 1800 {
                // (seed capture and case generation happen before the second progress mark: generous allowance)
                let _ = ch.kill();
                let _ = ch.wait();
                break None;
            }
        };
        let ok = status.map(|s| s.success()).unwrap_or(false) && out.exists();
        if ok {
            let v: Value = vutil::serde_json::from_str(&std::fs::read_to_string(&out).unwrap_or_default()).unwrap_or(json!({}));
            total.evaluations += v["evaluations"].as_u64().unwrap_or(0);
            for d in v["distinct"].as_array().cloned().unwrap_or_default() {
                total.distinct(d.as_str().unwrap_or("").to_string());
            }
            for s in v["samples"].as_array().cloned().unwrap_or_default() {
                total.sample(s);
            }
            if let Some(e) = v["extra"].as_object() {
                for (k, x) in e {
                    total.set(k, x.clone());
                }
            }
            let _ = std::fs::remove_file(&out);
            break;
        }
        // the child died (abort / allocation failure / hang): attribute to the case in progress
        let cur = std::fs::read_to_string(&progress).unwrap_or_default();
        let mut it = cur.split_whitespace();
        let idx: usize = it.next().and_then(|x| x.parse().ok()).unwrap_or(from);
        let evals: u64 = it.next().and_then(|x| x.parse().ok()).unwrap_or(0);
        total.evaluations += evals + 1;
        let how = match status {
            None => "hang".to_string(),
            Some(st) => format!("abort({st})"),
        };
        // describe the case
        let (desc, target, hexs) = if which == "C07" {
            let cs = c07_cases(args.thorough());
            cs.get(idx).map(|c| (c.1.clone(), c.0.clone(), vutil::hex(&c.2))).unwrap_or_default()
        } else {
            let cs = c06_cases(args.thorough());
            cs.get(idx).map(|c| (c.1.clone(), format!("phase{}", c.0), vutil::hex(&c.2))).unwrap_or_default()
        };
        let kind_of_seed = desc.split('[').next().unwrap_or("").to_string();
        total.finding(
            format!("{}/{}/{}", if how == "hang" { "hang" } else { "abort" }, target, kind_of_seed),
            format!("the sweep process died ({how}) on case {idx}: {desc}"),
            json!({"target": target, "desc": desc, "hex": hexs}),
        );
        from = idx + 1;
        restarts += 1;
        if restarts > 300 {
            total.exhaustive = false;
            total.note(format!("gave up after {restarts} child restarts at case {idx}"));
            break;
        }
    }
    total.add("child_restarts", restarts);
    // collect findings emitted by the children
    for line in std::fs::read_to_string(&findings).unwrap_or_default().lines() {
        if let Ok(v) = vutil::serde_json::from_str::<Value>(line) {
            total.finding(v["sig"].as_str().unwrap_or("?").to_string(), v["detail"].as_str().unwrap_or("").to_string(), v["replay"].clone());
        }
    }
    let _ = std::fs::remove_file(&findings);
    let _ = std::fs::remove_file(&progress);
    total
}

pub fn replay(which: &str, v: &Value) -> bool {
    let bytes = vutil::unhex(v["hex"].as_str().unwrap_or(""));
    if which == "C07" {
        let t = v["target"].as_str().unwrap_or("rtps-message").to_string();
        let r = std::panic::catch_unwind(|| decode_target(&t, &bytes));
        println!("{t} on {} bytes -> {r:?}", bytes.len());
        r.is_ok()
    } else {
        let phase = v["phase"].as_u64().unwrap_or(1) as usize;
        let (end, viol, steps) = c06_one(bytes, phase);
        println!("phase {phase}: end {end:?} after {steps} steps; violations {viol:?}");
        matches!(end, End::Done) && viol.is_empty()
    }
}
