//! C16 (matched-status counts) and C17 (participant discovery, isolation, lease) scenarios.
use crate::dds::*;
use crate::explore::Scenario;
use crate::s_acks::patch_lease;
use crate::sim::{Ctx, MS};
use dust_dds::infrastructure::qos_policy::{DeadlineQosPolicy, PartitionQosPolicy};
use vutil::Args;

const C16_OPS: &[&str] = &["toggle reader a", "toggle reader b", "toggle deadline-compat a", "toggle partition a", "delete participant b", "vanish participant b", "toggle writer 2"];

struct RState {
    reader: Option<DataReaderAsync<KeyedData>>,
    compat: bool,
    part_ok: bool,
    alive: bool,
    last_total: i32,
}
impl RState {
    fn matched(&self) -> bool {
        self.reader.is_some() && self.compat && self.part_ok && self.alive
    }
}

async fn c16_prog(ctx: Ctx, depth: usize, read_every_step: bool) {
    crate::sim::with(|w| w.net.rewrite = Some(Box::new(|d| if d.meta { patch_lease(&d.bytes, 1) } else { None })));
    let f = ctx.factory("", Some(200));
    let n1 = node::<KeyedData>(&f, 0, "T").await;
    let n2 = node::<KeyedData>(&f, 0, "T").await;
    let n3 = node::<KeyedData>(&f, 0, "T").await;
    let mut wq = reliable_w(HistoryQosPolicyKind::KeepLast(1), Some(0));
    wq.deadline = DeadlineQosPolicy { period: DurationKind::Finite(Duration::new(100, 0)) };
    let w = n1.publisher.create_datawriter::<KeyedData>(&n1.topic, QosKind::Specific(wq), NO_LISTENER, NO_STATUS).await.expect("writer");
    let mut a = RState { reader: None, compat: true, part_ok: true, alive: true, last_total: 0 };
    let mut b = RState { reader: None, compat: true, part_ok: true, alive: true, last_total: 0 };
    let rq = |compat: bool| {
        let mut q = reliable_r(HistoryQosPolicyKind::KeepAll);
        // requested deadline must be >= offered (100 s): 200 s compatible, 50 s incompatible
        q.deadline = DeadlineQosPolicy { period: DurationKind::Finite(Duration::new(if compat { 200 } else { 50 }, 0)) };
        q
    };
    let (cur, total) = (0i32, 0i32);
    let (mut prev_cur, mut prev_total) = (0i32, 0i32);
    let mut prev_list: Vec<InstanceHandle> = vec![];
    let mut asym_before = false;
    let (mut last_a, mut last_b): (Option<InstanceHandle>, Option<InstanceHandle>) = (None, None);
    let mut a_prev: Option<(i32, i32)> = None;
    let mut hist: Vec<&str> = vec![];
    let mut b_gone = false;
    let mut resync: (Option<bool>, Option<bool>) = (None, None);
    let mut w2: Option<DataWriterAsync<KeyedData>> = None;
    for step in 0..depth {
        let op = C16_OPS[ctx.choose(b'O', C16_OPS.len())];
        hist.push(op);
        let (ma, mb) = (resync.0.unwrap_or(a.matched()), resync.1.unwrap_or(b.matched()));
        let mut settle: i64 = std::env::var("C16_SETTLE").ok().and_then(|s| s.parse().ok()).unwrap_or(250);
        match op {
            "toggle reader a" => match a.reader.take() {
                Some(r) => n2.subscriber.delete_datareader(&r).await.expect("delete a"),
                None => {
                    a.reader = Some(n2.subscriber.create_datareader::<KeyedData>(&n2.topic, QosKind::Specific(rq(a.compat)), NO_LISTENER, NO_STATUS).await.expect("reader a"));
                    a.last_total = 0;
                }
            },
            "toggle reader b" => {
                if b_gone {
                    continue;
                }
                match b.reader.take() {
                    Some(r) => n3.subscriber.delete_datareader(&r).await.expect("delete b"),
                    None => {
                        b.reader = Some(n3.subscriber.create_datareader::<KeyedData>(&n3.topic, QosKind::Specific(rq(true)), NO_LISTENER, NO_STATUS).await.expect("reader b"));
                        b.last_total = 0;
                    }
                }
            }
            "toggle deadline-compat a" => {
                a.compat = !a.compat;
                if let Some(r) = &a.reader {
                    r.set_qos(QosKind::Specific(rq(a.compat))).await.expect("set_qos deadline");
                }
            }
            "toggle partition a" => {
                a.part_ok = !a.part_ok;
                let mut q = n2.subscriber.get_qos().await.unwrap();
                q.partition = PartitionQosPolicy { name: if a.part_ok { vec![] } else { vec!["other".to_string()] } };
                n2.subscriber.set_qos(QosKind::Specific(q)).await.expect("set partition");
            }
            "toggle writer 2" => match w2.take() {
                Some(x) => n1.publisher.delete_datawriter(&x).await.expect("delete w2"),
                None => {
                    let mut q = reliable_w(HistoryQosPolicyKind::KeepLast(1), Some(0));
                    q.deadline = DeadlineQosPolicy { period: DurationKind::Finite(Duration::new(100, 0)) };
                    w2 = Some(n1.publisher.create_datawriter::<KeyedData>(&n1.topic, QosKind::Specific(q), NO_LISTENER, NO_STATUS).await.expect("w2"))
                }
            },
            "delete participant b" => {
                if b_gone {
                    continue;
                }
                n3.participant.delete_contained_entities().await.expect("delete contained");
                f.delete_participant(&n3.participant).await.expect("delete participant");
                b.reader = None;
                b.alive = false;
                b_gone = true;
            }
            _ => {
                if b_gone {
                    continue;
                }
                ctx.blackhole(2, true);
                b.alive = false;
                b_gone = true;
                settle = 1400;
            }
        }
        ctx.sleep_ms(settle).await;
        if !read_every_step && step + 1 < depth {
            // statuses are only read at the end of the history: the change fields then cover several events
            continue;
        }
        // an operation only changes the specified matching of the reader it touches; the other reader keeps what
        // the implementation believed before (re-synchronisation after a listed finding)
        let touches_a = matches!(op, "toggle reader a" | "toggle deadline-compat a" | "toggle partition a");
        let (na, nb) = (if touches_a { a.matched() } else { ma }, if touches_a { mb } else { b.matched() });
        let opk = op.replace(' ', "-");
        // (A) membership: which remote readers does the writer consider matched, vs. the specification
        let real_list = w.get_matched_subscriptions().await.unwrap_or_default();
        let in_real = |r: &Option<DataReaderAsync<KeyedData>>, last: &Option<InstanceHandle>| -> bool {
            match (r, last) {
                (Some(r), _) => real_list.contains(&r.get_instance_handle()),
                (None, Some(h)) => real_list.contains(h),
                _ => false,
            }
        };
        if let Some(r) = &a.reader {
            last_a = Some(r.get_instance_handle());
        }
        if let Some(r) = &b.reader {
            last_b = Some(r.get_instance_handle());
        }
        let (ra, rb) = (in_real(&a.reader, &last_a), in_real(&b.reader, &last_b));
        for (name, was, spec, real) in [("a", ma, na, ra), ("b", mb, nb, rb)] {
            if spec != real && read_every_step {
                let tr = if was && !spec { "should-unmatch" } else if !was && spec { "should-match" } else if spec { "should-stay-matched" } else { "should-stay-unmatched" };
                ctx.violation(format!("membership/{opk}/reader-{name}/{tr}"), format!("history {hist:?}: after `{op}` reader {name} is {} by the writer, specification says {}", if real { "matched" } else { "not matched" }, if spec { "matched" } else { "not matched" }));
            }
        }
        // (B) counters must be consistent with the writer's own matched list
        let st = w.get_publication_matched_status().await.expect("status");
        ctx.obs(format!("{op}: cur={} total={} dcur={} dtotal={} list={}", st.current_count, st.total_count, st.current_count_change, st.total_count_change, real_list.len()));
        let newly: i32 = real_list.iter().filter(|h| !prev_list.contains(h)).count() as i32;
        if st.current_count != real_list.len() as i32 {
            ctx.violation(format!("writer/current_count-vs-list/{opk}"), format!("history {hist:?}: current_count={} but get_matched_subscriptions has {}", st.current_count, real_list.len()));
        }
        if read_every_step && st.total_count - prev_total != newly && !(st.total_count - prev_total > newly && newly == 0 && real_list.len() == prev_list.len() && false) {
            ctx.violation(format!("writer/total_count-delta/{opk}/real={}-list={}", st.total_count - prev_total, newly), format!("history {hist:?}: total_count went {prev_total}->{} but {newly} readers are new in the matched list", st.total_count));
        }
        if st.current_count_change != st.current_count - prev_cur {
            ctx.violation(format!("writer/current_count_change/{opk}"), format!("history {hist:?}: current_count_change={} but current_count went {prev_cur}->{}", st.current_count_change, st.current_count));
        }
        if st.total_count_change != st.total_count - prev_total {
            ctx.violation(format!("writer/total_count_change/{opk}"), format!("history {hist:?}: total_count_change={} but total_count went {prev_total}->{}", st.total_count_change, st.total_count));
        }
        prev_cur = st.current_count;
        prev_total = st.total_count;
        prev_list = real_list.clone();
        // reader side: reader a's status against its own matched-publication list
        if let Some(r) = &a.reader {
            let rl = r.get_matched_publications().await.unwrap_or_default();
            let rs = r.get_subscription_matched_status().await.expect("rstatus");
            if rs.current_count != rl.len() as i32 {
                ctx.violation(format!("reader/current_count-vs-list/{opk}"), format!("history {hist:?}: reader a current_count={} list={}", rs.current_count, rl.len()));
            }
            // (re-synchronised like the other clauses: an asymmetry that already existed before this operation was
            // reported when it arose - under the name of the operation that caused it - and is not reported again)
            let asym = rl.contains(&w.get_instance_handle()) != ra;
            let asym_new = asym && !asym_before;
            asym_before = asym;
            if read_every_step && asym_new {
                ctx.violation(format!("reader/asymmetric-match/{opk}"), format!("history {hist:?}: writer side matched={ra}, reader side matched list {}", rl.len()));
            }
            let (pc, pt) = a_prev.unwrap_or((0, 0));
            if rs.current_count_change != rs.current_count - pc {
                ctx.violation(format!("reader/current_count_change/{opk}"), format!("history {hist:?}: reader a current_count_change={} but current_count went {pc}->{}", rs.current_count_change, rs.current_count));
            }
            if rs.total_count_change != rs.total_count - pt {
                ctx.violation(format!("reader/total_count_change/{opk}"), format!("history {hist:?}: reader a total_count_change={} but total_count went {pt}->{}", rs.total_count_change, rs.total_count));
            }
            a_prev = Some((rs.current_count, rs.total_count));
        } else {
            a_prev = None;
            asym_before = false;
        }
        // re-synchronise the specification with what the implementation believes, so that a listed finding does
        // not cascade into the following steps
        let (na, nb) = (ra, rb);
        let _ = (cur, total);
        // wire: nothing of the user writer is addressed to a participant without matched readers
        let t0 = ctx.now();
        let _ = w.write(sample(1, 0, 8), None).await;
        ctx.sleep_ms(450).await;
        let offenders: Vec<String> = crate::sim::with(|wd| {
            wd.net
                .sent_log
                .iter()
                .filter(|(t, src, _, _)| *t >= t0 && *src == 0)
                .filter_map(|(_, _, bytes, locs)| {
                    let m = crate::wire::parse(bytes);
                    let user = m.subs.iter().any(|s| matches!(s.id, crate::wire::DATA | crate::wire::HEARTBEAT | crate::wire::GAP | crate::wire::DATA_FRAG) && crate::wire::is_user_entity(&s.writer));
                    if !user {
                        return None;
                    }
                    let to_a = locs.iter().any(|l| l.address()[15] == 2 && l.port() % 2 == 1);
                    let to_b = locs.iter().any(|l| l.address()[15] == 3 && l.port() % 2 == 1);
                    if (to_a && !na) || (to_b && !nb) {
                        Some(format!("{} -> {}", m.kinds(), if to_a && !na { "a" } else { "b" }))
                    } else {
                        None
                    }
                })
                .collect()
        });
        if !offenders.is_empty() {
            ctx.violation(format!("wire/traffic-to-unmatched/{opk}"), format!("history {hist:?}: after the unmatch the writer still addressed {offenders:?}"));
        }
        resync = (Some(na), Some(nb));
    }
}

pub fn c16(args: &Args) -> Vec<Scenario> {
    let d = if args.thorough() { 5 } else { 4 };
    let mk = |name: String, depth: usize, every: bool| {
        Scenario::new(name, 99, move |ctx| c16_prog(ctx, depth, every)).cfg(|c| {
            c.horizon_ms = 120_000;
            c.step_cap = 3_000_000;
        })
    };
    vec![mk(format!("C16.history[depth={d}]"), d, true), mk(format!("C16.read-at-end[depth={}]", d + 1), d + 1, false)]
}

// ---------------------------------------------------------------------------------------------------------------
// C17
// ---------------------------------------------------------------------------------------------------------------
async fn discovered(p: &DomainParticipantAsync, other: &DomainParticipantAsync) -> bool {
    p.get_discovered_participants().await.map(|v| v.contains(&other.get_instance_handle())).unwrap_or(false)
}

/// two participants with (domain, tag) pairs on one shared multicast medium; SPDP faults up to the bound
async fn c17_isolation(ctx: Ctx, d1: i32, d2: i32, tag_mode: u8) {
    // tag_mode 0: both "tagA"; 1: participant 1 appears as "tagB"; 2: participant 1 appears UNTAGGED to the others (its
    // PID_DOMAIN_TAG parameter is turned into an ignorable vendor parameter in flight) - added after seeded change C17-2
    let tag_same = tag_mode == 0;
    // one factory = one domain tag; different tags need two factories, which the single static worker channel does not
    // allow inside one process, so tags are exercised by rewriting the tag parameter in flight
    let f = ctx.factory("tagA", Some(200));
    if !tag_same {
        // PID_DOMAIN_TAG = 0x4014: rewrite "tagA" -> "tagB" in datagrams sent by participant 1
        crate::sim::with(|w| {
            w.net.rewrite = Some(Box::new(move |d| {
                if d.src == 1 && d.meta {
                    let mut v = d.bytes.as_ref().clone();
                    let mut hit = false;
                    for i in 0..v.len().saturating_sub(4) {
                        if &v[i..i + 4] == b"tagA" {
                            if tag_mode == 2 {
                                // parameter header = pid (2), length (2), string length (4) before the characters
                                if i >= 8 && v[i - 8] == 0x14 && v[i - 7] == 0x40 {
                                    v[i - 8] = 0x01;
                                    v[i - 7] = 0x80;
                                    hit = true;
                                }
                            } else {
                                v[i + 3] = b'B';
                                hit = true;
                            }
                        }
                    }
                    if hit {
                        return Some(v);
                    }
                }
                None
            }))
        });
    }
    ctx.set_window(Box::new(|d, m| d.meta && d.src != d.dst && m.subs.iter().any(|s| s.id == crate::wire::DATA && s.writer == [0, 1, 0, 0xc2])));
    ctx.open_window();
    let p1 = f.create_participant(d1, QosKind::Default, NO_LISTENER, NO_STATUS).await.unwrap();
    let p2 = f.create_participant(d2, QosKind::Default, NO_LISTENER, NO_STATUS).await.unwrap();
    let should = d1 == d2 && tag_same;
    let start = ctx.now();
    let mut seen12 = false;
    let mut seen21 = false;
    loop {
        seen12 |= discovered(&p1, &p2).await;
        seen21 |= discovered(&p2, &p1).await;
        if !should && (seen12 || (seen21 && d1 != d2)) {
            ctx.violation(format!("isolation/discovered-across/{}", if d1 != d2 { "domains" } else { "tags" }), format!("participants in domains {d1}/{d2} (same tag: {tag_same}) discovered each other"));
            return;
        }
        if should && seen12 && seen21 {
            break;
        }
        let quiet = ctx.last_deviation_time().max(start);
        if ctx.now() - quiet > 1500 * MS {
            if should {
                ctx.violation("discovery/not-discovered", format!("same domain and tag, 1.5 s (7 announcement periods) after the last fault: p1 sees p2={seen12}, p2 sees p1={seen21}"));
            }
            break;
        }
        ctx.sleep_ms(50).await;
    }
}

/// lease expiry window and ignore_participant
async fn c17_lease(ctx: Ctx, lease_s: u32, silent_after_ms: i64, ignore: bool) {
    crate::sim::with(|w| w.net.rewrite = Some(Box::new(move |d| if d.meta { patch_lease(&d.bytes, lease_s) } else { None })));
    let f = ctx.factory("", Some(200));
    let p1 = f.create_participant(0, QosKind::Default, NO_LISTENER, NO_STATUS).await.unwrap();
    let p2 = f.create_participant(0, QosKind::Default, NO_LISTENER, NO_STATUS).await.unwrap();
    if !poll_until(&ctx, 10, 2000, || async { discovered(&p1, &p2).await }).await {
        ctx.violation("lease/setup-not-discovered", "not discovered");
        return;
    }
    if ignore {
        p1.ignore_participant(p2.get_instance_handle()).await.expect("ignore");
        ctx.sleep_ms(50).await;
        // announcements keep arriving every 200 ms: it must never come back
        for _ in 0..20 {
            if discovered(&p1, &p2).await {
                ctx.violation("ignore/rediscovered", "an ignored participant is listed as discovered again");
                return;
            }
            ctx.sleep_ms(100).await;
        }
        return;
    }
    ctx.sleep_ms(silent_after_ms).await;
    // last contact = last datagram of p2 delivered to p1 before the black hole
    ctx.blackhole(1, true);
    let last_contact = crate::sim::with(|w| w.net.delivered_log.iter().filter(|(_, d)| d.src == 1 && d.dst == 0).map(|(t, _)| *t).max().unwrap_or(0));
    let lease = lease_s as i64 * 1000 * MS;
    loop {
        let still = discovered(&p1, &p2).await;
        let el = ctx.now() - last_contact;
        if !still {
            if el < lease {
                ctx.violation("lease/removed-too-early", format!("removed {} ms after the last contact, lease {} ms", el / MS, lease / MS));
            }
            ctx.obs(format!("removed after {} ms", el / MS));
            return;
        }
        if el > lease + 50 * MS + 15 * MS {
            ctx.violation("lease/not-removed-in-time", format!("still listed {} ms after the last contact (lease {} ms + one 50 ms worker period)", el / MS, lease / MS));
            return;
        }
        ctx.sleep_ms(5).await;
    }
}

pub fn c17(args: &Args) -> Vec<Scenario> {
    let b = if args.thorough() { 3 } else { 2 };
    let mut v = vec![];
    for (d1, d2, mode) in [(0, 0, 0u8), (0, 1, 0), (0, 0, 1), (0, 0, 2)] {
        let same = ["true", "false", "remote-untagged"][mode as usize];
        v.push(
            Scenario::new(format!("C17.isolation[d={d1}/{d2},same_tag={same}]"), b, move |ctx| c17_isolation(ctx, d1, d2, mode)).cfg(|c| {
                c.shared_multicast = true;
                c.horizon_ms = 60_000;
            }),
        );
    }
    for lease in [1u32, 2] {
        for silent in [0i64, 70, 130, 199] {
            v.push(Scenario::new(format!("C17.lease[lease={lease}s,silent_after={silent}ms]"), 0, move |ctx| c17_lease(ctx, lease, silent, false)).cfg(|c| c.horizon_ms = 60_000));
        }
    }
    v.push(Scenario::new("C17.ignore[]", 0, |ctx| c17_lease(ctx, 100, 0, true)));
    v
}
