//! C15: endpoints match exactly when topic, type, partition and RxO QoS are compatible.
//! (a) function level: the two compatibility functions over the per-policy full (offered x requested) product combined
//!     with every subset of the other policies being incompatible; (b) end to end: single-policy variations and partition
//!     name lists between two real participants.
use crate::dds::*;
use crate::explore::Scenario;
use crate::sim::Ctx;
use dust_dds::infrastructure::qos_policy::*;
use dust_dds::rtps::stateful_reader::RtpsStatefulReader;
use dust_dds::transport::types::{EntityId, Guid, ReliabilityKind};
use dust_dds::verif_hooks::dcps_domain_participant::{data_reader_entity::DataReaderEntity, discovery_methods::verif as dm};
use vutil::serde_json::json;
use vutil::{Args, Report};

fn dur(s: i32) -> DurationKind {
    if s < 0 { DurationKind::Infinite } else { DurationKind::Finite(Duration::new(s, 0)) }
}

/// one policy dimension: name, policy id, list of (label, apply-to-writer-side, apply-to-reader-side, ordinal info)
#[derive(Clone, Debug)]
struct Val {
    label: String,
    v: [i64; 4],
}

#[derive(Clone, Copy, PartialEq, Debug)]
enum Pol {
    Durability,
    Deadline,
    Latency,
    Liveliness,
    Reliability,
    DestinationOrder,
    Ownership,
    Presentation,
    Representation,
}
const POLS: [Pol; 9] = [Pol::Durability, Pol::Deadline, Pol::Latency, Pol::Liveliness, Pol::Reliability, Pol::DestinationOrder, Pol::Ownership, Pol::Presentation, Pol::Representation];

fn policy_id(p: Pol) -> i32 {
    // DDS 1.4 QosPolicyId_t values
    match p {
        Pol::Durability => 2,
        Pol::Presentation => 3,
        Pol::Deadline => 4,
        Pol::Latency => 5,
        Pol::Ownership => 6,
        Pol::Liveliness => 8,
        Pol::Reliability => 11,
        Pol::DestinationOrder => 12,
        Pol::Representation => 23,
    }
}

fn values(p: Pol) -> Vec<Val> {
    let mk = |l: &str, v: [i64; 4]| Val { label: l.to_string(), v };
    match p {
        Pol::Durability => (0..4).map(|k| mk(&format!("kind{k}"), [k, 0, 0, 0])).collect(),
        Pol::Deadline | Pol::Latency => [1, 2, -1].iter().map(|s| mk(&format!("{s}s"), [*s, 0, 0, 0])).collect(),
        Pol::Liveliness => {
            let mut v = vec![];
            for k in 0..3 {
                for l in [1, 2, -1] {
                    v.push(mk(&format!("kind{k},lease{l}"), [k, l, 0, 0]));
                }
            }
            v
        }
        Pol::Reliability | Pol::DestinationOrder | Pol::Ownership => (0..2).map(|k| mk(&format!("kind{k}"), [k, 0, 0, 0])).collect(),
        Pol::Presentation => {
            let mut v = vec![];
            for s in 0..2 {
                for c in 0..2 {
                    for o in 0..2 {
                        v.push(mk(&format!("scope{s},coherent{c},ordered{o}"), [s, c, o, 0]));
                    }
                }
            }
            v
        }
        Pol::Representation => vec![mk("[]", [0, 0, 0, 0]), mk("[X1]", [1, 0, 0, 0]), mk("[X2]", [2, 0, 0, 0]), mk("[X1,X2]", [3, 0, 0, 0]), mk("[X2,X1]", [4, 0, 0, 0])],
    }
}

fn repr_list(k: i64) -> Vec<u16> {
    match k {
        0 => vec![],
        1 => vec![XCDR_DATA_REPRESENTATION],
        2 => vec![XCDR2_DATA_REPRESENTATION],
        3 => vec![XCDR_DATA_REPRESENTATION, XCDR2_DATA_REPRESENTATION],
        _ => vec![XCDR2_DATA_REPRESENTATION, XCDR_DATA_REPRESENTATION],
    }
}

/// reference RxO table (DDS 1.4 §2.2.3, XTypes 1.3 §7.6.3.1.1 for data representation)
fn compatible(p: Pol, off: &Val, req: &Val) -> bool {
    let inf = |x: i64| if x < 0 { i64::MAX } else { x };
    match p {
        Pol::Durability | Pol::Reliability | Pol::DestinationOrder => off.v[0] >= req.v[0],
        Pol::Deadline | Pol::Latency => inf(off.v[0]) <= inf(req.v[0]),
        Pol::Liveliness => off.v[0] >= req.v[0] && inf(off.v[1]) <= inf(req.v[1]),
        Pol::Ownership => off.v[0] == req.v[0],
        Pol::Presentation => off.v[0] >= req.v[0] && (req.v[1] == 0 || off.v[1] == 1) && (req.v[2] == 0 || off.v[2] == 1),
        Pol::Representation => {
            let o = repr_list(off.v[0]);
            let offered = o.first().copied().unwrap_or(XCDR_DATA_REPRESENTATION);
            let mut r = repr_list(req.v[0]);
            if r.is_empty() {
                r.push(XCDR_DATA_REPRESENTATION);
            }
            r.contains(&offered)
        }
    }
}

fn apply_w(p: Pol, v: &Val, q: &mut DataWriterQos, pq: &mut PublisherQos) {
    match p {
        Pol::Durability => q.durability.kind = [DurabilityQosPolicyKind::Volatile, DurabilityQosPolicyKind::TransientLocal, DurabilityQosPolicyKind::Transient, DurabilityQosPolicyKind::Persistent][v.v[0] as usize],
        Pol::Deadline => q.deadline.period = dur(v.v[0] as i32),
        Pol::Latency => q.latency_budget.duration = dur(v.v[0] as i32),
        Pol::Liveliness => {
            q.liveliness.kind = [LivelinessQosPolicyKind::Automatic, LivelinessQosPolicyKind::ManualByParticipant, LivelinessQosPolicyKind::ManualByTopic][v.v[0] as usize];
            q.liveliness.lease_duration = dur(v.v[1] as i32);
        }
        Pol::Reliability => q.reliability.kind = [ReliabilityQosPolicyKind::BestEffort, ReliabilityQosPolicyKind::Reliable][v.v[0] as usize],
        Pol::DestinationOrder => q.destination_order.kind = [DestinationOrderQosPolicyKind::ByReceptionTimestamp, DestinationOrderQosPolicyKind::BySourceTimestamp][v.v[0] as usize],
        Pol::Ownership => q.ownership.kind = [OwnershipQosPolicyKind::Shared, OwnershipQosPolicyKind::Exclusive][v.v[0] as usize],
        Pol::Presentation => {
            pq.presentation.access_scope = [PresentationQosPolicyAccessScopeKind::Instance, PresentationQosPolicyAccessScopeKind::Topic][v.v[0] as usize];
            pq.presentation.coherent_access = v.v[1] == 1;
            pq.presentation.ordered_access = v.v[2] == 1;
        }
        Pol::Representation => q.representation.value = repr_list(v.v[0]),
    }
}
fn apply_r(p: Pol, v: &Val, q: &mut DataReaderQos, sq: &mut SubscriberQos) {
    match p {
        Pol::Durability => q.durability.kind = [DurabilityQosPolicyKind::Volatile, DurabilityQosPolicyKind::TransientLocal, DurabilityQosPolicyKind::Transient, DurabilityQosPolicyKind::Persistent][v.v[0] as usize],
        Pol::Deadline => q.deadline.period = dur(v.v[0] as i32),
        Pol::Latency => q.latency_budget.duration = dur(v.v[0] as i32),
        Pol::Liveliness => {
            q.liveliness.kind = [LivelinessQosPolicyKind::Automatic, LivelinessQosPolicyKind::ManualByParticipant, LivelinessQosPolicyKind::ManualByTopic][v.v[0] as usize];
            q.liveliness.lease_duration = dur(v.v[1] as i32);
        }
        Pol::Reliability => q.reliability.kind = [ReliabilityQosPolicyKind::BestEffort, ReliabilityQosPolicyKind::Reliable][v.v[0] as usize],
        Pol::DestinationOrder => q.destination_order.kind = [DestinationOrderQosPolicyKind::ByReceptionTimestamp, DestinationOrderQosPolicyKind::BySourceTimestamp][v.v[0] as usize],
        Pol::Ownership => q.ownership.kind = [OwnershipQosPolicyKind::Shared, OwnershipQosPolicyKind::Exclusive][v.v[0] as usize],
        Pol::Presentation => {
            sq.presentation.access_scope = [PresentationQosPolicyAccessScopeKind::Instance, PresentationQosPolicyAccessScopeKind::Topic][v.v[0] as usize];
            sq.presentation.coherent_access = v.v[1] == 1;
            sq.presentation.ordered_access = v.v[2] == 1;
        }
        Pol::Representation => q.representation.value = repr_list(v.v[0]),
    }
}

/// a fixed incompatible (offered, requested) pair per policy, used to make "other" policies incompatible
fn incompatible_pair(p: Pol) -> (Val, Val) {
    let vs = values(p);
    for o in &vs {
        for r in &vs {
            if !compatible(p, o, r) {
                return (o.clone(), r.clone());
            }
        }
    }
    unreachable!()
}

/// function-level product; returns a filled report part
pub fn function_level(args: &Args, rep: &mut Report) {
    let mut k = 0usize;
    for (pi, &p) in POLS.iter().enumerate() {
        let vs = values(p);
        for off in &vs {
            for req in &vs {
                for subset in 0u32..(1 << 8) {
                    k += 1;
                    if !args.mine(k) {
                        continue;
                    }
                    let mut wq = DataWriterQos::default();
                    let mut pq = PublisherQos::default();
                    let mut rq = DataReaderQos::default();
                    let mut sq = SubscriberQos::default();
                    // defaults of writer and reader differ (reliability): start from an explicitly compatible base
                    wq.reliability.kind = ReliabilityQosPolicyKind::Reliable;
                    rq.reliability.kind = ReliabilityQosPolicyKind::Reliable;
                    let mut expected: Vec<i32> = vec![];
                    apply_w(p, off, &mut wq, &mut pq);
                    apply_r(p, req, &mut rq, &mut sq);
                    if !compatible(p, off, req) {
                        expected.push(policy_id(p));
                    }
                    let mut bit = 0;
                    for (qi, &q) in POLS.iter().enumerate() {
                        if qi == pi {
                            continue;
                        }
                        if subset & (1 << bit) != 0 {
                            let (o, r) = incompatible_pair(q);
                            apply_w(q, &o, &mut wq, &mut pq);
                            apply_r(q, &r, &mut rq, &mut sq);
                            expected.push(policy_id(q));
                        }
                        bit += 1;
                    }
                    expected.sort();
                    rep.evaluations += 1;
                    // writer side verdict about the discovered reader
                    let sub = dust_dds::verif_hooks::subscription_builtin_topic_data([1; 16], [2; 16], "T", "T", &rq, &sq);
                    let mut got_w: Vec<i32> = dm::discovered_reader_incompatible_qos_policy_list(&wq, &sub, &pq);
                    got_w.sort();
                    // reader side verdict about the discovered writer
                    let publ = dust_dds::verif_hooks::publication_builtin_topic_data([3; 16], [4; 16], "T", "T", &wq, &pq);
                    let guid = Guid::new([9; 12], EntityId::new([0, 0, 9], 0x07));
                    let dre = DataReaderEntity::new(dust_dds::infrastructure::instance::InstanceHandle::new(guid.into()), rq.clone(), "T".to_string(), RtpsStatefulReader::new(guid, ReliabilityKind::Reliable));
                    let mut got_r: Vec<i32> = dm::discovered_writer_incompatible_qos_policy_list(&dre, &publ, &sq);
                    got_r.sort();
                    let label = format!("{p:?}: offered {} requested {}", off.label, req.label);
                    rep.distinct(format!("{p:?}/{}/{}", compatible(p, off, req), subset.count_ones().min(2)));
                    for (side, got) in [("writer-side", &got_w), ("reader-side", &got_r)] {
                        if *got != expected {
                            let missing: Vec<&i32> = expected.iter().filter(|x| !got.contains(x)).collect();
                            let extra: Vec<&i32> = got.iter().filter(|x| !expected.contains(x)).collect();
                            // attribute to the policy under test when it is the one that differs
                            let about_p = missing.contains(&&policy_id(p)) || extra.contains(&&policy_id(p));
                            let what = if about_p {
                                format!("{p:?}/{}", if missing.contains(&&policy_id(p)) { "reported-compatible" } else { "reported-incompatible" })
                            } else {
                                format!("other-policy/missing={missing:?}/extra={extra:?}")
                            };
                            rep.finding(format!("rxo/{side}/{what}"), format!("{label}, other incompatible policies mask {subset:#010b}: {side} reports {got:?}, RxO table says {expected:?}"), json!({"policy": format!("{p:?}"), "offered": off.label, "requested": req.label, "subset": subset}));
                        }
                    }
                    if got_w != got_r {
                        rep.finding(format!("rxo/sides-disagree/{p:?}"), format!("{label}: writer side {got_w:?}, reader side {got_r:?}"), json!({"policy": format!("{p:?}"), "offered": off.label, "requested": req.label, "subset": subset}));
                    }
                    if rep.evaluations % 9973 == 1 {
                        rep.sample(json!({"case": label, "subset": subset, "expected_incompatible_policy_ids": expected}));
                    }
                }
            }
        }
    }
}

// ---------------------------------------------------------------------------------------------------------------
// reference partition rule
// ---------------------------------------------------------------------------------------------------------------
/// textbook POSIX fnmatch (no FNM_* flags): * ? [set] [!set] ranges, backslash escape
pub fn fnmatch(p: &[u8], s: &[u8]) -> bool {
    if p.is_empty() {
        return s.is_empty();
    }
    match p[0] {
        b'*' => (0..=s.len()).any(|k| fnmatch(&p[1..], &s[k..])),
        b'?' => !s.is_empty() && fnmatch(&p[1..], &s[1..]),
        b'[' => {
            if s.is_empty() {
                return false;
            }
            let mut i = 1;
            let neg = i < p.len() && (p[i] == b'!' || p[i] == b'^');
            if neg {
                i += 1;
            }
            let start = i;
            let mut matched = false;
            let mut closed = None;
            while i < p.len() {
                if p[i] == b']' && i > start {
                    closed = Some(i);
                    break;
                }
                if i + 2 < p.len() && p[i + 1] == b'-' && p[i + 2] != b']' {
                    if p[i] <= s[0] && s[0] <= p[i + 2] {
                        matched = true;
                    }
                    i += 3;
                } else {
                    if p[i] == s[0] {
                        matched = true;
                    }
                    i += 1;
                }
            }
            match closed {
                None => s[0] == b'[' && fnmatch(&p[1..], &s[1..]),
                Some(c) => matched != neg && fnmatch(&p[c + 1..], &s[1..]),
            }
        }
        b'\\' if p.len() > 1 => !s.is_empty() && s[0] == p[1] && fnmatch(&p[2..], &s[1..]),
        c => !s.is_empty() && s[0] == c && fnmatch(&p[1..], &s[1..]),
    }
}

fn is_pattern(n: &str) -> bool {
    n.contains('*') || n.contains('?') || n.contains('[')
}

/// DDS 1.4 §2.2.3.13: the partitions match if some name of one side matches some name of the other side, literally
/// or one being a pattern that matches the other (two patterns never match each other); the empty list is [""]
pub fn partitions_match(a: &[String], b: &[String]) -> bool {
    let norm = |v: &[String]| if v.is_empty() { vec![String::new()] } else { v.to_vec() };
    let (a, b) = (norm(a), norm(b));
    for x in &a {
        for y in &b {
            let m = match (is_pattern(x), is_pattern(y)) {
                (false, false) => x == y,
                (true, false) => fnmatch(x.as_bytes(), y.as_bytes()),
                (false, true) => fnmatch(y.as_bytes(), x.as_bytes()),
                (true, true) => x == y,
            };
            if m {
                return true;
            }
        }
    }
    false
}

// ("a+", "aa": '+' is not a fnmatch metacharacter - added after the code-reading audit; ".", "a.c"/"abc": nor is '.')
const NAMES: [&str; 13] = ["", "a", "ab", "a*", "?b", "[ab]", "[!a]b", "b", "abc", "a+", "aa", "a.c", "a(b"];

fn name_lists() -> Vec<Vec<String>> {
    let mut v: Vec<Vec<String>> = vec![vec![]];
    for a in NAMES {
        v.push(vec![a.to_string()]);
    }
    for a in 0..NAMES.len() {
        for b in (a + 1)..NAMES.len() {
            v.push(vec![NAMES[a].to_string(), NAMES[b].to_string()]);
        }
    }
    v
}

/// writer listener recording the offered-incompatible-QoS notifications (the status getter of the async writer is
/// not implemented in dust-dds)
struct IncompatibleListener(std::sync::Arc<std::sync::Mutex<Vec<Vec<i32>>>>);
impl dust_dds::dds_async::data_writer_listener::DataWriterListener<KeyedData> for IncompatibleListener {
    fn on_offered_incompatible_qos(&mut self, _w: DataWriterAsync<KeyedData>, status: dust_dds::infrastructure::status::OfferedIncompatibleQosStatus) -> impl std::future::Future<Output = ()> + Send {
        self.0.lock().unwrap().push(status.policies.iter().filter(|p| p.count > 0).map(|p| p.policy_id).collect());
        core::future::ready(())
    }
}

async fn e2e(ctx: Ctx, mode: usize) {
    let f = ctx.factory("", None);
    let p1 = f.create_participant(0, QosKind::Default, NO_LISTENER, NO_STATUS).await.unwrap();
    let p2 = f.create_participant(0, QosKind::Default, NO_LISTENER, NO_STATUS).await.unwrap();
    let t1 = p1.create_topic::<KeyedData>("T", "T", QosKind::Default, NO_LISTENER, NO_STATUS).await.unwrap();
    let t2 = p2.create_topic::<KeyedData>("T", "T", QosKind::Default, NO_LISTENER, NO_STATUS).await.unwrap();
    let mut wq = DataWriterQos::default();
    let mut pq = PublisherQos::default();
    let mut rq = DataReaderQos::default();
    let mut sq = SubscriberQos::default();
    wq.reliability.kind = ReliabilityQosPolicyKind::Reliable;
    rq.reliability.kind = ReliabilityQosPolicyKind::Reliable;
    let (expect_match, expect_policy, label): (bool, Option<i32>, String) = if mode == 0 {
        // one policy varied over its full product
        let pi = ctx.choose(b'O', POLS.len());
        let p = POLS[pi];
        let vs = values(p);
        let off = &vs[ctx.choose(b'O', vs.len())];
        let req = &vs[ctx.choose(b'O', vs.len())];
        apply_w(p, off, &mut wq, &mut pq);
        apply_r(p, req, &mut rq, &mut sq);
        let c = compatible(p, off, req);
        (c, if c { None } else { Some(policy_id(p)) }, format!("{p:?}/offered={}/requested={}", off.label, req.label))
    } else {
        let lists = name_lists();
        let a = &lists[ctx.choose(b'O', lists.len())];
        let b = &lists[ctx.choose(b'O', lists.len())];
        pq.partition.name = a.clone();
        sq.partition.name = b.clone();
        // whether two *patterns* match each other is not defined by DDS: such pairs are only used when the lists
        // already match (or cannot match) through a literal name
        let undecided = {
            let norm = |v: &Vec<String>| if v.is_empty() { vec![String::new()] } else { v.clone() };
            let (na, nb) = (norm(a), norm(b));
            !partitions_match(a, b) && na.iter().any(|x| is_pattern(x)) && nb.iter().any(|y| is_pattern(y))
        };
        if undecided {
            ctx.obs(format!("partition/writer={a:?}/reader={b:?}: pattern-vs-pattern, undefined by DDS: skipped"));
            return;
        }
        (partitions_match(a, b), None, format!("partition/writer={a:?}/reader={b:?}"))
    };
    let publisher = p1.create_publisher(QosKind::Specific(pq), NO_LISTENER, NO_STATUS).await.unwrap();
    let subscriber = p2.create_subscriber(QosKind::Specific(sq), NO_LISTENER, NO_STATUS).await.unwrap();
    let notified = std::sync::Arc::new(std::sync::Mutex::new(Vec::<Vec<i32>>::new()));
    let w = match publisher.create_datawriter::<KeyedData>(&t1, QosKind::Specific(wq), Some(IncompatibleListener(notified.clone())), &[StatusKind::OfferedIncompatibleQos]).await {
        Ok(w) => w,
        Err(e) => {
            ctx.obs(format!("{label}: writer creation refused {e:?}"));
            return;
        }
    };
    let r = match subscriber.create_datareader::<KeyedData>(&t2, QosKind::Specific(rq), NO_LISTENER, NO_STATUS).await {
        Ok(r) => r,
        Err(e) => {
            ctx.obs(format!("{label}: reader creation refused {e:?}"));
            return;
        }
    };
    ctx.sleep_ms(400).await;
    let ws = w.get_publication_matched_status().await.unwrap();
    let rs = r.get_subscription_matched_status().await.unwrap();
    let wi: Vec<Vec<i32>> = notified.lock().unwrap().clone();
    ctx.obs(format!("{label}: writer matched {} reader matched {} offered-incompatible notifications {:?}", ws.current_count, rs.current_count, wi));
    // (names with a '+' form their own class: the implementation's regex extension is a listed known finding and must not
    // hide other partition mismatches behind the same signature)
    let class = if mode == 0 { label.split('/').next().unwrap().to_string() } else if label.contains('+') { format!("partition-with-plus/expect={expect_match}") } else { format!("partition/expect={expect_match}") };
    if (ws.current_count == 1) != expect_match {
        ctx.violation(format!("e2e/writer/{}/{class}", if expect_match { "not-matched" } else { "matched" }), format!("{label}: writer current_count={} but the pair is {}", ws.current_count, if expect_match { "compatible" } else { "incompatible" }));
    }
    if (rs.current_count == 1) != expect_match {
        ctx.violation(format!("e2e/reader/{}/{class}", if expect_match { "not-matched" } else { "matched" }), format!("{label}: reader current_count={} but the pair is {}", rs.current_count, if expect_match { "compatible" } else { "incompatible" }));
    }
    if let Some(pid) = expect_policy {
        if !wi.iter().any(|n| n.contains(&pid)) {
            ctx.violation(format!("e2e/writer/offending-policy-not-reported/{class}"), format!("{label}: offered incompatible QoS notifications {wi:?}, expected policy id {pid}"));
        }
        if wi.len() > 1 {
            ctx.violation(format!("e2e/writer/incompatible-notified-repeatedly/{class}"), format!("{label}: {} notifications for one incompatible reader", wi.len()));
        }
    } else if mode == 0 && !wi.is_empty() {
        ctx.violation(format!("e2e/writer/incompatible-reported-for-compatible/{class}"), format!("{label}: offered incompatible QoS notified {wi:?}"));
    }
}

pub fn c15(_args: &Args) -> Vec<Scenario> {
    vec![
        Scenario::new("C15.e2e-policy[]", 99, |ctx| e2e(ctx, 0)).cfg(|c| c.keep_logs = false),
        Scenario::new("C15.e2e-partition[]", 99, |ctx| e2e(ctx, 1)).cfg(|c| c.keep_logs = false),
    ]
}
