//! Helpers shared by the scenarios: data types, participant/endpoint construction, polling.
use crate::sim::{Ctx, Factory};
pub use dust_dds::{
    dds_async::{
        data_reader::DataReaderAsync, data_writer::DataWriterAsync, domain_participant::DomainParticipantAsync,
        publisher::PublisherAsync, subscriber::SubscriberAsync, topic::TopicAsync,
    },
    infrastructure::{
        error::{DdsError, DdsResult},
        instance::InstanceHandle,
        listener::NO_LISTENER,
        qos::{DataReaderQos, DataWriterQos, DomainParticipantQos, PublisherQos, QosKind, SubscriberQos, TopicQos},
        qos_policy::*,
        sample_info::{
            InstanceStateKind, Sample, SampleInfo, SampleStateKind, ViewStateKind, ANY_INSTANCE_STATE, ANY_SAMPLE_STATE,
            ANY_VIEW_STATE,
        },
        status::{StatusKind, NO_STATUS},
        time::{Duration, DurationKind, Time},
        type_support::DdsType,
    },
};
use std::rc::Rc;

#[derive(Clone, Debug, PartialEq, DdsType)]
pub struct KeyedData {
    #[dust_dds(key)]
    pub id: u8,
    pub seq: u32,
    pub value: Vec<u8>,
}

#[derive(Clone, Debug, PartialEq, DdsType)]
pub struct PlainData {
    pub seq: u32,
    pub value: Vec<u8>,
}

pub fn pattern(seq: u32, len: usize) -> Vec<u8> {
    (0..len).map(|j| (seq as usize * 31 + j * 7 + j / 251) as u8).collect()
}

pub fn sample(id: u8, seq: u32, len: usize) -> KeyedData {
    KeyedData { id, seq, value: pattern(seq, len) }
}

pub fn reliable_w(history: HistoryQosPolicyKind, max_block_ms: Option<u64>) -> DataWriterQos {
    DataWriterQos {
        reliability: ReliabilityQosPolicy {
            kind: ReliabilityQosPolicyKind::Reliable,
            max_blocking_time: match max_block_ms {
                Some(ms) => DurationKind::Finite(Duration::new((ms / 1000) as i32, ((ms % 1000) * 1_000_000) as u32)),
                None => DurationKind::Infinite,
            },
        },
        history: HistoryQosPolicy { kind: history },
        ..Default::default()
    }
}

pub fn reliable_r(history: HistoryQosPolicyKind) -> DataReaderQos {
    DataReaderQos {
        reliability: ReliabilityQosPolicy {
            kind: ReliabilityQosPolicyKind::Reliable,
            max_blocking_time: DurationKind::Finite(Duration::new(0, 100_000_000)),
        },
        history: HistoryQosPolicy { kind: history },
        ..Default::default()
    }
}

pub fn best_effort_r(history: HistoryQosPolicyKind) -> DataReaderQos {
    DataReaderQos {
        reliability: ReliabilityQosPolicy {
            kind: ReliabilityQosPolicyKind::BestEffort,
            max_blocking_time: DurationKind::Finite(Duration::new(0, 100_000_000)),
        },
        history: HistoryQosPolicy { kind: history },
        ..Default::default()
    }
}

pub struct Node {
    pub participant: DomainParticipantAsync,
    pub topic: TopicAsync,
    pub publisher: PublisherAsync,
    pub subscriber: SubscriberAsync,
}

pub async fn node<T: dust_dds::xtypes::type_support::TypeSupport + 'static>(
    f: &Rc<Factory>,
    domain: i32,
    topic: &str,
) -> Node {
    let participant = f.create_participant(domain, QosKind::Default, NO_LISTENER, NO_STATUS).await.expect("participant");
    let topic = participant.create_topic::<T>(topic, "T", QosKind::Default, NO_LISTENER, NO_STATUS).await.expect("topic");
    let publisher = participant.create_publisher(QosKind::Default, NO_LISTENER, NO_STATUS).await.expect("publisher");
    let subscriber = participant.create_subscriber(QosKind::Default, NO_LISTENER, NO_STATUS).await.expect("subscriber");
    Node { participant, topic, publisher, subscriber }
}

/// poll `cond` every `step_ms` until true or `max_ms` elapsed; returns whether it became true
pub async fn poll_until<F, Fut>(ctx: &Ctx, step_ms: i64, max_ms: i64, mut cond: F) -> bool
where
    F: FnMut() -> Fut,
    Fut: std::future::Future<Output = bool>,
{
    let start = ctx.now();
    loop {
        if cond().await {
            return true;
        }
        if ctx.now() - start >= max_ms * crate::sim::MS {
            return false;
        }
        ctx.sleep_ms(step_ms).await;
    }
}

pub async fn wait_pub_matched<T>(ctx: &Ctx, w: &DataWriterAsync<T>, n: i32, max_ms: i64) -> bool {
    poll_until(ctx, 10, max_ms, || async { w.get_publication_matched_status().await.map(|s| s.current_count == n).unwrap_or(false) }).await
}

pub async fn wait_sub_matched<T>(ctx: &Ctx, r: &DataReaderAsync<T>, n: i32, max_ms: i64) -> bool {
    poll_until(ctx, 10, max_ms, || async { r.get_subscription_matched_status().await.map(|s| s.current_count == n).unwrap_or(false) }).await
}

pub async fn take_all<T: dust_dds::xtypes::type_support::TypeSupport>(r: &DataReaderAsync<T>) -> Vec<Sample<T>> {
    match r.take(i32::MAX, ANY_SAMPLE_STATE, ANY_VIEW_STATE, ANY_INSTANCE_STATE).await {
        Ok(v) => v,
        Err(DdsError::NoData) => vec![],
        Err(e) => panic!("take failed: {e:?}"),
    }
}

pub async fn read_all<T: dust_dds::xtypes::type_support::TypeSupport>(r: &DataReaderAsync<T>) -> Vec<Sample<T>> {
    match r.read(i32::MAX, ANY_SAMPLE_STATE, ANY_VIEW_STATE, ANY_INSTANCE_STATE).await {
        Ok(v) => v,
        Err(DdsError::NoData) => vec![],
        Err(e) => panic!("read failed: {e:?}"),
    }
}

pub fn user_window() -> crate::sim::WindowFn {
    Box::new(|_d, m| m.has_user_traffic())
}
