//! C26 (content-filtered topics), C32 (wait sets), C33 (listener dispatch).
use crate::dds::*;
use crate::explore::Scenario;
use crate::sim::Ctx;
use dust_dds::dds_async::wait_set::{ConditionAsync, WaitSetAsync};
use std::cell::RefCell;
use std::rc::Rc;
use std::sync::{Arc, Mutex};
use vutil::Args;

#[derive(Clone, Debug, PartialEq, DdsType)]
pub struct FilterData {
    #[dust_dds(key)]
    pub id: u8,
    pub x: i32,
    pub s: String,
    pub seq: u32,
}

// ---------------------------------------------------------------------------------------------------------------
// C26
// ---------------------------------------------------------------------------------------------------------------
/// concatenate the submessages of several RTPS messages of one sender into a single datagram (what a batching
/// writer or a coalescing network stack produces)
fn merge(datagrams: &[Vec<u8>]) -> Vec<u8> {
    let mut out = datagrams[0][..20].to_vec();
    for d in datagrams {
        out.extend_from_slice(&d[20..]);
    }
    out
}

async fn content_filter(ctx: Ctx, expr: &'static str, param: &'static str, pass_value: (i32, &'static str), fail_value: (i32, &'static str), reliable: bool, n: usize) {
    let f = ctx.factory("", None);
    let n1 = node::<FilterData>(&f, 0, "T").await;
    let n2 = node::<FilterData>(&f, 0, "T").await;
    let cft = n2.participant.create_contentfilteredtopic("TF", &n2.topic, expr.to_string(), vec![param.to_string()]).await.expect("cft");
    let mut wq = reliable_w(HistoryQosPolicyKind::KeepAll, Some(100));
    let mut rq = reliable_r(HistoryQosPolicyKind::KeepAll);
    if !reliable {
        wq.reliability.kind = ReliabilityQosPolicyKind::BestEffort;
        rq.reliability.kind = ReliabilityQosPolicyKind::BestEffort;
    }
    let w = n1.publisher.create_datawriter::<FilterData>(&n1.topic, QosKind::Specific(wq), NO_LISTENER, NO_STATUS).await.expect("writer");
    let r = n2.subscriber.create_datareader::<FilterData>(&cft, QosKind::Specific(rq.clone()), NO_LISTENER, NO_STATUS).await.expect("filtered reader");
    // an unfiltered reader on the related topic as control
    let r_all = n2.subscriber.create_datareader::<FilterData>(&n2.topic, QosKind::Specific(rq), NO_LISTENER, NO_STATUS).await.expect("plain reader");
    if !wait_pub_matched(&ctx, &w, 2, 3000).await {
        ctx.violation("setup/no-match", "writer did not match both readers");
        return;
    }
    // which of the three samples pass the filter, and how the three DATA datagrams are grouped on arrival
    // pattern: bit i = sample i passes; grouping: bit i = datagram i+1 arrives in the same datagram as datagram i (all
    // compositions of n)
    let pattern = ctx.choose(b'O', 1 << n);
    let grouping = ctx.choose(b'O', 1 << (n - 1));
    let mut groups: Vec<Vec<usize>> = vec![vec![0]];
    for i in 1..n {
        if grouping & (1 << (i - 1)) != 0 {
            groups.last_mut().unwrap().push(i);
        } else {
            groups.push(vec![i]);
        }
    }
    let stash: Rc<RefCell<Vec<Vec<u8>>>> = Rc::new(RefCell::new(vec![]));
    if grouping != 0 {
        let st = stash.clone();
        crate::sim::with(|wd| {
            wd.net.filter = Some(Box::new(move |d, m| {
                let is_data = d.src == 0 && d.dst == 1 && !d.meta && m.subs.iter().any(|s| s.id == crate::wire::DATA && crate::wire::is_user_entity(&s.writer));
                if is_data {
                    st.borrow_mut().push(d.bytes.as_ref().clone());
                }
                is_data
            }))
        });
    }
    let mut expected = vec![];
    for i in 0..n as u32 {
        let pass = pattern & (1 << i) != 0;
        let (x, s) = if pass { pass_value } else { fail_value };
        w.write(FilterData { id: 1 + (i % 2) as u8, x, s: s.to_string(), seq: i }, None).await.expect("write");
        if pass {
            expected.push(i);
        }
    }
    ctx.sleep_ms(5).await;
    if grouping != 0 {
        crate::sim::with(|wd| wd.net.filter = None);
        let st: Vec<Vec<u8>> = stash.borrow().clone();
        // every DATA datagram was addressed once per matched reader proxy; keep one copy per sequence number
        let mut uniq: Vec<(i64, Vec<u8>)> = vec![];
        for d in st {
            let m = crate::wire::parse(&d);
            let sn = m.subs.iter().find(|s| s.id == crate::wire::DATA).map(|s| s.sn).unwrap_or(0);
            let rid = m.subs.iter().find(|s| s.id == crate::wire::DATA).map(|s| s.reader).unwrap_or_default();
            uniq.push((sn * 1000 + (rid[1] as i64 % 100) * 4 + (rid[3] as i64 % 4), d));
        }
        uniq.sort_by_key(|u| u.0);
        // group per destination reader entity (the writer sends one copy per reader proxy)
        let mut readers: Vec<i64> = uniq.iter().map(|u| u.0 % 1000).collect();
        readers.sort();
        readers.dedup();
        for rd in readers {
            let ds: Vec<Vec<u8>> = uniq.iter().filter(|u| u.0 % 1000 == rd).map(|u| u.1.clone()).collect();
            if ds.len() != n {
                ctx.violation("setup/unexpected-datagrams", format!("expected {n} DATA datagrams per reader, stashed {}", ds.len()));
                return;
            }
            for g in &groups {
                ctx.inject(1, merge(&ds[g[0]..=*g.last().unwrap()]));
            }
        }
    }
    ctx.sleep_ms(600).await;
    let got: Vec<u32> = take_all(&r).await.iter().filter_map(|s| s.data.as_ref().map(|d| d.seq)).collect();
    let got_all: Vec<u32> = take_all(&r_all).await.iter().filter_map(|s| s.data.as_ref().map(|d| d.seq)).collect();
    let gname = groups.iter().map(|g| g.len().to_string()).collect::<Vec<_>>().join("+");
    ctx.obs(format!("pattern={pattern:03b} grouping={gname} filtered={got:?} plain={got_all:?}"));
    let mut g = got.clone();
    g.sort();
    if got_all.len() != n {
        ctx.violation(format!("plain-reader-lost-samples/{gname}"), format!("the unfiltered control reader got {got_all:?}"));
    }
    for e in &expected {
        if !g.contains(e) {
            ctx.violation(format!("passing-sample-lost/{gname}"), format!("filter `{expr}` %0={param}: samples {expected:?} pass, reader presented {got:?} (pattern {pattern:03b})"));
            break;
        }
    }
    for x in &g {
        if !expected.contains(x) {
            ctx.violation(format!("failing-sample-presented/{gname}"), format!("filter `{expr}` %0={param}: samples {expected:?} pass, reader presented {got:?}"));
            break;
        }
    }
}

/// filters on the other members of the type and malformed parameters: whatever the filter, the reader must present
/// exactly the passing samples - or the filter must be refused when it is created - and the participant must survive
async fn content_filter_other(ctx: Ctx, expr: &'static str, param: &'static str, passes: fn(&FilterData) -> bool) {
    let f = ctx.factory("", None);
    let n1 = node::<FilterData>(&f, 0, "T").await;
    let n2 = node::<FilterData>(&f, 0, "T").await;
    let cft = match n2.participant.create_contentfilteredtopic("TF", &n2.topic, expr.to_string(), vec![param.to_string()]).await {
        Ok(c) => c,
        Err(_) => {
            ctx.obs("filter refused at creation");
            return;
        }
    };
    let w = n1.publisher.create_datawriter::<FilterData>(&n1.topic, QosKind::Specific(reliable_w(HistoryQosPolicyKind::KeepAll, Some(100))), NO_LISTENER, NO_STATUS).await.expect("writer");
    let r = match n2.subscriber.create_datareader::<FilterData>(&cft, QosKind::Specific(reliable_r(HistoryQosPolicyKind::KeepAll)), NO_LISTENER, NO_STATUS).await {
        Ok(r) => r,
        Err(_) => {
            ctx.obs("reader on the filtered topic refused");
            return;
        }
    };
    if !wait_pub_matched(&ctx, &w, 1, 3000).await {
        ctx.violation("setup/no-match", "writer did not match the filtered reader");
        return;
    }
    let samples = [FilterData { id: 1, x: 5, s: "a".into(), seq: 0 }, FilterData { id: 2, x: -1, s: "b".into(), seq: 1 }, FilterData { id: 1, x: 7, s: "".into(), seq: 2 }];
    let mut expected = vec![];
    for d in &samples {
        w.write(d.clone(), None).await.expect("write");
        if passes(d) {
            expected.push(d.seq);
        }
    }
    ctx.sleep_ms(500).await;
    let mut got: Vec<u32> = take_all(&r).await.into_iter().filter_map(|s| s.data.map(|d| d.seq)).collect();
    got.sort();
    if got != expected {
        ctx.violation(format!("other-member/wrong-samples/{expr}"), format!("filter `{expr}` %0={param}: samples {expected:?} pass, reader presented {got:?}"));
    }
}

pub fn c26(_args: &Args) -> Vec<Scenario> {
    let mut v = vec![];
    // (a filter naming a member the type does not have is left out: what it should select is not defined)
    let others: [(&'static str, &'static str, &'static str, fn(&FilterData) -> bool); 4] = [
        ("u8-eq", "id = %0", "1", |d| d.id == 1),
        ("u32-eq", "seq = %0", "1", |d| d.seq == 1),
        ("u32-le", "seq <= %0", "1", |d| d.seq <= 1),
        ("int-eq-malformed-parameter", "x = %0", "abc", |_| false),
    ];
    for (name, expr, param, passes) in others {
        v.push(Scenario::new(format!("C26.other[{name}]"), 0, move |ctx| content_filter_other(ctx, expr, param, passes)));
    }
    for (name, expr, param, pass, fail) in [
        ("int-eq", "x = %0", "5", (5, "a"), (6, "a")),
        ("int-le", "x <= %0", "5", (4, "a"), (6, "a")),
        ("int-le-boundary", "x <= %0", "5", (5, "a"), (i32::MAX, "a")),
        ("int-eq-negative", "x = %0", "-1", (-1, "a"), (1, "a")),
        ("str-eq", "s = %0", "RED", (0, "RED"), (0, "BLUE")),
        ("str-le", "s <= %0", "M", (0, "A"), (0, "Z")),
        ("str-eq-empty", "s = %0", "", (0, ""), (0, "x")),
        // spelling of the expression, range ends, prefixes and case (string comparison is by code point)
        ("int-le-no-spaces", "x<=%0", "5", (5, "a"), (6, "a")),
        ("int-eq-no-spaces", "x=%0", "5", (5, "a"), (4, "a")),
        ("int-le-min", "x <= %0", "-2147483648", (i32::MIN, "a"), (i32::MIN + 1, "a")),
        ("int-le-max", "x <= %0", "2147483646", (2147483646, "a"), (i32::MAX, "a")),
        ("int-eq-zero", "x = %0", "0", (0, "a"), (-1, "a")),
        ("int-le-negative", "x <= %0", "-1", (-2, "a"), (0, "a")),
        ("str-le-prefix", "s <= %0", "AB", (0, "A"), (0, "ABA")),
        ("str-le-equal", "s <= %0", "AB", (0, "AB"), (0, "B")),
        ("str-eq-case", "s = %0", "red", (0, "red"), (0, "RED")),
        ("str-eq-prefix", "s = %0", "RED", (0, "RED"), (0, "REDS")),
        ("str-le-non-ascii", "s <= %0", "z", (0, "a"), (0, "\u{e9}")),
    ] {
        let thorough = std::env::args().any(|a| a == "thorough");
        for reliable in [true, false] {
            let ns: &[usize] = if thorough { &[3, 4, 5] } else { &[3, 4] };
            for &n in ns {
                v.push(Scenario::new(format!("C26.filter[{name},reliable={reliable},samples={n}]"), 99, move |ctx| content_filter(ctx, expr, param, pass, fail, reliable, n)));
            }
        }
    }
    v
}

// ---------------------------------------------------------------------------------------------------------------
// C32 wait sets
// ---------------------------------------------------------------------------------------------------------------
/// three client tasks race at mail granularity: a waiter, a status raiser (remote write) and a mask changer
async fn waitset(ctx: Ctx, variant: usize) {
    let f = ctx.factory("", None);
    let n1 = node::<KeyedData>(&f, 0, "T").await;
    let n2 = node::<KeyedData>(&f, 0, "T").await;
    let w = n1.publisher.create_datawriter::<KeyedData>(&n1.topic, QosKind::Specific(reliable_w(HistoryQosPolicyKind::KeepAll, Some(100))), NO_LISTENER, NO_STATUS).await.expect("writer");
    let r = n2.subscriber.create_datareader::<KeyedData>(&n2.topic, QosKind::Specific(reliable_r(HistoryQosPolicyKind::KeepAll)), NO_LISTENER, NO_STATUS).await.expect("reader");
    if !wait_pub_matched(&ctx, &w, 1, 3000).await || !wait_sub_matched(&ctx, &r, 1, 3000).await {
        ctx.violation("setup/no-match", "no match");
        return;
    }
    // consume the matched statuses so that only DataAvailable is in play
    let _ = r.get_subscription_matched_status().await;
    let cond = r.get_statuscondition();
    // variant 0: DataAvailable enabled from the start; 1: enabled later by the mask changer (status already
    // changed by then); 2: waiter attaches two conditions (reader + writer's PublicationMatched, never raised)
    let initial: &[StatusKind] = if variant == 1 { &[StatusKind::SampleLost] } else { &[StatusKind::DataAvailable] };
    cond.set_enabled_statuses(initial).await.expect("set_enabled_statuses");
    // variants 3-5 (added after seeded change C32-1, which dropped the notification senders of earlier waiters):
    // 3: two wait sets on the same condition, two concurrent waiters; 4: waiter A on {reader, writer} conditions and
    // waiter B on {reader}; 5: one wait set that waits, is woken, reads, and waits again for a second sample
    let mut sets: Vec<WaitSetAsync> = vec![];
    let nsets = if variant == 3 || variant == 4 { 2 } else { 1 };
    for k in 0..nsets {
        let mut ws = WaitSetAsync::new();
        ws.attach_condition(ConditionAsync::StatusCondition(cond.clone())).await.expect("attach");
        if variant == 2 || (variant == 4 && k == 0) {
            let wc = w.get_statuscondition();
            let _ = w.get_publication_matched_status().await;
            wc.set_enabled_statuses(&[StatusKind::OfferedDeadlineMissed]).await.expect("wc");
            ws.attach_condition(ConditionAsync::StatusCondition(wc)).await.expect("attach2");
        }
        sets.push(ws);
    }
    let results: Vec<Rc<RefCell<Option<(i64, Result<usize, String>)>>>> = (0..nsets).map(|_| Rc::new(RefCell::new(None))).collect();
    let raised_at: Rc<RefCell<Option<i64>>> = Rc::new(RefCell::new(None));
    let second: Rc<RefCell<Option<Result<usize, String>>>> = Rc::new(RefCell::new(None));
    ctx.set_sched_window(true);
    // waiters
    for (k, ws) in sets.into_iter().enumerate() {
        let (res, ctx2, r2, sec) = (results[k].clone(), ctx.clone(), r.clone(), second.clone());
        ctx.spawn(async move {
            let x = ws.wait().await;
            *res.borrow_mut() = Some((ctx2.now(), x.map(|v| v.len()).map_err(|e| format!("{e:?}"))));
            if variant == 5 {
                let _ = take_all(&r2).await;
                let y = ws.wait().await;
                *sec.borrow_mut() = Some(y.map(|v| v.len()).map_err(|e| format!("{e:?}")));
            }
        });
    }
    // raiser
    {
        let (w2, ra, ctx2) = (w.clone(), raised_at.clone(), ctx.clone());
        ctx.spawn(async move {
            w2.write(sample(1, 0, 8), None).await.expect("write");
            *ra.borrow_mut() = Some(ctx2.now());
        });
    }
    // mask changer
    if variant == 1 {
        let c2 = cond.clone();
        ctx.spawn(async move {
            c2.set_enabled_statuses(&[StatusKind::DataAvailable]).await.expect("enable");
        });
    }
    // let everything interleave, then settle
    ctx.sleep_ms(30).await;
    ctx.set_sched_window(false);
    ctx.sleep_ms(400).await;
    // at this point: data was written and delivered, DataAvailable is enabled, nobody read the data:
    // the trigger value must be true and the waiter must have been woken with a non-empty list
    // (variant 5: the waiter itself takes the sample after it is woken, so neither holds at this point)
    let trig = variant == 5 || cond.get_trigger_value().await.unwrap_or(false);
    let have_data = variant == 5 || !read_all(&r).await.is_empty();
    if !have_data {
        ctx.violation("setup/no-data", "the written sample never arrived");
        return;
    }
    // (the read above clears DataAvailable, so the trigger value was sampled before it)
    if !trig {
        ctx.violation(format!("trigger-false/variant{variant}"), "enabled status changed and not yet read, but get_trigger_value is false");
    }
    for (k, result) in results.iter().enumerate() {
        let who = if nsets > 1 { format!("/waiter{k}") } else { String::new() };
        match result.borrow().clone() {
            None => ctx.violation(format!("wait-never-woke/variant{variant}{who}"), "an attached condition has been true for 400 ms but wait() is still pending"),
            Some((_, Ok(0))) => ctx.violation(format!("wait-returned-empty/variant{variant}{who}"), "wait() returned Ok with an empty condition list"),
            Some((_, Ok(_))) => {}
            Some((_, Err(e))) => ctx.violation(format!("wait-error/variant{variant}{who}/{e}"), "wait() failed"),
        }
    }
    if variant == 5 {
        // second round: the first sample was taken by the waiter; a new sample must wake the second wait()
        if second.borrow().is_some() {
            ctx.violation("second-wait-returned-without-new-data/variant5", format!("the second wait() returned {:?} although the data had been taken and nothing new was written", second.borrow()));
            return;
        }
        w.write(sample(1, 1, 8), None).await.expect("write2");
        ctx.sleep_ms(400).await;
        match second.borrow().clone() {
            None => ctx.violation("second-wait-never-woke/variant5", "a new sample arrived 400 ms ago but the second wait() on the same wait set is still pending"),
            Some(Ok(0)) => ctx.violation("second-wait-returned-empty/variant5", "empty condition list"),
            Some(Ok(_)) => {}
            Some(Err(e)) => ctx.violation(format!("second-wait-error/variant5/{e}"), "wait() failed"),
        }
    }
}

pub fn c32(args: &Args) -> Vec<Scenario> {
    let b = if args.thorough() { 4 } else { 3 };
    (0..6).map(|k| Scenario::new(format!("C32.waitset[variant={k}]"), b, move |ctx| waitset(ctx, k)).cfg(|c| c.horizon_ms = 20_000)).collect()
}

// ---------------------------------------------------------------------------------------------------------------
// C33 listener dispatch
// ---------------------------------------------------------------------------------------------------------------
type Log = Arc<Mutex<Vec<String>>>;

struct RL(Log);
impl dust_dds::dds_async::data_reader_listener::DataReaderListener<KeyedData> for RL {
    fn on_data_available(&mut self, _r: DataReaderAsync<KeyedData>) -> impl std::future::Future<Output = ()> + Send {
        self.0.lock().unwrap().push("reader:data_available".into());
        core::future::ready(())
    }
    fn on_subscription_matched(&mut self, _r: DataReaderAsync<KeyedData>, _s: dust_dds::infrastructure::status::SubscriptionMatchedStatus) -> impl std::future::Future<Output = ()> + Send {
        self.0.lock().unwrap().push("reader:subscription_matched".into());
        core::future::ready(())
    }
    fn on_requested_incompatible_qos(&mut self, _r: DataReaderAsync<KeyedData>, _s: dust_dds::infrastructure::status::RequestedIncompatibleQosStatus) -> impl std::future::Future<Output = ()> + Send {
        self.0.lock().unwrap().push("reader:requested_incompatible_qos".into());
        core::future::ready(())
    }
    fn on_sample_rejected(&mut self, _r: DataReaderAsync<KeyedData>, _s: dust_dds::infrastructure::status::SampleRejectedStatus) -> impl std::future::Future<Output = ()> + Send {
        self.0.lock().unwrap().push("reader:sample_rejected".into());
        core::future::ready(())
    }
    fn on_requested_deadline_missed(&mut self, _r: DataReaderAsync<KeyedData>, _s: dust_dds::infrastructure::status::RequestedDeadlineMissedStatus) -> impl std::future::Future<Output = ()> + Send {
        self.0.lock().unwrap().push("reader:requested_deadline_missed".into());
        core::future::ready(())
    }
}
struct SL(Log);
impl dust_dds::dds_async::subscriber_listener::SubscriberListener for SL {
    fn on_data_on_readers(&mut self, _s: SubscriberAsync) -> impl std::future::Future<Output = ()> + Send {
        self.0.lock().unwrap().push("subscriber:data_on_readers".into());
        core::future::ready(())
    }
    fn on_data_available(&mut self, _r: DataReaderAsync<()>) -> impl std::future::Future<Output = ()> + Send {
        self.0.lock().unwrap().push("subscriber:data_available".into());
        core::future::ready(())
    }
    fn on_subscription_matched(&mut self, _r: DataReaderAsync<()>, _s: dust_dds::infrastructure::status::SubscriptionMatchedStatus) -> impl std::future::Future<Output = ()> + Send {
        self.0.lock().unwrap().push("subscriber:subscription_matched".into());
        core::future::ready(())
    }
    fn on_requested_incompatible_qos(&mut self, _r: DataReaderAsync<()>, _s: dust_dds::infrastructure::status::RequestedIncompatibleQosStatus) -> impl std::future::Future<Output = ()> + Send {
        self.0.lock().unwrap().push("subscriber:requested_incompatible_qos".into());
        core::future::ready(())
    }
    fn on_sample_rejected(&mut self, _r: DataReaderAsync<()>, _s: dust_dds::infrastructure::status::SampleRejectedStatus) -> impl std::future::Future<Output = ()> + Send {
        self.0.lock().unwrap().push("subscriber:sample_rejected".into());
        core::future::ready(())
    }
    fn on_requested_deadline_missed(&mut self, _r: DataReaderAsync<()>, _s: dust_dds::infrastructure::status::RequestedDeadlineMissedStatus) -> impl std::future::Future<Output = ()> + Send {
        self.0.lock().unwrap().push("subscriber:requested_deadline_missed".into());
        core::future::ready(())
    }
}
struct PL(Log);
impl dust_dds::dds_async::domain_participant_listener::DomainParticipantListener for PL {
    fn on_data_available(&mut self, _r: DataReaderAsync<()>) -> impl std::future::Future<Output = ()> + Send {
        self.0.lock().unwrap().push("participant:data_available".into());
        core::future::ready(())
    }
    fn on_subscription_matched(&mut self, _r: DataReaderAsync<()>, _s: dust_dds::infrastructure::status::SubscriptionMatchedStatus) -> impl std::future::Future<Output = ()> + Send {
        self.0.lock().unwrap().push("participant:subscription_matched".into());
        core::future::ready(())
    }
    fn on_requested_incompatible_qos(&mut self, _r: DataReaderAsync<()>, _s: dust_dds::infrastructure::status::RequestedIncompatibleQosStatus) -> impl std::future::Future<Output = ()> + Send {
        self.0.lock().unwrap().push("participant:requested_incompatible_qos".into());
        core::future::ready(())
    }
    fn on_sample_rejected(&mut self, _r: DataReaderAsync<()>, _s: dust_dds::infrastructure::status::SampleRejectedStatus) -> impl std::future::Future<Output = ()> + Send {
        self.0.lock().unwrap().push("participant:sample_rejected".into());
        core::future::ready(())
    }
    fn on_requested_deadline_missed(&mut self, _r: DataReaderAsync<()>, _s: dust_dds::infrastructure::status::RequestedDeadlineMissedStatus) -> impl std::future::Future<Output = ()> + Send {
        self.0.lock().unwrap().push("participant:requested_deadline_missed".into());
        core::future::ready(())
    }
}

const EVENTS: &[(&str, StatusKind)] = &[
    ("data", StatusKind::DataAvailable),
    ("subscription_matched", StatusKind::SubscriptionMatched),
    ("requested_incompatible_qos", StatusKind::RequestedIncompatibleQos),
    ("sample_rejected", StatusKind::SampleRejected),
    ("requested_deadline_missed", StatusKind::RequestedDeadlineMissed),
];

/// subscriber side: listener presence (3 bits) x mask enabling the status at each level (3 bits) x event
async fn listeners(ctx: Ctx, event: usize) {
    let presence = ctx.choose(b'O', 8);
    let masks = ctx.choose(b'O', 8);
    let data_on_readers_at_sub = if event == 0 { ctx.choose(b'O', 2) == 1 } else { false };
    let (ename, status) = EVENTS[event];
    let log: Log = Arc::new(Mutex::new(vec![]));
    let f = ctx.factory("", None);
    let n1 = node::<KeyedData>(&f, 0, "T").await;
    let m = |lvl: usize| -> Vec<StatusKind> {
        let mut v = vec![];
        if masks & (1 << lvl) != 0 {
            v.push(status);
        }
        if lvl >= 1 && data_on_readers_at_sub && lvl == 1 {
            v.push(StatusKind::DataOnReaders);
        }
        v
    };
    let p2 = if presence & 4 != 0 {
        f.create_participant(0, QosKind::Default, Some(PL(log.clone())), &m(2)).await.unwrap()
    } else {
        f.create_participant(0, QosKind::Default, NO_LISTENER, NO_STATUS).await.unwrap()
    };
    let topic2 = p2.create_topic::<KeyedData>("T", "T", QosKind::Default, NO_LISTENER, NO_STATUS).await.unwrap();
    let sub = if presence & 2 != 0 {
        p2.create_subscriber(QosKind::Default, Some(SL(log.clone())), &m(1)).await.unwrap()
    } else {
        p2.create_subscriber(QosKind::Default, NO_LISTENER, NO_STATUS).await.unwrap()
    };
    let mut rq = reliable_r(HistoryQosPolicyKind::KeepAll);
    if event == 3 {
        rq.resource_limits.max_samples = dust_dds::infrastructure::qos_policy::Length::Limited(1);
        rq.resource_limits.max_samples_per_instance = dust_dds::infrastructure::qos_policy::Length::Limited(1);
    }
    let mut wq = reliable_w(HistoryQosPolicyKind::KeepAll, Some(100));
    if event == 4 {
        // one sample, then silence for one and a half periods: exactly one period is missed inside the observation window
        let d = dust_dds::infrastructure::qos_policy::DeadlineQosPolicy { period: DurationKind::Finite(Duration::new(0, 200_000_000)) };
        rq.deadline = d.clone();
        wq.deadline = d;
    }
    if event == 2 {
        // writer offers VOLATILE, reader requests TRANSIENT_LOCAL: incompatible
        rq.durability.kind = DurabilityQosPolicyKind::TransientLocal;
        wq.durability.kind = DurabilityQosPolicyKind::Volatile;
    }
    let r = if presence & 1 != 0 {
        sub.create_datareader::<KeyedData>(&topic2, QosKind::Specific(rq), Some(RL(log.clone())), &m(0)).await.unwrap()
    } else {
        sub.create_datareader::<KeyedData>(&topic2, QosKind::Specific(rq), NO_LISTENER, NO_STATUS).await.unwrap()
    };
    let w = n1.publisher.create_datawriter::<KeyedData>(&n1.topic, QosKind::Specific(wq), NO_LISTENER, NO_STATUS).await.expect("writer");
    ctx.sleep_ms(300).await;
    if event == 0 || event == 3 {
        // subscription matched callbacks are not the event under test here
        log.lock().unwrap().retain(|l| !l.ends_with("subscription_matched"));
        let before = log.lock().unwrap().len();
        let _ = before;
        w.write(sample(1, 0, 8), None).await.expect("write");
        if event == 3 {
            ctx.sleep_ms(100).await;
            log.lock().unwrap().retain(|l| !l.contains("data_"));
            w.write(sample(1, 1, 8), None).await.expect("write2");
        }
        ctx.sleep_ms(400).await;
    }
    if event == 4 {
        w.write(sample(1, 0, 8), None).await.expect("write");
        ctx.sleep_ms(320).await;
    }
    let _ = &r;
    let l: Vec<String> = log.lock().unwrap().clone();
    let relevant: Vec<&String> = l
        .iter()
        .filter(|x| match event {
            0 => x.contains("data_"),
            1 => x.ends_with("subscription_matched"),
            2 => x.ends_with("requested_incompatible_qos"),
            4 => x.ends_with("requested_deadline_missed"),
            _ => x.ends_with("sample_rejected"),
        })
        .collect();
    // expected receiver
    let has = |lvl: usize| presence & (1 << lvl) != 0 && masks & (1 << lvl) != 0;
    let expected: Option<String> = if event == 0 && data_on_readers_at_sub && presence & 2 != 0 {
        Some("subscriber:data_on_readers".into())
    } else if has(0) {
        Some(format!("reader:{}", if event == 0 { "data_available" } else { ename }))
    } else if has(1) {
        Some(format!("subscriber:{}", if event == 0 { "data_available" } else { ename }))
    } else if has(2) {
        Some(format!("participant:{}", if event == 0 { "data_available" } else { ename }))
    } else {
        None
    };
    ctx.obs(format!("event={ename} presence={presence:03b} masks={masks:03b} dor={data_on_readers_at_sub} -> {relevant:?} expected {expected:?}"));
    let cfg = format!("presence={presence:03b},masks={masks:03b},dor={}", data_on_readers_at_sub as u8);
    match (&expected, relevant.len()) {
        (None, 0) => {}
        (None, _) => ctx.violation(format!("{ename}/callback-without-enabled-listener"), format!("{cfg}: got {relevant:?}")),
        (Some(e), 0) => ctx.violation(format!("{ename}/no-callback/expected={}", e.split(':').next().unwrap()), format!("{cfg}: expected {e}, got none")),
        (Some(e), 1) => {
            if relevant[0] != e {
                ctx.violation(format!("{ename}/wrong-listener/expected={}/got={}", e.split(':').next().unwrap(), relevant[0].split(':').next().unwrap()), format!("{cfg}: expected {e}, got {relevant:?}"));
            }
        }
        (Some(e), n) => {
            let all_right = relevant.iter().all(|x| *x == e);
            ctx.violation(format!("{ename}/{}", if all_right { "delivered-more-than-once" } else { "delivered-to-several-listeners" }), format!("{cfg}: expected exactly one {e}, got {n}: {relevant:?}"));
        }
    }
}

pub fn c33(_args: &Args) -> Vec<Scenario> {
    (0..EVENTS.len()).map(|e| Scenario::new(format!("C33.listeners[event={}]", EVENTS[e].0), 99, move |ctx| listeners(ctx, e)).cfg(|c| c.horizon_ms = 20_000)).collect()
}
