//! C27 (blocking KEEP_LAST writes), C29 (lifespan), C30 (deadline-missed counts), C31 (worker never oversleeps).
use crate::dds::*;
use crate::explore::Scenario;
use crate::sim::{Ctx, RunOutcome, FATES_FULL, MS, SEC};
use dust_dds::infrastructure::qos_policy::{DeadlineQosPolicy, LifespanQosPolicy};
use std::rc::Rc;
use std::sync::{Arc, Mutex};
use vutil::Args;

/// reader listener recording every requested-deadline-missed notification (the status getter of the async reader
/// is not implemented in dust-dds; the listener is the documented signalling path)
struct DeadlineListener(Arc<Mutex<Vec<i32>>>);
impl dust_dds::dds_async::data_reader_listener::DataReaderListener<KeyedData> for DeadlineListener {
    fn on_requested_deadline_missed(
        &mut self,
        _the_reader: DataReaderAsync<KeyedData>,
        status: dust_dds::infrastructure::status::RequestedDeadlineMissedStatus,
    ) -> impl std::future::Future<Output = ()> + Send {
        self.0.lock().unwrap().push(status.total_count);
        core::future::ready(())
    }
}

/// writer listener recording (total_count, total_count_change) of every offered-deadline-missed notification
struct OfferedListener(Arc<Mutex<Vec<(i32, i32)>>>);
impl dust_dds::dds_async::data_writer_listener::DataWriterListener<KeyedData> for OfferedListener {
    fn on_offered_deadline_missed(
        &mut self,
        _the_writer: DataWriterAsync<KeyedData>,
        status: dust_dds::infrastructure::status::OfferedDeadlineMissedStatus,
    ) -> impl std::future::Future<Output = ()> + Send {
        self.0.lock().unwrap().push((status.total_count, status.total_count_change));
        core::future::ready(())
    }
}

/// C31 oracle applied to every execution of every timing scenario: the DDS worker never asks for a sleep longer
/// than the poke period.
pub fn worker_sleep_oracle(out: &RunOutcome, v: &mut Vec<(String, String)>) {
    let Some(worker) = out.worker_task else { return };
    for (task, now, ns) in &out.delay_log {
        if *task == worker && *ns > 50 * MS as u64 {
            let class = if *ns > 3_600 * SEC as u64 { "hours-or-more" } else if *ns > SEC as u64 { "seconds" } else { "sub-second" };
            v.push((format!("worker-oversleeps/{class}"), format!("at t={} ms the DDS worker requested a sleep of {} ns (> 50 ms poke period)", (now - crate::sim::T0_SEC * SEC) / MS, ns)));
            return;
        }
    }
}

// ---------------------------------------------------------------------------------------------------------------
// C27
// ---------------------------------------------------------------------------------------------------------------
#[derive(Clone)]
struct BlockParams {
    name: String,
    depth: u32,
    block_ms: Option<u64>,
    writes: Vec<u8>,      // instance id per write
    ack_outage_ms: i64,   // ACKNACKs of the reader are lost during this long after the first write
    reader_reliable: bool,
    reader_present: bool,
}

async fn blocking(ctx: Ctx, p: Rc<BlockParams>) {
    let f = ctx.factory("", None);
    let n1 = node::<KeyedData>(&f, 0, "T").await;
    let n2 = node::<KeyedData>(&f, 0, "T").await;
    let w = n1.publisher.create_datawriter::<KeyedData>(&n1.topic, QosKind::Specific(reliable_w(HistoryQosPolicyKind::KeepLast(p.depth), p.block_ms)), NO_LISTENER, NO_STATUS).await.expect("writer");
    let mut reader = None;
    if p.reader_present {
        let q = if p.reader_reliable { reliable_r(HistoryQosPolicyKind::KeepAll) } else { best_effort_r(HistoryQosPolicyKind::KeepAll) };
        let r = n2.subscriber.create_datareader::<KeyedData>(&n2.topic, QosKind::Specific(q), NO_LISTENER, NO_STATUS).await.expect("reader");
        if !wait_pub_matched(&ctx, &w, 1, 3000).await || !wait_sub_matched(&ctx, &r, 1, 3000).await {
            ctx.violation("setup/no-match", "no match");
            return;
        }
        reader = Some(r);
    }
    let t_start = ctx.now();
    let outage_end = t_start + p.ack_outage_ms * MS;
    if p.ack_outage_ms > 0 {
        let sh_now = crate::sim::with(|w| w.sh.clone());
        crate::sim::with(|w| {
            w.net.filter = Some(Box::new(move |d, m| {
                let now = sh_now.inner.lock().unwrap().now;
                now < outage_end && d.src == 1 && m.subs.iter().any(|s| s.id == crate::wire::ACKNACK && crate::wire::is_user_entity(&s.writer))
            }))
        });
    }
    ctx.set_window(user_window());
    ctx.open_window();
    let mut ok_writes: Vec<(u8, u32)> = vec![];
    let mut timed_out: Vec<u32> = vec![];
    for (i, id) in p.writes.iter().enumerate() {
        let t0 = ctx.now();
        let r = w.write(sample(*id, i as u32, 12), None).await;
        let dur = ctx.now() - t0;
        ctx.obs(format!("write {i} (inst {id}) -> {:?} after {} ms", r.as_ref().map_err(|e| format!("{e:?}")), dur / MS));
        match r {
            Ok(()) => ok_writes.push((*id, i as u32)),
            Err(DdsError::Timeout) => {
                timed_out.push(i as u32);
                if let Some(b) = p.block_ms {
                    if dur > (b as i64 + 50) * MS + MS {
                        ctx.violation("timeout-too-late", format!("write {i} returned Timeout after {} ms, max_blocking_time {} ms (+ one 50 ms poke period allowed)", dur / MS, b));
                    }
                    if dur < b as i64 * MS {
                        ctx.violation("timeout-too-early", format!("write {i} returned Timeout after {} ms, before max_blocking_time {} ms elapsed", dur / MS, b));
                    }
                } else {
                    ctx.violation("timeout-with-infinite-blocking", format!("write {i} returned Timeout although max_blocking_time is infinite"));
                }
            }
            Err(e) => ctx.violation(format!("write-error/{e:?}"), format!("write {i}")),
        }
    }
    let Some(r) = reader else { return };
    if !p.reader_reliable {
        return;
    }
    // every sample whose write returned Ok was, by the property, never discarded before the reader acknowledged
    // (= received) it; a sample whose write timed out was never stored
    let mut got: Vec<u32> = vec![];
    let start = ctx.now();
    loop {
        for s in take_all(&r).await {
            if let Some(d) = s.data {
                got.push(d.seq);
            }
        }
        if ok_writes.iter().all(|(_, q)| got.contains(q)) {
            break;
        }
        let quiet = ctx.last_deviation_time().max(start).max(outage_end);
        if ctx.now() - quiet > 3 * SEC {
            let missing: Vec<_> = ok_writes.iter().filter(|(_, q)| !got.contains(q)).collect();
            ctx.violation("acknowledged-write-lost", format!("samples {missing:?} were written successfully but never reached the matched reliable reader: they were discarded unacknowledged (ok={ok_writes:?} timeout={timed_out:?} got={got:?})"));
            break;
        }
        ctx.sleep_ms(20).await;
    }
    ctx.sleep_ms(450).await;
    for s in take_all(&r).await {
        if let Some(d) = s.data {
            got.push(d.seq);
        }
    }
    for t in &timed_out {
        if got.contains(t) {
            ctx.violation("timed-out-write-delivered", format!("sample {t} whose write returned Timeout was delivered"));
        }
    }
    ctx.obs(format!("ok={ok_writes:?} timeout={timed_out:?} got={got:?}"));
}

/// wire oracle: per HEARTBEAT of the user writer the announced range never exceeds depth (single instance), and the
/// final range is exactly the last `depth` successful writes
fn history_oracle(depth: u32, single_instance: bool) -> impl Fn(&RunOutcome, &mut Vec<(String, String)>) {
    move |out, v| {
        worker_sleep_oracle(out, v);
        if !single_instance {
            return;
        }
        let n_ok = out.obs.iter().filter(|o| o.starts_with("write ") && o.contains("Ok(())")).count() as i64;
        let mut last: Option<(i64, i64)> = None;
        for (_, src, bytes, _) in &out.sent {
            if *src != 0 {
                continue;
            }
            let m = crate::wire::parse(bytes);
            for s in &m.subs {
                if s.id == crate::wire::HEARTBEAT && crate::wire::is_user_entity(&s.writer) {
                    if s.last_sn - s.sn + 1 > depth as i64 {
                        v.push(("holds-more-than-depth".into(), format!("HEARTBEAT announces {}..{} with KEEP_LAST {depth} on a single instance", s.sn, s.last_sn)));
                        return;
                    }
                    last = Some((s.sn, s.last_sn));
                }
            }
        }
        if let Some((first, lastsn)) = last {
            if n_ok > 0 && lastsn == n_ok {
                let exp_first = (n_ok - depth as i64 + 1).max(1);
                if first != exp_first {
                    v.push((format!("history-not-newest/first={}-expected={}", first - exp_first, 0), format!("after {n_ok} successful writes with KEEP_LAST {depth} the last HEARTBEAT announces {first}..{lastsn}, expected {exp_first}..{n_ok}")));
                }
            }
        }
    }
}

pub fn c27(args: &Args) -> Vec<Scenario> {
    let t = args.thorough();
    let mut v = vec![];
    for depth in [1u32, 2] {
        for block in [Some(0u64), Some(30), Some(120), None] {
            for outage in [0i64, 80, 300] {
                if block.is_none() && outage == 0 {
                    continue;
                }
                for (wn, writes) in [("1inst", vec![1u8, 1, 1, 1]), ("2inst", vec![1u8, 2, 1, 2, 1])] {
                    let single = wn == "1inst";
                    let p = Rc::new(BlockParams {
                        name: format!("C27.block[depth={depth},block={},outage={outage},{wn}]", block.map(|b| b.to_string()).unwrap_or("inf".into())),
                        depth,
                        block_ms: block,
                        writes: writes.clone(),
                        ack_outage_ms: outage,
                        reader_reliable: true,
                        reader_present: true,
                    });
                    let bound = if outage == 0 { 2 } else { 1 } + t as usize;
                    let name = p.name.clone();
                    v.push(
                        Scenario::new(name, bound, move |ctx| blocking(ctx, p.clone()))
                            .cfg(|c| {
                                c.horizon_ms = 60_000;
                                if t {
                                    c.fates = FATES_FULL;
                                }
                            })
                            .post(history_oracle(depth, single)),
                    );
                }
            }
        }
    }
    // no reader / best-effort reader: nothing to wait for, writes never block
    for (tag, present, reliable) in [("absent", false, true), ("besteffort", true, false)] {
        let p = Rc::new(BlockParams { name: format!("C27.noblock[reader={tag}]"), depth: 1, block_ms: Some(30), writes: vec![1, 1, 1], ack_outage_ms: 0, reader_reliable: reliable, reader_present: present });
        let name = p.name.clone();
        v.push(Scenario::new(name, 1, move |ctx| blocking(ctx, p.clone())).post(|out, v| {
            worker_sleep_oracle(out, v);
            if out.obs.iter().any(|o| o.contains("Timeout")) {
                v.push(("blocked-without-reliable-reader".into(), "a write timed out although no reliable reader is matched".into()));
            }
        }));
    }
    v
}

// ---------------------------------------------------------------------------------------------------------------
// C29 lifespan
// ---------------------------------------------------------------------------------------------------------------
#[derive(Clone)]
struct LifeParams {
    name: String,
    lifespan_ms: i64,
    ts_offsets_ms: Vec<i64>, // source timestamp = now + offset (negative = in the past)
    late_join_ms: Option<i64>,
}

async fn lifespan(ctx: Ctx, p: Rc<LifeParams>) {
    let f = ctx.factory("", None);
    let n1 = node::<KeyedData>(&f, 0, "T").await;
    let n2 = node::<KeyedData>(&f, 0, "T").await;
    let mut wq = reliable_w(HistoryQosPolicyKind::KeepAll, Some(100));
    wq.durability.kind = DurabilityQosPolicyKind::TransientLocal;
    wq.lifespan = LifespanQosPolicy { duration: DurationKind::Finite(Duration::new((p.lifespan_ms / 1000) as i32, ((p.lifespan_ms % 1000) * 1_000_000) as u32)) };
    let w = n1.publisher.create_datawriter::<KeyedData>(&n1.topic, QosKind::Specific(wq), NO_LISTENER, NO_STATUS).await.expect("writer");
    let mut rq = reliable_r(HistoryQosPolicyKind::KeepAll);
    rq.durability.kind = DurabilityQosPolicyKind::TransientLocal;
    let mut r = None;
    if p.late_join_ms.is_none() {
        let x = n2.subscriber.create_datareader::<KeyedData>(&n2.topic, QosKind::Specific(rq.clone()), NO_LISTENER, NO_STATUS).await.expect("reader");
        if !wait_pub_matched(&ctx, &w, 1, 3000).await || !wait_sub_matched(&ctx, &x, 1, 3000).await {
            ctx.violation("setup/no-match", "no match");
            return;
        }
        r = Some(x);
    }
    ctx.set_window(user_window());
    ctx.open_window();
    // (seq, source timestamp ns)
    let mut written: Vec<(u32, i64)> = vec![];
    for (i, off) in p.ts_offsets_ms.iter().enumerate() {
        let ts = ctx.now() + off * MS;
        let t = Time::new((ts / SEC) as i32, (ts % SEC) as u32);
        match w.write_w_timestamp(sample(1, i as u32, 8), None, t).await {
            Ok(()) => written.push((i as u32, ts)),
            Err(e) => ctx.violation(format!("write-error/{e:?}"), format!("write {i}")),
        }
        ctx.sleep_ms(10).await;
    }
    if let Some(j) = p.late_join_ms {
        ctx.sleep_ms(j).await;
        let x = n2.subscriber.create_datareader::<KeyedData>(&n2.topic, QosKind::Specific(rq), NO_LISTENER, NO_STATUS).await.expect("reader");
        r = Some(x);
    }
    let r = r.unwrap();
    let start = ctx.now();
    let life = p.lifespan_ms * MS;
    loop {
        // a sample is judged at the instant it is first seen by the application
        let now_before = ctx.now();
        for s in take_all(&r).await {
            if let Some(d) = s.data {
                let ts = written.iter().find(|w| w.0 == d.seq).map(|w| w.1).unwrap_or(0);
                let age = now_before - ts;
                ctx.obs(format!("take seq={} age={}ms", d.seq, age / MS));
                // 20 ms polling period + one worker period of slack: anything older was delivered after expiry
                if age > life + 20 * MS + 50 * MS + MS {
                    let how = if p.late_join_ms.is_some() { "late-joiner-history" } else if age > life + 250 * MS { "repair" } else { "first-transmission" };
                    ctx.violation(format!("expired-sample-presented/{how}"), format!("sample {} presented {} ms after its source timestamp, lifespan {} ms", d.seq, age / MS, p.lifespan_ms));
                }
            }
        }
        let quiet = ctx.last_deviation_time().max(start);
        if ctx.now() - quiet > (1500 + p.lifespan_ms) * MS {
            break;
        }
        ctx.sleep_ms(20).await;
    }
}

pub fn c29(args: &Args) -> Vec<Scenario> {
    let t = args.thorough();
    let mut v = vec![];
    for life in [40i64, 300] {
        for (tag, offs) in [("now", vec![0i64, 0]), ("half", vec![-life / 2, 0]), ("expired", vec![-2 * life, 0, -life - 1])] {
            for late in [None, Some(0i64), Some(life / 2), Some(life + 60)] {
                let p = Rc::new(LifeParams { name: format!("C29.life[{life}ms,ts={tag},late={late:?}]"), lifespan_ms: life, ts_offsets_ms: offs.clone(), late_join_ms: late });
                let name = p.name.clone();
                v.push(
                    Scenario::new(name, if late.is_none() { 2 + t as usize } else { 1 + t as usize }, move |ctx| lifespan(ctx, p.clone()))
                        .cfg(|c| {
                            c.horizon_ms = 60_000;
                            if t {
                                c.fates = FATES_FULL;
                            }
                        })
                        .post(worker_sleep_oracle),
                );
            }
        }
    }
    // Every order of source timestamps from {fresh, half-way, nearly expired}: the writer history is ordered by write
    // sequence, not by source timestamp, so an expired change may sit behind one that is still valid (seeded change C29-1:
    // "purge only the expired prefix"). The late joiner arrives when the nearly expired ones are gone and the fresh ones are not.
    for life in if t { vec![300i64, 1000] } else { vec![300i64] } {
        let alphabet = [0i64, -life / 2, -life * 5 / 6];
        let mut seqs: Vec<Vec<i64>> = vec![];
        for a in alphabet {
            for b in alphabet {
                seqs.push(vec![a, b]);
                if t {
                    for c in alphabet {
                        seqs.push(vec![a, b, c]);
                    }
                }
            }
        }
        for offs in seqs {
            for late in if t { vec![None, Some(life / 4), Some(life / 2)] } else { vec![Some(life / 2)] } {
                let tag = offs.iter().map(|o| (-o * 6 / life).to_string()).collect::<Vec<_>>().join("");
                let p = Rc::new(LifeParams { name: format!("C29.order[{life}ms,sixths={tag},late={late:?}]"), lifespan_ms: life, ts_offsets_ms: offs.clone(), late_join_ms: late });
                let name = p.name.clone();
                v.push(Scenario::new(name, 1 + t as usize, move |ctx| lifespan(ctx, p.clone())).cfg(|c| c.horizon_ms = 60_000).post(worker_sleep_oracle));
            }
        }
    }
    v
}

// ---------------------------------------------------------------------------------------------------------------
// C30 deadline
// ---------------------------------------------------------------------------------------------------------------
#[derive(Clone)]
struct DeadParams {
    name: String,
    period_ms: i64,
    /// per instance: write instants (ms after start)
    writes: Vec<(u8, i64)>,
    observe_ms: i64,
    /// the writer has its own OfferedDeadlineMissed listener: every increase must be signalled through it, once
    w_listener: bool,
    /// source timestamps of the writes: 0 = write() (now), 1 = write_w_timestamp lagging 5 s behind the clock, 2 = one constant
    /// timestamp for every write (added after seeded change C30-2: the deadline clock must run on the time of the write)
    ts_mode: u8,
    /// register_instance_w_timestamp calls: (instance, instant ms, offset of the supplied timestamp from the clock in ms)
    registers: Vec<(u8, i64, i64)>,
}

/// expected number of missed periods of one instance at time t (ms): for each gap between consecutive samples
/// (and from the last sample to t) floor(gap / period), counting only complete periods
fn expected_misses(times: &[i64], t: i64, period: i64) -> i64 {
    let mut n = 0;
    for w in times.windows(2) {
        if w[1] <= t {
            n += ((w[1] - w[0] - 1).max(0)) / period;
        }
    }
    if let Some(last) = times.iter().filter(|x| **x <= t).last() {
        let nexts: Vec<&i64> = times.iter().filter(|x| **x > *last).collect();
        if nexts.is_empty() || *nexts[0] > t {
            n += (t - last - 1).max(0) / period;
        }
    }
    n
}

const GAPS: &[i64] = &[40, 95, 100, 105, 150, 195, 205, 260];

async fn deadline(ctx: Ctx, p: Rc<DeadParams>) {
    // a pattern with negative instants asks for the gaps to be chosen by the explorer (TIME choice points)
    let p = if p.writes.iter().any(|w| w.1 < 0) {
        let mut t = 0i64;
        let mut writes = vec![];
        for (k, (id, _)) in p.writes.iter().enumerate() {
            if k > 0 {
                t += GAPS[ctx.choose(b'T', GAPS.len())];
            }
            writes.push((*id, t));
        }
        Rc::new(DeadParams { name: p.name.clone(), period_ms: p.period_ms, writes, observe_ms: t + 260, w_listener: p.w_listener, ts_mode: p.ts_mode, registers: p.registers.clone() })
    } else {
        p
    };
    let f = ctx.factory("", None);
    let n1 = node::<KeyedData>(&f, 0, "T").await;
    let n2 = node::<KeyedData>(&f, 0, "T").await;
    let dl = DeadlineQosPolicy { period: DurationKind::Finite(Duration::new((p.period_ms / 1000) as i32, ((p.period_ms % 1000) * 1_000_000) as u32)) };
    let mut wq = reliable_w(HistoryQosPolicyKind::KeepLast(1), Some(100));
    wq.deadline = dl.clone();
    let mut rq = reliable_r(HistoryQosPolicyKind::KeepAll);
    rq.deadline = dl;
    let offered = Arc::new(Mutex::new(Vec::<(i32, i32)>::new()));
    let w = if p.w_listener {
        n1.publisher.create_datawriter::<KeyedData>(&n1.topic, QosKind::Specific(wq), Some(OfferedListener(offered.clone())), &[StatusKind::OfferedDeadlineMissed]).await.expect("writer")
    } else {
        n1.publisher.create_datawriter::<KeyedData>(&n1.topic, QosKind::Specific(wq), NO_LISTENER, NO_STATUS).await.expect("writer")
    };
    let notified = Arc::new(Mutex::new(Vec::<i32>::new()));
    let r = n2
        .subscriber
        .create_datareader::<KeyedData>(&n2.topic, QosKind::Specific(rq), Some(DeadlineListener(notified.clone())), &[StatusKind::RequestedDeadlineMissed])
        .await
        .expect("reader");
    if !wait_pub_matched(&ctx, &w, 1, 3000).await || !wait_sub_matched(&ctx, &r, 1, 3000).await {
        ctx.violation("setup/no-match", "no match");
        return;
    }
    let t0 = ctx.now();
    let mut ws = p.writes.clone();
    ws.sort_by_key(|x| x.1);
    let ids: Vec<u8> = {
        let mut v: Vec<u8> = ws.iter().map(|x| x.0).chain(p.registers.iter().map(|x| x.0)).collect();
        v.sort();
        v.dedup();
        v
    };
    let mut seq = 0u32;
    let (mut last_w, mut last_r) = (0i32, 0i32);
    // events: writes at their exact instants, observations on a 25 ms grid
    let mut events: Vec<(i64, Option<u8>)> = ws.iter().map(|x| (x.1, Some(x.0))).collect();
    // registrations are encoded as ids >= 100 (100 + index into p.registers)
    for (k, r) in p.registers.iter().enumerate() {
        events.push((r.1, Some(100 + k as u8)));
    }
    let mut g = 0;
    while g <= p.observe_ms {
        events.push((g, None));
        g += 25;
    }
    events.sort_by_key(|e| (e.0, e.1.is_none()));
    // actual write instants per instance (ms since t0), as observed when the write call returned
    let mut actual: Vec<(u8, i64)> = vec![];
    let mut registered: Vec<(u8, i64)> = vec![];
    for (at, ev) in events {
        let el = (ctx.now() - t0) / MS;
        if at > el {
            ctx.sleep_ms(at - el).await;
        }
        if let Some(id) = ev {
            if id >= 100 {
                let (rid, _, off) = p.registers[(id - 100) as usize];
                let ts = ctx.now() + off * MS;
                let _ = w.register_instance_w_timestamp(sample(rid, 0, 8), Time::new((ts / SEC) as i32, (ts % SEC) as u32)).await;
                // the registration of a new instance starts its deadline clock (at the time of the call, whatever timestamp
                // is supplied); registering a known instance is idempotent
                // (writer side only: the reader sees samples, not registrations)
                if !actual.iter().any(|x| x.0 == rid) && !registered.iter().any(|x| x.0 == rid) {
                    registered.push((rid, (ctx.now() - t0) / MS));
                }
                continue;
            }
            match p.ts_mode {
                0 => {
                    let _ = w.write(sample(id, seq, 8), None).await;
                }
                m => {
                    let ts = if m == 1 { ctx.now() - 5 * SEC } else { t0 };
                    let _ = w.write_w_timestamp(sample(id, seq, 8), None, Time::new((ts / SEC) as i32, (ts % SEC) as u32)).await;
                }
            }
            actual.push((id, (ctx.now() - t0) / MS));
            seq += 1;
            continue;
        }
        let el = (ctx.now() - t0) / MS;
        let ws_status = w.get_offered_deadline_missed_status().await.expect("offered status");
        // reader side: the latest total_count delivered to the listener (every increase must be signalled once)
        let rs_total = {
            let n = notified.lock().unwrap();
            for (k, c) in n.iter().enumerate() {
                if *c != k as i32 + 1 {
                    ctx.violation("reader/notification-sequence", format!("listener notifications carried total_count {:?}: each increase must be signalled exactly once", *n));
                    return;
                }
            }
            n.last().copied().unwrap_or(0)
        };
        // expected range: everything that was due one worker period (+ slack) ago must be counted, nothing that is
        // not yet due may be counted
        let (mut lo, mut hi, mut lo_w, mut hi_w) = (0i64, 0i64, 0i64, 0i64);
        for id in &ids {
            let times: Vec<i64> = actual.iter().filter(|x| x.0 == *id).map(|x| x.1).collect();
            lo += expected_misses(&times, el - 50 - 3, p.period_ms + 1);
            hi += expected_misses(&times, el + 3, p.period_ms - 1);
            let mut times_w: Vec<i64> = registered.iter().filter(|x| x.0 == *id).map(|x| x.1).chain(times.iter().copied()).collect();
            times_w.sort();
            lo_w += expected_misses(&times_w, el - 50 - 3, p.period_ms + 1);
            hi_w += expected_misses(&times_w, el + 3, p.period_ms - 1);
        }
        ctx.obs(format!("t={el} offered={} requested={} expected=[{lo},{hi}] writer=[{lo_w},{hi_w}]", ws_status.total_count, rs_total));
        for (side, st_total, last, lo, hi) in [("writer", ws_status.total_count, &mut last_w, lo_w, hi_w), ("reader", rs_total, &mut last_r, lo, hi)] {
            if (st_total as i64) > hi {
                let per = if (st_total as i64 - hi) >= 3 { "many" } else { "few" };
                ctx.violation(format!("{side}/overcount/{per}"), format!("t={el} ms: {side} deadline-missed total_count={st_total}, at most {hi} periods can have been missed (writes at {:?}, period {} ms)", actual, p.period_ms));
                return;
            }
            if (st_total as i64) < lo {
                ctx.violation(format!("{side}/undercount"), format!("t={el} ms: {side} deadline-missed total_count={st_total}, at least {lo} full periods elapsed without a sample more than 50 ms ago (writes at {:?}, period {} ms)", actual, p.period_ms));
                return;
            }
            if st_total < *last {
                ctx.violation(format!("{side}/count-decreased"), format!("t={el}"));
                return;
            }
            *last = st_total;
        }
    }
    if p.w_listener {
        // the listener task may lag behind the status by a hand-over: let it drain, then every increase of the count
        // must have been signalled exactly once (contiguous totals, each with change 1 - one call per missed period and
        // instance - or coalesced: change = distance to the previous total)
        ctx.sleep_ms(5).await;
        let total = w.get_offered_deadline_missed_status().await.expect("offered status").total_count;
        let n = offered.lock().unwrap().clone();
        let mut prev = 0;
        for (t, c) in &n {
            if *t <= prev || *c != *t - prev {
                ctx.violation("writer/notification-sequence", format!("writer listener notifications (total_count, total_count_change) = {n:?}: each increase must be signalled exactly once"));
                return;
            }
            prev = *t;
        }
        if prev != total {
            ctx.violation("writer/increase-not-signalled", format!("offered-deadline-missed total_count = {total} but the writer's listener was told about {prev} ({n:?})"));
        }
    }
}

pub fn c30(args: &Args) -> Vec<Scenario> {
    let period = 100i64;
    let mut v = vec![];
    // the second write of instance 1 lands around k*period
    let mut patterns: Vec<(String, Vec<(u8, i64)>)> = vec![];
    for second in [40i64, 95, 100, 105, 195, 205, 260] {
        patterns.push((format!("1inst,second@{second}"), vec![(1, 0), (1, second)]));
    }
    patterns.push(("1inst,regular".into(), vec![(1, 0), (1, 80), (1, 160), (1, 240), (1, 320)]));
    patterns.push(("2inst".into(), vec![(1, 0), (2, 30), (1, 150), (2, 260)]));
    if args.thorough() {
        for second in [10i64, 50, 99, 101, 150, 199, 201, 299, 301] {
            patterns.push((format!("1inst,second@{second}"), vec![(1, 0), (1, second)]));
        }
    }
    patterns.push(("gaps,1inst,3writes".into(), vec![(1, -1), (1, -1), (1, -1)]));
    patterns.push(("gaps,2inst,4writes".into(), vec![(1, -1), (2, -1), (1, -1), (2, -1)]));
    if args.thorough() {
        patterns.push(("gaps,1inst,4writes".into(), vec![(1, -1), (1, -1), (1, -1), (1, -1)]));
    }
    // every assignment of two instances to four writes (first write on instance 1), gaps chosen by the explorer
    for m in 0..8u8 {
        let ids: Vec<u8> = (0..4).map(|k| if k == 0 { 1 } else { 1 + ((m >> (k - 1)) & 1) }).collect();
        if ids == [1, 1, 1, 1] || ids == [1, 2, 1, 2] {
            continue; // listed above
        }
        if !args.thorough() && m % 2 == 1 {
            continue;
        }
        patterns.push((format!("gaps,ids={}", ids.iter().map(|i| i.to_string()).collect::<String>()), ids.iter().map(|i| (*i, -1)).collect()));
    }
    if args.thorough() {
        patterns.push(("gaps,1inst,5writes".into(), vec![(1, -1); 5]));
        patterns.push(("gaps,3inst,4writes".into(), vec![(1, -1), (2, -1), (3, -1), (1, -1)]));
    }
    for (tag, writes) in patterns {
        for w_listener in [false, true] {
            // the listener variant of the enumerated-gap patterns is part of the thorough tier
            if w_listener && tag.starts_with("gaps") && !args.thorough() && tag != "gaps,1inst,3writes" {
                continue;
            }
            for ts_mode in 0..3u8 {
                // source-timestamp modes 1 and 2 for the fixed patterns and the smallest enumerated one (all in the thorough tier)
                if ts_mode > 0 && (w_listener || (tag.starts_with("gaps") && !args.thorough() && tag != "gaps,1inst,3writes")) {
                    continue;
                }
                let p = Rc::new(DeadParams {
                    name: format!("C30.deadline[{tag}{}{}]", if w_listener { ",writer-listener" } else { "" }, ["", ",lagging-source-timestamps", ",constant-source-timestamp"][ts_mode as usize]),
                    period_ms: period,
                    writes: writes.clone(),
                    observe_ms: 450,
                    w_listener,
                    ts_mode,
                    registers: vec![],
                });
                let name = p.name.clone();
                v.push(Scenario::new(name, 99, move |ctx| deadline(ctx, p.clone())).cfg(|c| c.horizon_ms = 30_000).post(worker_sleep_oracle));
            }
        }
    }
    // register_instance_w_timestamp with timestamps that are not the clock: a new instance, and an instance already written
    for (tag, writes, registers) in [
        ("register-new,old-timestamp", vec![(1u8, 250i64)], vec![(1u8, 0i64, -1_000i64)]),
        ("register-new,future-timestamp", vec![(1, 350)], vec![(1, 0, 10_000)]),
        ("register-new,now", vec![(1, 250)], vec![(1, 0, 0)]),
        ("register-known,old-timestamp", vec![(1, 0), (1, 260)], vec![(1, 30, -1_000)]),
        ("register-known,future-timestamp", vec![(1, 0), (1, 360)], vec![(1, 30, 10_000)]),
        ("register-other-instance,old-timestamp", vec![(1, 0), (1, 80), (1, 160), (1, 240)], vec![(2, 100, -1_000)]),
    ] {
        let p = Rc::new(DeadParams { name: format!("C30.deadline[{tag}]"), period_ms: period, writes, observe_ms: 450, w_listener: false, ts_mode: 0, registers });
        let name = p.name.clone();
        v.push(Scenario::new(name, 99, move |ctx| deadline(ctx, p.clone())).cfg(|c| c.horizon_ms = 30_000).post(worker_sleep_oracle));
    }
    v
}

// ---------------------------------------------------------------------------------------------------------------
// C31: dedicated scenarios that drive the time_until_* inputs negative / overdue, judged by worker_sleep_oracle
// ---------------------------------------------------------------------------------------------------------------
async fn oversleep(ctx: Ctx, which: usize) {
    let f = ctx.factory("", None);
    let n1 = node::<KeyedData>(&f, 0, "T").await;
    let n2 = node::<KeyedData>(&f, 0, "T").await;
    let fin = |ms: i64| DurationKind::Finite(Duration::new((ms / 1000) as i32, ((ms % 1000) * 1_000_000) as u32));
    let mut wq = reliable_w(HistoryQosPolicyKind::KeepLast(1), Some(30));
    let mut rq = reliable_r(HistoryQosPolicyKind::KeepLast(1));
    match which {
        0 => {
            // deadlines several periods overdue on both sides
            wq.deadline = DeadlineQosPolicy { period: fin(20) };
            rq.deadline = DeadlineQosPolicy { period: fin(20) };
        }
        1 => {
            // lifespan with source timestamps in the past
            wq.lifespan = LifespanQosPolicy { duration: fin(30) };
        }
        2 => {
            // samples rejected / filtered at the reader: instance time updated, ownership time not
            wq.deadline = DeadlineQosPolicy { period: fin(60) };
            rq.deadline = DeadlineQosPolicy { period: fin(60) };
            rq.time_based_filter.minimum_separation = fin(40);
        }
        3 => {
            rq.resource_limits.max_samples = dust_dds::infrastructure::qos_policy::Length::Limited(1);
            rq.resource_limits.max_samples_per_instance = dust_dds::infrastructure::qos_policy::Length::Limited(1);
            rq.history.kind = HistoryQosPolicyKind::KeepAll;
            rq.deadline = DeadlineQosPolicy { period: fin(60) };
            wq.deadline = DeadlineQosPolicy { period: fin(60) };
        }
        5 => {
            // every periodic duty has something pending at once (seeded change C31-2 removed the cap that only matters then):
            // reader and writer deadlines, a lifespan, a blocked write with a long max_blocking_time, a discovered participant
            // and the next announcement
            wq.deadline = DeadlineQosPolicy { period: fin(20_000) };
            rq.deadline = DeadlineQosPolicy { period: fin(20_000) };
            wq.lifespan = LifespanQosPolicy { duration: fin(20_000) };
            wq.reliability.max_blocking_time = fin(3_000);
        }
        _ => {
            // blocked write whose deadline passes while the worker is busy, plus a lease patched to expire
            crate::sim::with(|w| w.net.rewrite = Some(Box::new(|d| if d.meta { crate::s_acks::patch_lease(&d.bytes, 1) } else { None })));
            wq.reliability.max_blocking_time = fin(10);
        }
    }
    let w = n1.publisher.create_datawriter::<KeyedData>(&n1.topic, QosKind::Specific(wq), NO_LISTENER, NO_STATUS).await.expect("writer");
    let r = n2.subscriber.create_datareader::<KeyedData>(&n2.topic, QosKind::Specific(rq), NO_LISTENER, NO_STATUS).await.expect("reader");
    wait_pub_matched(&ctx, &w, 1, 3000).await;
    wait_sub_matched(&ctx, &r, 1, 3000).await;
    let gap = [0i64, 7, 33, 61, 120][ctx.choose(b'T', 5)];
    for i in 0..4u32 {
        let now = ctx.now();
        let past = [0i64, 25, 100][ctx.choose(b'T', 3)] * MS;
        let ts = now - past;
        let _ = w.write_w_timestamp(sample(1 + (i % 2) as u8, i, 8), None, Time::new((ts / SEC) as i32, (ts % SEC) as u32)).await;
        ctx.sleep_ms(gap).await;
    }
    if which == 5 {
        ctx.blackhole(1, true);
        for i in 4..7u32 {
            let t0 = ctx.now();
            let r = w.write(sample(1, i, 8), None).await;
            let el = (ctx.now() - t0) / MS;
            ctx.obs(format!("write {i} -> {:?} after {el} ms", r.as_ref().map(|_| ())));
            // second clause of the property: Timeout no later than max_blocking_time plus one poke period
            if r.is_err() && el > 3_000 + 50 + 5 {
                ctx.violation("blocked-write/timeout-too-late", format!("a write blocked with max_blocking_time 3 s returned {r:?} after {el} ms"));
            }
            if r.is_err() && el < 3_000 {
                ctx.violation("blocked-write/timeout-too-early", format!("a write blocked with max_blocking_time 3 s returned {r:?} after {el} ms"));
            }
        }
    }
    if which == 4 {
        ctx.blackhole(1, true);
        for i in 4..7u32 {
            let _ = w.write(sample(1, i, 8), None).await;
        }
        ctx.sleep_ms(1300).await;
    }
    ctx.sleep_ms(400).await;
    let _ = take_all(&r).await;
}

pub fn c31(_args: &Args) -> Vec<Scenario> {
    let names = ["overdue-deadlines", "past-lifespan", "time-filtered-reader", "rejecting-reader", "blocked-write+lease", "everything-pending"];
    (0..6)
        .map(|k| Scenario::new(format!("C31.{}[]", names[k]), 99, move |ctx| oversleep(ctx, k)).cfg(|c| c.horizon_ms = 30_000).post(worker_sleep_oracle))
        .collect()
}
