//! Fixed end-to-end histories added after a code-reading audit of the current tree (see DESIGN.md 7.6): each is one
//! deterministic execution (deviation bound 0) through the public API with an oracle taken from the property text.
//! They extend the scenario lists of the properties they belong to (`extra(id)` is appended by main.rs).
use crate::dds::*;
use crate::explore::Scenario;
use crate::s_events::FilterData;
use crate::sim::Ctx;
use std::sync::{Arc, Mutex};

fn excl(mut w: DataWriterQos, strength: i32) -> DataWriterQos {
    w.ownership.kind = OwnershipQosPolicyKind::Exclusive;
    w.ownership_strength.value = strength;
    w
}
fn fin(ms: i64) -> DurationKind {
    DurationKind::Finite(Duration::new((ms / 1000) as i32, ((ms % 1000) * 1_000_000) as u32))
}
/// runs `fut` in its own task and reports whether (and with what) it completed within `ms` of virtual time
async fn within<T: 'static, F: std::future::Future<Output = T> + 'static>(ctx: &Ctx, ms: i64, fut: F) -> Option<T> {
    let slot: std::rc::Rc<std::cell::RefCell<Option<T>>> = std::rc::Rc::new(std::cell::RefCell::new(None));
    let s2 = slot.clone();
    ctx.spawn(async move {
        let x = fut.await;
        *s2.borrow_mut() = Some(x);
    });
    let mut waited = 0;
    while waited < ms {
        ctx.sleep_ms(20).await;
        waited += 20;
        if slot.borrow().is_some() {
            break;
        }
    }
    let x = slot.borrow_mut().take();
    x
}
fn seqs(v: &[Sample<KeyedData>]) -> Vec<(u8, u32)> {
    v.iter().filter_map(|s| s.data.as_ref().map(|d| (d.id, d.seq))).collect()
}

// ---- C24 -----------------------------------------------------------------------------------------------------------
async fn c24_owner(ctx: Ctx, how: u8, n: u8) {
    let f = ctx.factory("", None);
    let n1 = node::<KeyedData>(&f, 0, "T").await;
    let n2 = node::<KeyedData>(&f, 0, "T").await;
    let w1 = n1.publisher.create_datawriter::<KeyedData>(&n1.topic, QosKind::Specific(excl(reliable_w(HistoryQosPolicyKind::KeepAll, Some(100)), 10)), NO_LISTENER, NO_STATUS).await.expect("w1");
    let w2 = n1.publisher.create_datawriter::<KeyedData>(&n1.topic, QosKind::Specific(excl(reliable_w(HistoryQosPolicyKind::KeepAll, Some(100)), 5)), NO_LISTENER, NO_STATUS).await.expect("w2");
    let mut rq = reliable_r(HistoryQosPolicyKind::KeepAll);
    rq.ownership.kind = OwnershipQosPolicyKind::Exclusive;
    let r = n2.subscriber.create_datareader::<KeyedData>(&n2.topic, QosKind::Specific(rq), NO_LISTENER, NO_STATUS).await.expect("reader");
    if !wait_sub_matched(&ctx, &r, 2, 3000).await || !wait_pub_matched(&ctx, &w1, 1, 3000).await || !wait_pub_matched(&ctx, &w2, 1, 3000).await {
        ctx.violation("setup/no-match", "no match");
        return;
    }
    // the strong writer owns n instances (seeded change C24-3 released only the first one when the owner went away)
    for id in 1..=n {
        w1.write(sample(id, 1, 8), None).await.expect("write w1");
    }
    ctx.sleep_ms(300).await;
    let got = seqs(&take_all(&r).await);
    if got != (1..=n).map(|id| (id, 1)).collect::<Vec<_>>() {
        ctx.violation("setup/owner-sample-not-presented", format!("{got:?}"));
        return;
    }
    let all_w2: Vec<(u8, u32)> = (1..=n).map(|id| (id, 2)).collect();
    match how {
        0 => {
            // the owner is deleted: ownership of every instance passes to the remaining (weaker) writer
            n1.publisher.delete_datawriter(&w1).await.expect("delete w1");
            ctx.sleep_ms(600).await;
            let _ = take_all(&r).await;
            for id in 1..=n {
                w2.write(sample(id, 2, 8), None).await.expect("write w2");
            }
            ctx.sleep_ms(600).await;
            let got = seqs(&take_all(&r).await);
            if all_w2.iter().any(|x| !got.contains(x)) {
                ctx.violation("owner-deleted/weaker-writer-never-takes-over", format!("the owner (strength 10) of {n} instance(s) was deleted, the remaining writer (strength 5) wrote them: reader presented {got:?}"));
            }
        }
        1 => {
            // a dispose is not an unregister: the owner stays the owner
            for id in 1..=n {
                w1.dispose(sample(id, 1, 8), None).await.expect("dispose w1");
            }
            ctx.sleep_ms(300).await;
            let _ = take_all(&r).await;
            for id in 1..=n {
                w2.write(sample(id, 2, 8), None).await.expect("write w2");
            }
            ctx.sleep_ms(600).await;
            let got = seqs(&take_all(&r).await);
            if all_w2.iter().any(|x| got.contains(x)) {
                ctx.violation("dispose-released-ownership", format!("the owner (strength 10) disposed the instance(s) but is alive and registered; the weaker writer's sample was presented: {got:?}"));
            }
        }
        _ => {
            for id in 1..=n {
                w1.unregister_instance(sample(id, 1, 8), None).await.expect("unregister w1");
            }
            ctx.sleep_ms(300).await;
            let _ = take_all(&r).await;
            for id in 1..=n {
                w2.write(sample(id, 2, 8), None).await.expect("write w2");
            }
            ctx.sleep_ms(600).await;
            let got = seqs(&take_all(&r).await);
            if all_w2.iter().any(|x| !got.contains(x)) {
                ctx.violation("owner-unregistered/weaker-writer-never-takes-over", format!("{got:?}"));
            }
        }
    }
}

// ---- C04 -----------------------------------------------------------------------------------------------------------
async fn c04_late(ctx: Ctx, how: u8) {
    let f = ctx.factory("", None);
    let n1 = node::<KeyedData>(&f, 0, "T").await;
    let n2 = node::<KeyedData>(&f, 0, "T").await;
    let tl = |mut q: DataWriterQos| {
        q.durability.kind = DurabilityQosPolicyKind::TransientLocal;
        q
    };
    let tlr = |mut q: DataReaderQos| {
        q.durability.kind = DurabilityQosPolicyKind::TransientLocal;
        q
    };
    match how {
        0 => {
            // KEEP_LAST(1) history with holes (two instances): the late joiner gets the last sample of EVERY instance
            let w = n1.publisher.create_datawriter::<KeyedData>(&n1.topic, QosKind::Specific(tl(reliable_w(HistoryQosPolicyKind::KeepLast(1), Some(100)))), NO_LISTENER, NO_STATUS).await.expect("w");
            for (id, s) in [(1u8, 0u32), (2, 1), (1, 2), (1, 3)] {
                w.write(sample(id, s, 8), None).await.expect("write");
            }
            ctx.sleep_ms(300).await;
            // faults (up to the scenario's bound) on everything exchanged for the late joiner: the GAPs that describe the
            // holes are sent once at match time, losing one leaves the repair to the NACK path (seeded change C01-2)
            ctx.set_window(user_window());
            ctx.open_window();
            let r = n2.subscriber.create_datareader::<KeyedData>(&n2.topic, QosKind::Specific(tlr(reliable_r(HistoryQosPolicyKind::KeepAll))), NO_LISTENER, NO_STATUS).await.expect("r");
            ctx.sleep_ms(2500).await;
            let mut got = seqs(&take_all(&r).await);
            got.sort();
            if got != vec![(1, 3), (2, 1)] {
                ctx.violation("tl-history-with-holes/late-joiner", format!("writer KEEP_LAST(1) holds (id1,seq3) and (id2,seq1); the TRANSIENT_LOCAL late joiner got {got:?}"));
            }
        }
        1 => {
            // a VOLATILE BEST_EFFORT late joiner gets nothing of what was written before it matched
            let w = n1.publisher.create_datawriter::<KeyedData>(&n1.topic, QosKind::Specific(reliable_w(HistoryQosPolicyKind::KeepLast(3), Some(100))), NO_LISTENER, NO_STATUS).await.expect("w");
            for s in 0..3u32 {
                w.write(sample(1, s, 8), None).await.expect("write");
            }
            ctx.sleep_ms(1000).await;
            let r = n2.subscriber.create_datareader::<KeyedData>(&n2.topic, QosKind::Specific(best_effort_r(HistoryQosPolicyKind::KeepAll)), NO_LISTENER, NO_STATUS).await.expect("r");
            ctx.sleep_ms(1000).await;
            let got = seqs(&take_all(&r).await);
            if !got.is_empty() {
                ctx.violation("volatile-got-history/best-effort-late-joiner", format!("{got:?}"));
            }
        }
        2 => {
            // historical data of a writer that has none is complete at once
            let _w = n1.publisher.create_datawriter::<KeyedData>(&n1.topic, QosKind::Specific(tl(reliable_w(HistoryQosPolicyKind::KeepAll, Some(100)))), NO_LISTENER, NO_STATUS).await.expect("w");
            let r = n2.subscriber.create_datareader::<KeyedData>(&n2.topic, QosKind::Specific(tlr(reliable_r(HistoryQosPolicyKind::KeepAll))), NO_LISTENER, NO_STATUS).await.expect("r");
            if !wait_sub_matched(&ctx, &r, 1, 3000).await {
                ctx.violation("setup/no-match", "no match");
                return;
            }
            let r2 = r.clone();
            match within(&ctx, 3000, async move { r2.wait_for_historical_data().await }).await {
                Some(Ok(())) => {}
                other => ctx.violation(format!("wait_for_historical_data/empty-history/{}", if other.is_none() { "never-completes".to_string() } else { format!("{other:?}") }), "the matched TRANSIENT_LOCAL writer never wrote anything, wait_for_historical_data did not complete within 3 s"),
            }
        }
        _ => {
            // a VOLATILE and a TRANSIENT_LOCAL reader of the same participant created back to back
            let w = n1.publisher.create_datawriter::<KeyedData>(&n1.topic, QosKind::Specific(tl(reliable_w(HistoryQosPolicyKind::KeepAll, Some(100)))), NO_LISTENER, NO_STATUS).await.expect("w");
            for s in 0..3u32 {
                w.write(sample(1, s, 8), None).await.expect("write");
            }
            ctx.sleep_ms(300).await;
            let rv = n2.subscriber.create_datareader::<KeyedData>(&n2.topic, QosKind::Specific(reliable_r(HistoryQosPolicyKind::KeepAll)), NO_LISTENER, NO_STATUS).await.expect("rv");
            let rt = n2.subscriber.create_datareader::<KeyedData>(&n2.topic, QosKind::Specific(tlr(reliable_r(HistoryQosPolicyKind::KeepAll))), NO_LISTENER, NO_STATUS).await.expect("rt");
            ctx.sleep_ms(1500).await;
            let (gv, gt) = (seqs(&take_all(&rv).await), seqs(&take_all(&rt).await));
            if !gv.is_empty() {
                ctx.violation("volatile-got-history/sibling-of-tl-reader", format!("{gv:?}"));
            }
            if gt.len() != 3 {
                ctx.violation("tl-reader-lost-history/sibling-of-volatile-reader", format!("the TRANSIENT_LOCAL reader created right after a VOLATILE reader of the same participant got {gt:?} of 3 retained samples"));
            }
        }
    }
}

// ---- C01 -----------------------------------------------------------------------------------------------------------
async fn c01_set_qos(ctx: Ctx, writer_side: bool) {
    let f = ctx.factory("", None);
    let n1 = node::<KeyedData>(&f, 0, "T").await;
    let n2 = node::<KeyedData>(&f, 0, "T").await;
    let wq = reliable_w(HistoryQosPolicyKind::KeepAll, Some(100));
    let rq = reliable_r(HistoryQosPolicyKind::KeepAll);
    let w = n1.publisher.create_datawriter::<KeyedData>(&n1.topic, QosKind::Specific(wq.clone()), NO_LISTENER, NO_STATUS).await.expect("w");
    let r = n2.subscriber.create_datareader::<KeyedData>(&n2.topic, QosKind::Specific(rq.clone()), NO_LISTENER, NO_STATUS).await.expect("r");
    if !wait_pub_matched(&ctx, &w, 1, 3000).await || !wait_sub_matched(&ctx, &r, 1, 3000).await {
        ctx.violation("setup/no-match", "no match");
        return;
    }
    for s in 0..3u32 {
        w.write(sample(1, s, 8), None).await.expect("write");
    }
    ctx.sleep_ms(400).await;
    let first = seqs(&take_all(&r).await);
    if first.len() != 3 {
        ctx.violation("setup/not-delivered", format!("{first:?}"));
        return;
    }
    // a change of a changeable policy (user_data) re-announces the endpoint
    if writer_side {
        let mut q = wq;
        q.user_data.value = vec![1, 2, 3];
        w.set_qos(QosKind::Specific(q)).await.expect("writer set_qos");
    } else {
        let mut q = rq;
        q.user_data.value = vec![1, 2, 3];
        r.set_qos(QosKind::Specific(q)).await.expect("reader set_qos");
    }
    ctx.sleep_ms(400).await;
    w.write(sample(1, 3, 8), None).await.expect("write 4");
    ctx.sleep_ms(800).await;
    let second = seqs(&take_all(&r).await);
    if second != vec![(1, 3)] {
        ctx.violation(format!("set_qos-mid-stream/{}/presented-again-or-lost", if writer_side { "writer" } else { "reader" }), format!("samples 0..2 had been taken; after a user_data change and one more write the reader presented {second:?} (expected exactly [(1, 3)])"));
    }
}

// ---- C03 -----------------------------------------------------------------------------------------------------------
async fn c03_expired_write(ctx: Ctx, keep_last: bool) {
    let f = ctx.factory("", None);
    let n1 = node::<KeyedData>(&f, 0, "T").await;
    let n2 = node::<KeyedData>(&f, 0, "T").await;
    let mut wq = reliable_w(if keep_last { HistoryQosPolicyKind::KeepLast(1) } else { HistoryQosPolicyKind::KeepAll }, Some(200));
    wq.lifespan = LifespanQosPolicy { duration: fin(1000) };
    let w = n1.publisher.create_datawriter::<KeyedData>(&n1.topic, QosKind::Specific(wq), NO_LISTENER, NO_STATUS).await.expect("w");
    let r = n2.subscriber.create_datareader::<KeyedData>(&n2.topic, QosKind::Specific(reliable_r(HistoryQosPolicyKind::KeepAll)), NO_LISTENER, NO_STATUS).await.expect("r");
    if !wait_pub_matched(&ctx, &w, 1, 3000).await {
        ctx.violation("setup/no-match", "no match");
        return;
    }
    // a sample that is already expired when it is written
    let ts = ctx.now() - 5 * crate::sim::SEC;
    let t = Time::new((ts / crate::sim::SEC) as i32, (ts % crate::sim::SEC) as u32);
    if let Err(e) = w.write_w_timestamp(sample(1, 0, 8), None, t).await {
        ctx.obs(format!("expired write refused: {e:?}"));
        return;
    }
    let w2 = w.clone();
    match within(&ctx, 3000, async move { w2.wait_for_acknowledgments().await }).await {
        Some(Ok(())) => {}
        other => ctx.violation(format!("wait_for_acknowledgments/after-expired-write/{}", if other.is_none() { "never-completes".to_string() } else { format!("{other:?}") }), "a sample written with an already expired source timestamp is never sent, but wait_for_acknowledgments waits for it"),
    }
    // later writes of the instance must still work
    for s in 1..3u32 {
        if let Err(e) = w.write(sample(1, s, 8), None).await {
            ctx.violation(format!("write-after-expired-write/{e:?}/keep_last={keep_last}"), format!("write {s} of the same instance failed"));
            return;
        }
        ctx.sleep_ms(300).await;
    }
    let got = seqs(&take_all(&r).await);
    if !got.contains(&(1, 2)) {
        ctx.violation("samples-after-expired-write-not-delivered", format!("{got:?}"));
    }
}

// ---- C30 -----------------------------------------------------------------------------------------------------------
async fn c30_old_timestamp(ctx: Ctx) {
    let f = ctx.factory("", None);
    let n1 = node::<KeyedData>(&f, 0, "T").await;
    let mut wq = reliable_w(HistoryQosPolicyKind::KeepAll, Some(100));
    wq.deadline.period = fin(100);
    let w = n1.publisher.create_datawriter::<KeyedData>(&n1.topic, QosKind::Specific(wq), NO_LISTENER, NO_STATUS).await.expect("w");
    let ts = ctx.now() - 100 * crate::sim::SEC;
    let t = Time::new((ts / crate::sim::SEC) as i32, (ts % crate::sim::SEC) as u32);
    w.write_w_timestamp(sample(1, 0, 8), None, t).await.expect("write");
    ctx.sleep_ms(350).await;
    let st = w.get_offered_deadline_missed_status().await.expect("status");
    // 350 ms after the write at most 3 periods of 100 ms have passed
    if st.total_count > 4 {
        ctx.violation("writer/overcount/old-source-timestamp", format!("deadline 100 ms, one sample written 350 ms ago with a source timestamp 100 s in the past: offered_deadline_missed total_count = {}", st.total_count));
    }
}

// ---- C32 -----------------------------------------------------------------------------------------------------------
async fn c32_enable_after_data(ctx: Ctx) {
    use dust_dds::dds_async::wait_set::{ConditionAsync, WaitSetAsync};
    let f = ctx.factory("", None);
    let n1 = node::<KeyedData>(&f, 0, "T").await;
    let n2 = node::<KeyedData>(&f, 0, "T").await;
    let w = n1.publisher.create_datawriter::<KeyedData>(&n1.topic, QosKind::Specific(reliable_w(HistoryQosPolicyKind::KeepAll, Some(100))), NO_LISTENER, NO_STATUS).await.expect("w");
    let r = n2.subscriber.create_datareader::<KeyedData>(&n2.topic, QosKind::Specific(reliable_r(HistoryQosPolicyKind::KeepAll)), NO_LISTENER, NO_STATUS).await.expect("r");
    if !wait_pub_matched(&ctx, &w, 1, 3000).await || !wait_sub_matched(&ctx, &r, 1, 3000).await {
        ctx.violation("setup/no-match", "no match");
        return;
    }
    let cond = r.get_statuscondition();
    cond.set_enabled_statuses(&[]).await.expect("mask");
    w.write(sample(1, 0, 8), None).await.expect("write");
    ctx.sleep_ms(400).await; // the sample has arrived, DataAvailable is raised but not enabled
    let mut ws = WaitSetAsync::new();
    ws.attach_condition(ConditionAsync::StatusCondition(cond.clone())).await.expect("attach");
    let woke = Arc::new(Mutex::new(false));
    let wk = woke.clone();
    ctx.spawn(async move {
        let _ = ws.wait().await;
        *wk.lock().unwrap() = true;
    });
    ctx.sleep_ms(100).await;
    if *woke.lock().unwrap() {
        ctx.violation("setup/woke-with-empty-mask", "wait() returned although no status is enabled");
        return;
    }
    cond.set_enabled_statuses(&[StatusKind::DataAvailable]).await.expect("enable");
    ctx.sleep_ms(400).await;
    let trig = cond.get_trigger_value().await.unwrap_or(false);
    if trig && !*woke.lock().unwrap() {
        ctx.violation("wait-never-woke/enabled-after-status-change", "DataAvailable was raised, then enabled by set_enabled_statuses: get_trigger_value is true but the blocked wait() was not woken");
    }
}

/// "A StatusCondition's trigger value is true exactly when one of its enabled statuses has changed since last read", for the
/// conditions of every entity kind: false before the event, true after it, false again after the status was read (for
/// data: after the data was taken), and then a wait() on it does not return
async fn c32_trigger(ctx: Ctx, which: usize) {
    use dust_dds::dds_async::wait_set::{ConditionAsync, WaitSetAsync};
    let f = ctx.factory("", None);
    let n1 = node::<KeyedData>(&f, 0, "T").await;
    let n2 = node::<KeyedData>(&f, 0, "T").await;
    let names = ["subscriber/DataOnReaders", "reader/DataAvailable", "reader/SubscriptionMatched", "writer/PublicationMatched", "writer/OfferedDeadlineMissed", "topic/InconsistentTopic"];
    let name = names[which];
    let mut wq = reliable_w(HistoryQosPolicyKind::KeepAll, Some(100));
    if which == 4 {
        wq.deadline.period = DurationKind::Finite(Duration::new(0, 300_000_000));
    }
    // the entities whose conditions are observed exist before the event; the conditions are restricted to the one status
    let w = n1.publisher.create_datawriter::<KeyedData>(&n1.topic, QosKind::Specific(wq), NO_LISTENER, NO_STATUS).await.expect("w");
    let (cond, status) = match which {
        0 => (n2.subscriber.get_statuscondition(), StatusKind::DataOnReaders),
        3 => (w.get_statuscondition(), StatusKind::PublicationMatched),
        4 => (w.get_statuscondition(), StatusKind::OfferedDeadlineMissed),
        5 => (n1.topic.get_statuscondition(), StatusKind::InconsistentTopic),
        _ => (n2.subscriber.get_statuscondition(), StatusKind::DataOnReaders), // replaced below for the reader cases
    };
    let r = n2.subscriber.create_datareader::<KeyedData>(&n2.topic, QosKind::Specific(reliable_r(HistoryQosPolicyKind::KeepAll)), NO_LISTENER, NO_STATUS).await.expect("r");
    let (cond, status) = match which {
        1 => (r.get_statuscondition(), StatusKind::DataAvailable),
        2 => (r.get_statuscondition(), StatusKind::SubscriptionMatched),
        _ => (cond, status),
    };
    cond.set_enabled_statuses(&[status]).await.expect("mask");
    let trig = |c: &dust_dds::dds_async::condition::StatusConditionAsync| {
        let c = c.clone();
        async move { c.get_trigger_value().await.unwrap_or(false) }
    };
    // events: matching happens by itself; data / deadline / inconsistent topic are provoked
    match which {
        0 | 1 => {
            wait_pub_matched(&ctx, &w, 1, 3000).await;
            if trig(&cond).await {
                ctx.violation(format!("trigger/{name}/true-before-any-change"), "trigger value true although nothing happened");
                return;
            }
            w.write(sample(1, 0, 8), None).await.expect("write");
        }
        4 => {
            w.write(sample(1, 0, 8), None).await.expect("write");
        }
        5 => {
            // a remote reader on the same topic name with another type
            let p3 = f.create_participant(0, QosKind::Default, NO_LISTENER, NO_STATUS).await.expect("p3");
            let t3 = p3.create_topic::<FilterData>("T", "Other", QosKind::Default, NO_LISTENER, NO_STATUS).await.expect("t3");
            let s3 = p3.create_subscriber(QosKind::Default, NO_LISTENER, NO_STATUS).await.expect("s3");
            let r3 = s3.create_datareader::<FilterData>(&t3, QosKind::Specific(reliable_r(HistoryQosPolicyKind::KeepAll)), NO_LISTENER, NO_STATUS).await.expect("r3");
            ctx.sleep_ms(500).await;
            // the remote reader goes away again so that the status stops changing
            s3.delete_datareader(&r3).await.expect("delete r3");
            let _ = p3.delete_contained_entities().await;
            let _ = f.delete_participant(&p3).await;
        }
        _ => {}
    }
    ctx.sleep_ms(500).await;
    if !trig(&cond).await {
        ctx.violation(format!("trigger/{name}/false-after-change"), "the status changed 500 ms ago and is enabled: trigger value is false");
        return;
    }
    // read the status (take the data)
    match which {
        0 | 1 => {
            let _ = take_all(&r).await;
        }
        2 => {
            let _ = r.get_subscription_matched_status().await;
        }
        3 => {
            let _ = w.get_publication_matched_status().await;
        }
        4 => {
            // keep the instance alive so that no further period is missed, then read
            w.write(sample(1, 1, 8), None).await.expect("write2");
            let _ = w.get_offered_deadline_missed_status().await;
        }
        _ => {
            ctx.sleep_ms(300).await;
            let _ = n1.topic.get_inconsistent_topic_status().await;
        }
    }
    if trig(&cond).await {
        ctx.violation(format!("trigger/{name}/true-after-read"), "the changed status was read (the data was taken) and nothing changed since: trigger value is still true");
    }
    let mut ws = WaitSetAsync::new();
    ws.attach_condition(ConditionAsync::StatusCondition(cond.clone())).await.expect("attach");
    let woke = Arc::new(Mutex::new(false));
    let wk = woke.clone();
    ctx.spawn(async move {
        let _ = ws.wait().await;
        *wk.lock().unwrap() = true;
    });
    ctx.sleep_ms(100).await;
    if *woke.lock().unwrap() {
        ctx.violation(format!("trigger/{name}/wait-returns-without-change"), "after the status was read, a wait() on the condition returns at once (a wait loop spins)");
    }
}

// ---- C33 -----------------------------------------------------------------------------------------------------------
struct MatchLog(Arc<Mutex<Vec<(i32, i32)>>>);
impl dust_dds::dds_async::data_reader_listener::DataReaderListener<KeyedData> for MatchLog {
    fn on_subscription_matched(&mut self, _r: DataReaderAsync<KeyedData>, s: dust_dds::infrastructure::status::SubscriptionMatchedStatus) -> impl std::future::Future<Output = ()> + Send {
        self.0.lock().unwrap().push((s.current_count, s.current_count_change));
        core::future::ready(())
    }
}
impl dust_dds::dds_async::data_writer_listener::DataWriterListener<KeyedData> for MatchLog {
    fn on_publication_matched(&mut self, _w: DataWriterAsync<KeyedData>, s: dust_dds::infrastructure::status::PublicationMatchedStatus) -> impl std::future::Future<Output = ()> + Send {
        self.0.lock().unwrap().push((s.current_count, s.current_count_change));
        core::future::ready(())
    }
}
async fn c33_unmatch(ctx: Ctx, reader_side: bool) {
    let f = ctx.factory("", None);
    let n1 = node::<KeyedData>(&f, 0, "T").await;
    let n2 = node::<KeyedData>(&f, 0, "T").await;
    let log = Arc::new(Mutex::new(vec![]));
    if reader_side {
        let r = n2.subscriber.create_datareader::<KeyedData>(&n2.topic, QosKind::Specific(reliable_r(HistoryQosPolicyKind::KeepAll)), Some(MatchLog(log.clone())), &[StatusKind::SubscriptionMatched]).await.expect("r");
        let w = n1.publisher.create_datawriter::<KeyedData>(&n1.topic, QosKind::Specific(reliable_w(HistoryQosPolicyKind::KeepAll, Some(100))), NO_LISTENER, NO_STATUS).await.expect("w");
        if !wait_pub_matched(&ctx, &w, 1, 3000).await {
            ctx.violation("setup/no-match", "no match");
            return;
        }
        ctx.sleep_ms(300).await;
        n1.publisher.delete_datawriter(&w).await.expect("delete w");
        ctx.sleep_ms(800).await;
        let _ = r;
    } else {
        let w = n1.publisher.create_datawriter::<KeyedData>(&n1.topic, QosKind::Specific(reliable_w(HistoryQosPolicyKind::KeepAll, Some(100))), Some(MatchLog(log.clone())), &[StatusKind::PublicationMatched]).await.expect("w");
        let r = n2.subscriber.create_datareader::<KeyedData>(&n2.topic, QosKind::Specific(reliable_r(HistoryQosPolicyKind::KeepAll)), NO_LISTENER, NO_STATUS).await.expect("r");
        if !wait_sub_matched(&ctx, &r, 1, 3000).await {
            ctx.violation("setup/no-match", "no match");
            return;
        }
        ctx.sleep_ms(300).await;
        n2.subscriber.delete_datareader(&r).await.expect("delete r");
        ctx.sleep_ms(800).await;
        let _ = w;
    }
    let l = log.lock().unwrap().clone();
    let side = if reader_side { "reader" } else { "writer" };
    if !l.iter().any(|x| x.1 > 0) {
        ctx.violation(format!("setup/match-callback-missing/{side}"), format!("{l:?}"));
        return;
    }
    if !l.iter().any(|x| x.1 < 0) {
        ctx.violation(format!("unmatch/no-callback/{side}"), format!("the matched remote endpoint was deleted (current_count went 1 -> 0, an enabled status change) but the {side} listener was only called with {l:?}"));
    }
}

// ---- C37 -----------------------------------------------------------------------------------------------------------
async fn c37_topic_publisher(ctx: Ctx) {
    let f = ctx.factory("", None);
    let p = f.create_participant(0, QosKind::Default, NO_LISTENER, NO_STATUS).await.expect("participant");
    // inconsistent topic QoS
    let mut tq = TopicQos::default();
    tq.history.kind = HistoryQosPolicyKind::KeepLast(3);
    tq.resource_limits.max_samples_per_instance = Length::Limited(2);
    match p.create_topic::<KeyedData>("A", "T", QosKind::Specific(tq.clone()), NO_LISTENER, NO_STATUS).await {
        Err(DdsError::InconsistentPolicy) => {}
        other => ctx.violation("topic/create/inconsistent-accepted", format!("create_topic with KEEP_LAST(3) and max_samples_per_instance = 2 returned {:?}", other.map(|_| ()))),
    }
    let t = p.create_topic::<KeyedData>("B", "T", QosKind::Default, NO_LISTENER, NO_STATUS).await.expect("topic");
    match t.set_qos(QosKind::Specific(tq)).await {
        Err(DdsError::InconsistentPolicy) => {}
        other => ctx.violation("topic/set_qos/inconsistent-accepted", format!("{other:?}")),
    }
    // immutable publisher / subscriber policy on an enabled entity
    let publ = p.create_publisher(QosKind::Default, NO_LISTENER, NO_STATUS).await.expect("publisher");
    let before = publ.get_qos().await.expect("get_qos");
    let mut q = before.clone();
    q.presentation.access_scope = PresentationQosPolicyAccessScopeKind::Topic;
    q.presentation.coherent_access = true;
    match publ.set_qos(QosKind::Specific(q)).await {
        Err(DdsError::ImmutablePolicy) => {}
        other => ctx.violation("publisher/set_qos/immutable-accepted", format!("changing presentation on an enabled publisher returned {other:?}")),
    }
    let subs = p.create_subscriber(QosKind::Default, NO_LISTENER, NO_STATUS).await.expect("subscriber");
    let mut q = subs.get_qos().await.expect("get_qos");
    q.presentation.access_scope = PresentationQosPolicyAccessScopeKind::Topic;
    q.presentation.ordered_access = true;
    match subs.set_qos(QosKind::Specific(q)).await {
        Err(DdsError::ImmutablePolicy) => {}
        other => ctx.violation("subscriber/set_qos/immutable-accepted", format!("changing presentation on an enabled subscriber returned {other:?}")),
    }
}

// ---- C26 -----------------------------------------------------------------------------------------------------------
async fn c26_rhs(ctx: Ctx, expr: &'static str, params: &'static [&'static str], passes: fn(&FilterData) -> bool) {
    let f = ctx.factory("", None);
    let n1 = node::<FilterData>(&f, 0, "T").await;
    let n2 = node::<FilterData>(&f, 0, "T").await;
    let cft = match n2.participant.create_contentfilteredtopic("TF", &n2.topic, expr.to_string(), params.iter().map(|s| s.to_string()).collect()).await {
        Ok(c) => c,
        Err(_) => {
            ctx.obs("filter refused at creation");
            return;
        }
    };
    let w = n1.publisher.create_datawriter::<FilterData>(&n1.topic, QosKind::Specific(reliable_w(HistoryQosPolicyKind::KeepAll, Some(100))), NO_LISTENER, NO_STATUS).await.expect("writer");
    let Ok(r) = n2.subscriber.create_datareader::<FilterData>(&cft, QosKind::Specific(reliable_r(HistoryQosPolicyKind::KeepAll)), NO_LISTENER, NO_STATUS).await else {
        ctx.obs("reader refused");
        return;
    };
    if !wait_pub_matched(&ctx, &w, 1, 3000).await {
        ctx.violation("setup/no-match", "no match");
        return;
    }
    let samples = [FilterData { id: 1, x: 50, s: "a".into(), seq: 0 }, FilterData { id: 2, x: 3, s: "b".into(), seq: 1 }, FilterData { id: 1, x: 7, s: "".into(), seq: 2 }];
    let mut expected = vec![];
    for d in &samples {
        w.write(d.clone(), None).await.expect("write");
        if passes(d) {
            expected.push(d.seq);
        }
    }
    ctx.sleep_ms(500).await;
    let mut got: Vec<u32> = take_all(&r).await.into_iter().filter_map(|s| s.data.map(|d| d.seq)).collect();
    got.sort();
    if got != expected {
        ctx.violation(format!("right-hand-side/wrong-samples/{expr}"), format!("filter `{expr}` parameters {params:?}: samples {expected:?} pass, reader presented {got:?}"));
    }
}

// ---- C22 -----------------------------------------------------------------------------------------------------------
async fn c22_participant_leaves(ctx: Ctx) {
    let f = ctx.factory("", None);
    let n1 = node::<KeyedData>(&f, 0, "T").await;
    let n2 = node::<KeyedData>(&f, 0, "T").await;
    let mut wq = reliable_w(HistoryQosPolicyKind::KeepAll, Some(100));
    wq.writer_data_lifecycle.autodispose_unregistered_instances = false;
    let w = n1.publisher.create_datawriter::<KeyedData>(&n1.topic, QosKind::Specific(wq), NO_LISTENER, NO_STATUS).await.expect("w");
    let r = n2.subscriber.create_datareader::<KeyedData>(&n2.topic, QosKind::Specific(reliable_r(HistoryQosPolicyKind::KeepAll)), NO_LISTENER, NO_STATUS).await.expect("r");
    if !wait_pub_matched(&ctx, &w, 1, 3000).await || !wait_sub_matched(&ctx, &r, 1, 3000).await {
        ctx.violation("setup/no-match", "no match");
        return;
    }
    for s in 0..3u32 {
        w.write(sample(1, s, 8), None).await.expect("write");
    }
    ctx.sleep_ms(400).await;
    if read_all(&r).await.len() != 3 {
        ctx.violation("setup/not-delivered", "3 samples expected");
        return;
    }
    n1.participant.delete_contained_entities().await.expect("delete contained");
    f.delete_participant(&n1.participant).await.expect("delete participant");
    ctx.sleep_ms(1000).await;
    let got = read_all(&r).await;
    if seqs(&got).len() != 3 {
        ctx.violation("writer-participant-left/unread-samples-vanished", format!("3 samples had been received and read (not taken); after the writer's participant was deleted the reader holds {:?}", seqs(&got)));
    } else if got.iter().any(|s| s.sample_info.instance_state != InstanceStateKind::NotAliveNoWriters) {
        ctx.violation("writer-participant-left/instance-not-no-writers", format!("{:?}", got.iter().map(|s| s.sample_info.instance_state).collect::<Vec<_>>()));
    }
}

// ---- C16 -----------------------------------------------------------------------------------------------------------
/// an endpoint created disabled (autoenable_created_entities = false) is not announced, so no remote endpoint is matched with
/// it: its matched counts must stay 0 (or the getters answer NotEnabled) until enable(), and be 1 on both sides afterwards
async fn c16_disabled_endpoint(ctx: Ctx, writer_side: bool) {
    let f = ctx.factory("", None);
    let n1 = node::<KeyedData>(&f, 0, "T").await;
    let n2 = node::<KeyedData>(&f, 0, "T").await;
    let fq = EntityFactoryQosPolicy { autoenable_created_entities: false };
    let side = if writer_side { "writer" } else { "reader" };
    if writer_side {
        let publ = n1.participant.create_publisher(QosKind::Specific(PublisherQos { entity_factory: fq, ..Default::default() }), NO_LISTENER, NO_STATUS).await.expect("publisher");
        let r = n2.subscriber.create_datareader::<KeyedData>(&n2.topic, QosKind::Specific(reliable_r(HistoryQosPolicyKind::KeepAll)), NO_LISTENER, NO_STATUS).await.expect("r");
        let w = publ.create_datawriter::<KeyedData>(&n1.topic, QosKind::Specific(reliable_w(HistoryQosPolicyKind::KeepAll, Some(100))), NO_LISTENER, NO_STATUS).await.expect("w");
        ctx.sleep_ms(1000).await;
        let local = w.get_publication_matched_status().await.map(|s| s.current_count);
        let remote = r.get_subscription_matched_status().await.map(|s| s.current_count).unwrap_or(-1);
        ctx.obs(format!("disabled writer: local={local:?} remote={remote}"));
        if remote != 0 {
            ctx.violation(format!("disabled-endpoint/{side}/remote-matched-before-enable"), format!("the remote reader counts {remote} matched writers although the writer is not enabled"));
        }
        if let Ok(c) = local {
            if c != 0 {
                ctx.violation(format!("disabled-endpoint/{side}/counts-a-match-before-enable"), format!("a writer that is not enabled (never announced, matched by no reader: remote count {remote}) reports current_count={c}"));
            }
        }
        w.enable().await.expect("enable");
        ctx.sleep_ms(1000).await;
        let local = w.get_publication_matched_status().await.map(|s| s.current_count).unwrap_or(-1);
        let remote = r.get_subscription_matched_status().await.map(|s| s.current_count).unwrap_or(-1);
        if local != 1 || remote != 1 {
            ctx.violation(format!("disabled-endpoint/{side}/not-matched-after-enable"), format!("after enable(): writer current_count={local}, reader current_count={remote}, expected 1/1"));
        }
    } else {
        let subs = n2.participant.create_subscriber(QosKind::Specific(SubscriberQos { entity_factory: fq, ..Default::default() }), NO_LISTENER, NO_STATUS).await.expect("subscriber");
        let w = n1.publisher.create_datawriter::<KeyedData>(&n1.topic, QosKind::Specific(reliable_w(HistoryQosPolicyKind::KeepAll, Some(100))), NO_LISTENER, NO_STATUS).await.expect("w");
        let r = subs.create_datareader::<KeyedData>(&n2.topic, QosKind::Specific(reliable_r(HistoryQosPolicyKind::KeepAll)), NO_LISTENER, NO_STATUS).await.expect("r");
        ctx.sleep_ms(1000).await;
        let local = r.get_subscription_matched_status().await.map(|s| s.current_count);
        let remote = w.get_publication_matched_status().await.map(|s| s.current_count).unwrap_or(-1);
        ctx.obs(format!("disabled reader: local={local:?} remote={remote}"));
        if remote != 0 {
            ctx.violation(format!("disabled-endpoint/{side}/remote-matched-before-enable"), format!("the remote writer counts {remote} matched readers although the reader is not enabled"));
        }
        if let Ok(c) = local {
            if c != 0 {
                ctx.violation(format!("disabled-endpoint/{side}/counts-a-match-before-enable"), format!("a reader that is not enabled (never announced, matched by no writer: remote count {remote}) reports current_count={c}"));
            }
        }
        r.enable().await.expect("enable");
        ctx.sleep_ms(1000).await;
        let local = r.get_subscription_matched_status().await.map(|s| s.current_count).unwrap_or(-1);
        let remote = w.get_publication_matched_status().await.map(|s| s.current_count).unwrap_or(-1);
        if local != 1 || remote != 1 {
            ctx.violation(format!("disabled-endpoint/{side}/not-matched-after-enable"), format!("after enable(): reader current_count={local}, writer current_count={remote}, expected 1/1"));
        }
    }
}

/// a remote participant with TWO readers matched to one local writer departs as a whole (lease expiry / ignored)
async fn c16_two_readers_depart(ctx: Ctx, how: u8) {
    let f = ctx.factory("", Some(200));
    crate::sim::with(|w| w.net.rewrite = Some(Box::new(|d| if d.meta { crate::s_acks::patch_lease(&d.bytes, 1) } else { None })));
    let n1 = node::<KeyedData>(&f, 0, "T").await;
    let n2 = node::<KeyedData>(&f, 0, "T").await;
    let w = n1.publisher.create_datawriter::<KeyedData>(&n1.topic, QosKind::Specific(reliable_w(HistoryQosPolicyKind::KeepAll, Some(100))), NO_LISTENER, NO_STATUS).await.expect("w");
    let ra = n2.subscriber.create_datareader::<KeyedData>(&n2.topic, QosKind::Specific(reliable_r(HistoryQosPolicyKind::KeepAll)), NO_LISTENER, NO_STATUS).await.expect("ra");
    let rb = n2.subscriber.create_datareader::<KeyedData>(&n2.topic, QosKind::Specific(reliable_r(HistoryQosPolicyKind::KeepAll)), NO_LISTENER, NO_STATUS).await.expect("rb");
    if !wait_pub_matched(&ctx, &w, 2, 3000).await {
        ctx.violation("setup/no-match", "the writer did not match both readers");
        return;
    }
    let _ = w.get_publication_matched_status().await;
    if how == 0 {
        ctx.blackhole(1, true); // lease (patched to 1 s) runs out
        ctx.sleep_ms(2500).await;
    } else {
        n1.participant.ignore_participant(n2.participant.get_instance_handle()).await.expect("ignore_participant");
        ctx.sleep_ms(500).await;
    }
    let list = w.get_matched_subscriptions().await.unwrap_or_default();
    let st = w.get_publication_matched_status().await.expect("status");
    let tag = if how == 0 { "lease-expired" } else { "ignored" };
    if !list.is_empty() || st.current_count != 0 {
        ctx.violation(format!("participant-with-two-readers-departed/{tag}/still-matched"), format!("both readers belonged to the departed participant: matched list has {} entries, current_count = {}, current_count_change = {}", list.len(), st.current_count, st.current_count_change));
    } else if st.current_count_change != -2 {
        ctx.violation(format!("participant-with-two-readers-departed/{tag}/current_count_change"), format!("{}", st.current_count_change));
    }
    let _ = (ra, rb);
}

/// a compatible QoS update of a matched endpoint (user_data) is not a new match: total_count stays, no change is reported
async fn c16_reannounce(ctx: Ctx, writer_side: bool) {
    let f = ctx.factory("", None);
    let n1 = node::<KeyedData>(&f, 0, "T").await;
    let n2 = node::<KeyedData>(&f, 0, "T").await;
    let wq = reliable_w(HistoryQosPolicyKind::KeepAll, Some(100));
    let rq = reliable_r(HistoryQosPolicyKind::KeepAll);
    let w = n1.publisher.create_datawriter::<KeyedData>(&n1.topic, QosKind::Specific(wq.clone()), NO_LISTENER, NO_STATUS).await.expect("w");
    let r = n2.subscriber.create_datareader::<KeyedData>(&n2.topic, QosKind::Specific(rq.clone()), NO_LISTENER, NO_STATUS).await.expect("r");
    if !wait_pub_matched(&ctx, &w, 1, 3000).await || !wait_sub_matched(&ctx, &r, 1, 3000).await {
        ctx.violation("setup/no-match", "no match");
        return;
    }
    let _ = w.get_publication_matched_status().await;
    let _ = r.get_subscription_matched_status().await;
    if writer_side {
        let mut q = wq;
        q.user_data.value = vec![9];
        w.set_qos(QosKind::Specific(q)).await.expect("set_qos");
    } else {
        let mut q = rq;
        q.user_data.value = vec![9];
        r.set_qos(QosKind::Specific(q)).await.expect("set_qos");
    }
    ctx.sleep_ms(800).await;
    let (tc, cc, tcc, ccc, side) = if writer_side {
        let s = r.get_subscription_matched_status().await.expect("status");
        (s.total_count, s.current_count, s.total_count_change, s.current_count_change, "reader-sees-writer-update")
    } else {
        let s = w.get_publication_matched_status().await.expect("status");
        (s.total_count, s.current_count, s.total_count_change, s.current_count_change, "writer-sees-reader-update")
    };
    if (tc, cc, tcc, ccc) != (1, 1, 0, 0) {
        ctx.violation(format!("re-announced-endpoint-counted-again/{side}"), format!("the matched endpoint changed its user_data only: total_count={tc} current_count={cc} total_count_change={tcc} current_count_change={ccc} (expected 1, 1, 0, 0)"));
    }
}

// ---- C13 -----------------------------------------------------------------------------------------------------------
/// announcements with octet sequences around and beyond what a 16 bit parameter length can carry: whatever is announced
/// must decode back on the other side, and must not garble the parameters that follow it (the partition)
async fn c13_large_user_data(ctx: Ctx, len: usize) {
    let f = ctx.factory("", None);
    let n1 = node::<KeyedData>(&f, 0, "T").await;
    let n2 = node::<KeyedData>(&f, 0, "T").await;
    let mut pq = PublisherQos::default();
    pq.partition.name = vec!["A".to_string()];
    let publ = n1.participant.create_publisher(QosKind::Specific(pq.clone()), NO_LISTENER, NO_STATUS).await.expect("publisher");
    let mut sq = SubscriberQos::default();
    sq.partition.name = vec!["A".to_string()];
    let subs = n2.participant.create_subscriber(QosKind::Specific(sq), NO_LISTENER, NO_STATUS).await.expect("subscriber");
    let mut wq = reliable_w(HistoryQosPolicyKind::KeepAll, Some(100));
    wq.user_data.value = (0..len).map(|i| (i % 251) as u8).collect();
    let w = match publ.create_datawriter::<KeyedData>(&n1.topic, QosKind::Specific(wq.clone()), NO_LISTENER, NO_STATUS).await {
        Ok(w) => w,
        Err(e) => {
            ctx.obs(format!("writer with {len} octets of user data refused: {e:?}"));
            return;
        }
    };
    let r = subs.create_datareader::<KeyedData>(&n2.topic, QosKind::Specific(reliable_r(HistoryQosPolicyKind::KeepAll)), NO_LISTENER, NO_STATUS).await.expect("reader");
    if !wait_sub_matched(&ctx, &r, 1, 4000).await {
        ctx.violation(format!("large-user-data/{len}/not-matched"), format!("a writer with {len} octets of user data in partition A was not matched by a reader in partition A (announcement lost or its later parameters garbled)"));
        return;
    }
    let hs = r.get_matched_publications().await.unwrap_or_default();
    let Some(h) = hs.first() else { return };
    match r.get_matched_publication_data(*h).await {
        Ok(d) => {
            if d.user_data().value != wq.user_data.value {
                ctx.violation(format!("large-user-data/{len}/decoded-differently"), format!("announced {len} octets of user data, the matched publication data holds {} octets", d.user_data().value.len()));
            }
            if d.partition().name != pq.partition.name {
                ctx.violation(format!("large-user-data/{len}/following-parameter-garbled"), format!("partition decoded as {:?}", d.partition().name));
            }
        }
        Err(e) => ctx.violation(format!("large-user-data/{len}/no-publication-data/{e:?}"), "get_matched_publication_data failed"),
    }
    let _ = w;
}

// ---- C36 -----------------------------------------------------------------------------------------------------------
async fn c36_content_filtered_topic(ctx: Ctx) {
    let f = ctx.factory("", None);
    let p = f.create_participant(0, QosKind::Default, NO_LISTENER, NO_STATUS).await.expect("participant");
    let t = p.create_topic::<FilterData>("T", "T", QosKind::Default, NO_LISTENER, NO_STATUS).await.expect("topic");
    let cft = p.create_contentfilteredtopic("TF", &t, "x = %0".to_string(), vec!["1".to_string()]).await.expect("cft");
    let sub = p.create_subscriber(QosKind::Default, NO_LISTENER, NO_STATUS).await.expect("subscriber");
    let r = sub.create_datareader::<FilterData>(&cft, QosKind::Default, NO_LISTENER, NO_STATUS).await.expect("reader");
    // the related topic is used by the reader through the filtered topic
    match p.delete_topic(&t).await {
        Err(DdsError::PreconditionNotMet(_)) => {}
        other => {
            ctx.violation("cft/delete-related-topic-in-use", format!("delete_topic of the related topic of a content-filtered topic that a reader uses returned {other:?}"));
            return;
        }
    }
    match p.delete_contentfilteredtopic(&cft).await {
        Err(DdsError::PreconditionNotMet(_)) => {}
        other => ctx.violation("cft/delete-in-use", format!("delete_contentfilteredtopic while a reader uses it returned {other:?}")),
    }
    sub.delete_datareader(&r).await.expect("delete reader");
    if let Err(e) = p.delete_contentfilteredtopic(&cft).await {
        ctx.violation(format!("cft/delete-unused/{e:?}"), "delete_contentfilteredtopic of an unused filtered topic failed");
    }
    p.delete_contained_entities().await.expect("delete_contained_entities");
    if let Err(e) = f.delete_participant(&p).await {
        ctx.violation(format!("cft/participant-not-deletable-after-delete_contained_entities/{e:?}"), "a content-filtered topic had been created and deleted; delete_contained_entities did not leave the participant deletable");
    }
}

// ---- C19 (writer side) ---------------------------------------------------------------------------------------------
/// every sequence of register / write / lookup on 3 keys against a writer with max_instances = 2, max_samples = 3,
/// max_samples_per_instance = 2 (no reader: nothing is ever acknowledged away), compared with a plain reference model:
/// an operation that would exceed a limit returns OutOfResources and changes nothing (added after seeded change C19-2)
async fn c19_writer_limits(ctx: Ctx, keep_last: Option<u32>, depth: usize, max_samples: u32) {
    let f = ctx.factory("", None);
    let p = f.create_participant(0, QosKind::Default, NO_LISTENER, NO_STATUS).await.expect("participant");
    let t = p.create_topic::<KeyedData>("T", "T", QosKind::Default, NO_LISTENER, NO_STATUS).await.expect("topic");
    let publ = p.create_publisher(QosKind::Default, NO_LISTENER, NO_STATUS).await.expect("publisher");
    let mut wq = reliable_w(match keep_last { Some(d) => HistoryQosPolicyKind::KeepLast(d), None => HistoryQosPolicyKind::KeepAll }, Some(50));
    wq.resource_limits.max_instances = Length::Limited(2);
    wq.resource_limits.max_samples = Length::Limited(max_samples as i32);
    wq.resource_limits.max_samples_per_instance = Length::Limited(2);
    let w = publ.create_datawriter::<KeyedData>(&t, QosKind::Specific(wq), NO_LISTENER, NO_STATUS).await.expect("writer");
    // reference: registered keys (in order) and stored samples per key
    let mut registered: Vec<u8> = vec![];
    let mut stored: std::collections::BTreeMap<u8, u32> = Default::default();
    let mut hist: Vec<String> = vec![];
    for step in 0..depth {
        let c = ctx.choose(b'O', 9);
        let (op, k) = (c / 3, (c % 3) as u8 + 1);
        let d = sample(k, step as u32, 4);
        let name = ["register", "write", "lookup"][op];
        hist.push(format!("{name}({k})"));
        let total: u32 = stored.values().sum();
        match op {
            0 => {
                let exp_ok = registered.contains(&k) || registered.len() < 2;
                let got = w.register_instance(d).await;
                match (&got, exp_ok) {
                    (Ok(Some(_)), true) => {
                        if !registered.contains(&k) {
                            registered.push(k);
                        }
                    }
                    (Err(DdsError::OutOfResources), false) => {}
                    _ => {
                        ctx.violation(format!("writer-limits/register/expected={}/got={}", if exp_ok { "Ok" } else { "OutOfResources" }, short(&got.map(|_| ()))), format!("history {hist:?} (max_instances 2, registered {registered:?})"));
                        return;
                    }
                }
            }
            1 => {
                let need_instance = !registered.contains(&k);
                let n_k = *stored.get(&k).unwrap_or(&0);
                let replace = matches!(keep_last, Some(dd) if n_k == dd);
                let exp_ok = !(need_instance && registered.len() >= 2) && (replace || (n_k < 2 && total < max_samples));
                let got = w.write(d, None).await;
                match (&got, exp_ok) {
                    (Ok(()), true) => {
                        if need_instance {
                            registered.push(k);
                        }
                        if !replace {
                            *stored.entry(k).or_insert(0) += 1;
                        }
                    }
                    (Err(DdsError::OutOfResources), false) => {}
                    _ => {
                        ctx.violation(format!("writer-limits/write/expected={}/got={}", if exp_ok { "Ok" } else { "OutOfResources" }, short(&got)), format!("history {hist:?} (limits 2 instances, {max_samples} samples, 2 per instance; registered {registered:?}, stored {stored:?})"));
                        return;
                    }
                }
            }
            _ => {
                let got = w.lookup_instance(d).await;
                let exp = registered.contains(&k);
                match &got {
                    Ok(h) if h.is_some() == exp => {}
                    _ => {
                        ctx.violation(format!("writer-limits/lookup/expected-registered={exp}"), format!("history {hist:?}: lookup_instance returned {:?} (a refused operation must store nothing)", got.map(|h| h.is_some())));
                        return;
                    }
                }
            }
        }
    }
}
fn short(r: &DdsResult<()>) -> String {
    match r {
        Ok(()) => "Ok".into(),
        Err(e) => format!("{e:?}").split('(').next().unwrap_or("").to_string(),
    }
}

// ---- C27 -----------------------------------------------------------------------------------------------------------
/// two reliable readers, the acknowledgements of one of them are lost: a KEEP_LAST(1) write of the same instance must not
/// complete (and must not evict the unacknowledged sample) before that reader has acknowledged
async fn c27_two_readers(ctx: Ctx) {
    let f = ctx.factory("", None);
    let n1 = node::<KeyedData>(&f, 0, "T").await;
    let n2 = node::<KeyedData>(&f, 0, "T").await;
    let n3 = node::<KeyedData>(&f, 0, "T").await;
    let w = n1.publisher.create_datawriter::<KeyedData>(&n1.topic, QosKind::Specific(reliable_w(HistoryQosPolicyKind::KeepLast(1), Some(400))), NO_LISTENER, NO_STATUS).await.expect("w");
    let ra = n2.subscriber.create_datareader::<KeyedData>(&n2.topic, QosKind::Specific(reliable_r(HistoryQosPolicyKind::KeepAll)), NO_LISTENER, NO_STATUS).await.expect("ra");
    let rb = n3.subscriber.create_datareader::<KeyedData>(&n3.topic, QosKind::Specific(reliable_r(HistoryQosPolicyKind::KeepAll)), NO_LISTENER, NO_STATUS).await.expect("rb");
    if !wait_pub_matched(&ctx, &w, 2, 3000).await || !wait_sub_matched(&ctx, &ra, 1, 3000).await || !wait_sub_matched(&ctx, &rb, 1, 3000).await {
        ctx.violation("setup/no-match", "no match");
        return;
    }
    // reader b (participant index 2) receives nothing and acknowledges nothing: all user traffic to and from it is dropped
    crate::sim::with(|wd| wd.net.filter = Some(Box::new(|d, _m| !d.meta && (d.dst == 2 || d.src == 2))));
    w.write(sample(1, 0, 8), None).await.expect("first write");
    ctx.sleep_ms(300).await; // reader a has acknowledged, reader b has not
    let t0 = ctx.now();
    let res = w.write(sample(1, 1, 8), None).await;
    let took_ms = (ctx.now() - t0) / crate::sim::MS;
    match res {
        Err(DdsError::Timeout) if took_ms >= 350 => {}
        other => ctx.violation("two-readers/write-did-not-block-for-the-slower-reader", format!("KEEP_LAST(1), sample 0 acknowledged by reader a only; the next write of the instance returned {other:?} after {took_ms} ms (max_blocking_time 400 ms)")),
    }
    // the network heals: reader b must still get sample 0 (it was not evicted) before anything newer
    crate::sim::with(|wd| wd.net.filter = None);
    ctx.sleep_ms(1000).await;
    let gb = seqs(&take_all(&rb).await);
    if !gb.contains(&(1, 0)) {
        ctx.violation("two-readers/unacknowledged-sample-evicted", format!("reader b, whose acknowledgement was outstanding, finally received {gb:?}"));
    }
    let _ = ra;
}

/// two application tasks write the same instance while the writer is blocked (KEEP_LAST(1), the only reader silent): each write
/// blocks until max_blocking_time and returns Timeout (or succeeds once the sample in the way is acknowledged) - no other
/// error, and not before the blocking time has elapsed; a blocked write on another instance must not be disturbed either
async fn c27_concurrent_writes(ctx: Ctx, same_instance: bool) {
    let f = ctx.factory("", None);
    let n1 = node::<KeyedData>(&f, 0, "T").await;
    let n2 = node::<KeyedData>(&f, 0, "T").await;
    let w = n1.publisher.create_datawriter::<KeyedData>(&n1.topic, QosKind::Specific(reliable_w(HistoryQosPolicyKind::KeepLast(1), Some(400))), NO_LISTENER, NO_STATUS).await.expect("w");
    let r = n2.subscriber.create_datareader::<KeyedData>(&n2.topic, QosKind::Specific(reliable_r(HistoryQosPolicyKind::KeepAll)), NO_LISTENER, NO_STATUS).await.expect("r");
    if !wait_pub_matched(&ctx, &w, 1, 3000).await || !wait_sub_matched(&ctx, &r, 1, 3000).await {
        ctx.violation("setup/no-match", "no match");
        return;
    }
    // the reader goes silent: nothing is acknowledged any more
    crate::sim::with(|wd| wd.net.filter = Some(Box::new(|d, _m| !d.meta)));
    w.write(sample(1, 0, 8), None).await.expect("first write of instance 1");
    if !same_instance {
        w.write(sample(2, 0, 8), None).await.expect("first write of instance 2");
    }
    let results: Arc<Mutex<Vec<(u8, String, i64)>>> = Arc::new(Mutex::new(vec![]));
    for task in 0..2u8 {
        let (w, ctx2, res) = (w.clone(), ctx.clone(), results.clone());
        let id = if same_instance { 1 } else { 1 + task };
        ctx.spawn(async move {
            let t0 = ctx2.now();
            let r = w.write(sample(id, 1 + task as u32, 8), None).await;
            let took = (ctx2.now() - t0) / crate::sim::MS;
            res.lock().unwrap().push((task, format!("{:?}", r.as_ref().map(|_| ())), took));
        });
    }
    ctx.sleep_ms(1500).await;
    let res = results.lock().unwrap().clone();
    ctx.obs(format!("same_instance={same_instance} results={res:?}"));
    let tag = if same_instance { "same-instance" } else { "two-instances" };
    if res.len() != 2 {
        ctx.violation(format!("concurrent-writes/{tag}/write-never-returned"), format!("1.5 s after two concurrent writes (max_blocking_time 400 ms) only {} returned: {res:?}", res.len()));
    }
    for (task, r, took) in &res {
        if r != "Err(Timeout)" {
            ctx.violation(format!("concurrent-writes/{tag}/returned={}", r.split('(').nth(1).unwrap_or(r).trim_end_matches(')').split('(').next().unwrap_or("")), format!("task {task}: write on a blocked KEEP_LAST(1) writer returned {r} after {took} ms; nothing was acknowledged, so it must block for max_blocking_time (400 ms) and return Timeout"));
        } else if *took < 395 || *took > 400 + 50 + 10 {
            ctx.violation(format!("concurrent-writes/{tag}/timeout-at-wrong-time"), format!("task {task}: Timeout after {took} ms, max_blocking_time is 400 ms"));
        }
    }
}

// ---- C33 (writer side) -----------------------------------------------------------------------------------------------
type WLog = Arc<Mutex<Vec<String>>>;
struct LvW(WLog);
impl dust_dds::dds_async::data_writer_listener::DataWriterListener<KeyedData> for LvW {
    fn on_offered_incompatible_qos(&mut self, _w: DataWriterAsync<KeyedData>, _s: dust_dds::infrastructure::status::OfferedIncompatibleQosStatus) -> impl std::future::Future<Output = ()> + Send {
        self.0.lock().unwrap().push("writer:offered_incompatible_qos".into());
        core::future::ready(())
    }
    fn on_publication_matched(&mut self, _w: DataWriterAsync<KeyedData>, _s: dust_dds::infrastructure::status::PublicationMatchedStatus) -> impl std::future::Future<Output = ()> + Send {
        self.0.lock().unwrap().push("writer:publication_matched".into());
        core::future::ready(())
    }
    fn on_offered_deadline_missed(&mut self, _w: DataWriterAsync<KeyedData>, _s: dust_dds::infrastructure::status::OfferedDeadlineMissedStatus) -> impl std::future::Future<Output = ()> + Send {
        self.0.lock().unwrap().push("writer:offered_deadline_missed".into());
        core::future::ready(())
    }
}
struct LvP(WLog);
impl dust_dds::dds_async::publisher_listener::PublisherListener for LvP {
    fn on_offered_incompatible_qos(&mut self, _w: DataWriterAsync<()>, _s: dust_dds::infrastructure::status::OfferedIncompatibleQosStatus) -> impl std::future::Future<Output = ()> + Send {
        self.0.lock().unwrap().push("publisher:offered_incompatible_qos".into());
        core::future::ready(())
    }
    fn on_publication_matched(&mut self, _w: DataWriterAsync<()>, _s: dust_dds::infrastructure::status::PublicationMatchedStatus) -> impl std::future::Future<Output = ()> + Send {
        self.0.lock().unwrap().push("publisher:publication_matched".into());
        core::future::ready(())
    }
    fn on_offered_deadline_missed(&mut self, _w: DataWriterAsync<()>, _s: dust_dds::infrastructure::status::OfferedDeadlineMissedStatus) -> impl std::future::Future<Output = ()> + Send {
        self.0.lock().unwrap().push("publisher:offered_deadline_missed".into());
        core::future::ready(())
    }
}
struct LvD(WLog);
impl dust_dds::dds_async::domain_participant_listener::DomainParticipantListener for LvD {
    fn on_offered_incompatible_qos(&mut self, _w: DataWriterAsync<()>, _s: dust_dds::infrastructure::status::OfferedIncompatibleQosStatus) -> impl std::future::Future<Output = ()> + Send {
        self.0.lock().unwrap().push("participant:offered_incompatible_qos".into());
        core::future::ready(())
    }
    fn on_publication_matched(&mut self, _w: DataWriterAsync<()>, _s: dust_dds::infrastructure::status::PublicationMatchedStatus) -> impl std::future::Future<Output = ()> + Send {
        self.0.lock().unwrap().push("participant:publication_matched".into());
        core::future::ready(())
    }
    fn on_offered_deadline_missed(&mut self, _w: DataWriterAsync<()>, _s: dust_dds::infrastructure::status::OfferedDeadlineMissedStatus) -> impl std::future::Future<Output = ()> + Send {
        self.0.lock().unwrap().push("participant:offered_deadline_missed".into());
        core::future::ready(())
    }
}
/// all 3 x 4 x 4 mask configurations of (writer, publisher, participant) x {no listener, {}, {status}, {other}} ... reduced to
/// the mask sets {none, OfferedIncompatibleQos, PublicationMatched, both} per level, every level with a listener
async fn c33_writer_chain(ctx: Ctx) {
    // mask bit 1 = OfferedIncompatibleQos, 2 = PublicationMatched, 4 = OfferedDeadlineMissed: 8 masks per level, 512 configurations
    let all = [StatusKind::OfferedIncompatibleQos, StatusKind::PublicationMatched, StatusKind::OfferedDeadlineMissed];
    let masks: Vec<Vec<StatusKind>> = (0..8usize).map(|m| (0..3).filter(|b| m & (1 << b) != 0).map(|b| all[b]).collect()).collect();
    let cfg = ctx.choose(b'O', 64);
    let cfg2 = ctx.choose(b'O', 8);
    let (mw, mp, md) = (cfg % 4 + 4 * (cfg2 & 1), (cfg / 4) % 4 + 4 * ((cfg2 >> 1) & 1), cfg / 16 + 4 * (cfg2 >> 2));
    let f = ctx.factory("", None);
    let log: WLog = Arc::new(Mutex::new(vec![]));
    let p1 = f.create_participant(0, QosKind::Default, Some(LvD(log.clone())), &masks[md]).await.expect("p1");
    let t1 = p1.create_topic::<KeyedData>("T", "T", QosKind::Default, NO_LISTENER, NO_STATUS).await.expect("t1");
    let publ = p1.create_publisher(QosKind::Default, Some(LvP(log.clone())), &masks[mp]).await.expect("publisher");
    let mut wq = reliable_w(HistoryQosPolicyKind::KeepAll, Some(100));
    wq.reliability.kind = ReliabilityQosPolicyKind::BestEffort;
    wq.deadline = dust_dds::infrastructure::qos_policy::DeadlineQosPolicy { period: DurationKind::Finite(Duration::new(0, 400_000_000)) };
    let w = publ.create_datawriter::<KeyedData>(&t1, QosKind::Specific(wq), Some(LvW(log.clone())), &masks[mw]).await.expect("writer");
    // an instance whose deadline is then missed (several times) while the scenario waits
    w.write(sample(1, 0, 8), None).await.expect("write");
    // a compatible (best-effort) and an incompatible (reliable) remote reader
    let n2 = node::<KeyedData>(&f, 0, "T").await;
    let _rc = n2.subscriber.create_datareader::<KeyedData>(&n2.topic, QosKind::Specific(best_effort_r(HistoryQosPolicyKind::KeepAll)), NO_LISTENER, NO_STATUS).await.expect("rc");
    let _ri = n2.subscriber.create_datareader::<KeyedData>(&n2.topic, QosKind::Specific(reliable_r(HistoryQosPolicyKind::KeepAll)), NO_LISTENER, NO_STATUS).await.expect("ri");
    ctx.sleep_ms(1500).await;
    let l = log.lock().unwrap().clone();
    for (status, bit) in [("offered_incompatible_qos", 1usize), ("publication_matched", 2), ("offered_deadline_missed", 4)] {
        let enabled = |m: usize| m & bit != 0;
        let expected = if enabled(mw) { Some("writer") } else if enabled(mp) { Some("publisher") } else if enabled(md) { Some("participant") } else { None };
        let got: Vec<&String> = l.iter().filter(|x| x.ends_with(status)).collect();
        let mut levels: Vec<&str> = got.iter().map(|x| x.split(':').next().unwrap()).collect();
        if bit == 4 {
            // several periods are missed while the scenario waits: one call per missed period, all at the same level
            levels.dedup();
        }
        match expected {
            None if !levels.is_empty() => ctx.violation(format!("writer-side/{status}/unexpected-callback"), format!("masks writer={mw} publisher={mp} participant={md}: no level enables the status, called {levels:?}")),
            Some(e) if levels != vec![e] => ctx.violation(format!("writer-side/{status}/expected={e}/got={}", if levels.is_empty() { "none".to_string() } else { levels.join("+") }), format!("masks (bit 1 = OfferedIncompatibleQos, bit 2 = PublicationMatched, bit 4 = OfferedDeadlineMissed) writer={mw} publisher={mp} participant={md}: exactly one call at the most specific enabled level expected, got {levels:?}")),
            _ => {}
        }
    }
    let _ = w;
}

// ---- C33 (topic) -------------------------------------------------------------------------------------------------------
struct LvT(WLog);
impl dust_dds::dds_async::topic_listener::TopicListener for LvT {
    fn on_inconsistent_topic(&mut self, _t: TopicAsync, _s: dust_dds::infrastructure::status::InconsistentTopicStatus) -> impl std::future::Future<Output = ()> + Send {
        self.0.lock().unwrap().push("topic:inconsistent_topic".into());
        core::future::ready(())
    }
}
struct LvDT(WLog);
impl dust_dds::dds_async::domain_participant_listener::DomainParticipantListener for LvDT {
    fn on_inconsistent_topic(&mut self, _t: TopicAsync, _s: dust_dds::infrastructure::status::InconsistentTopicStatus) -> impl std::future::Future<Output = ()> + Send {
        self.0.lock().unwrap().push("participant:inconsistent_topic".into());
        core::future::ready(())
    }
}
/// a remote endpoint on the same topic name with another type: the InconsistentTopic status of the local topic goes to
/// the topic's listener if its mask enables it, else to the participant's; listener presence x masks at both levels, for
/// a local writer and for a local reader
async fn c33_inconsistent_topic(ctx: Ctx, local_is_writer: bool) {
    let presence = ctx.choose(b'O', 4);
    let masks = ctx.choose(b'O', 4);
    let f = ctx.factory("", None);
    let log: WLog = Arc::new(Mutex::new(vec![]));
    let m = |lvl: usize| -> Vec<StatusKind> { if masks & (1 << lvl) != 0 { vec![StatusKind::InconsistentTopic] } else { vec![] } };
    let p1 = if presence & 2 != 0 {
        f.create_participant(0, QosKind::Default, Some(LvDT(log.clone())), &m(1)).await.expect("p1")
    } else {
        f.create_participant(0, QosKind::Default, NO_LISTENER, NO_STATUS).await.expect("p1")
    };
    let t1 = if presence & 1 != 0 {
        p1.create_topic::<KeyedData>("T", "T", QosKind::Default, Some(LvT(log.clone())), &m(0)).await.expect("t1")
    } else {
        p1.create_topic::<KeyedData>("T", "T", QosKind::Default, NO_LISTENER, NO_STATUS).await.expect("t1")
    };
    let publ = p1.create_publisher(QosKind::Default, NO_LISTENER, NO_STATUS).await.expect("publisher");
    let subs = p1.create_subscriber(QosKind::Default, NO_LISTENER, NO_STATUS).await.expect("subscriber");
    let mut keep: (Option<DataWriterAsync<KeyedData>>, Option<DataReaderAsync<KeyedData>>) = (None, None);
    if local_is_writer {
        keep.0 = Some(publ.create_datawriter::<KeyedData>(&t1, QosKind::Specific(reliable_w(HistoryQosPolicyKind::KeepAll, Some(100))), NO_LISTENER, NO_STATUS).await.expect("w"));
    } else {
        keep.1 = Some(subs.create_datareader::<KeyedData>(&t1, QosKind::Specific(reliable_r(HistoryQosPolicyKind::KeepAll)), NO_LISTENER, NO_STATUS).await.expect("r"));
    }
    // the remote side: topic "T" with type "Other" (a structurally different type)
    let p2 = f.create_participant(0, QosKind::Default, NO_LISTENER, NO_STATUS).await.expect("p2");
    let t2 = p2.create_topic::<FilterData>("T", "Other", QosKind::Default, NO_LISTENER, NO_STATUS).await.expect("t2");
    let publ2 = p2.create_publisher(QosKind::Default, NO_LISTENER, NO_STATUS).await.expect("publisher2");
    let subs2 = p2.create_subscriber(QosKind::Default, NO_LISTENER, NO_STATUS).await.expect("subscriber2");
    let mut keep2: (Option<DataWriterAsync<FilterData>>, Option<DataReaderAsync<FilterData>>) = (None, None);
    if local_is_writer {
        keep2.1 = Some(subs2.create_datareader::<FilterData>(&t2, QosKind::Specific(reliable_r(HistoryQosPolicyKind::KeepAll)), NO_LISTENER, NO_STATUS).await.expect("r2"));
    } else {
        keep2.0 = Some(publ2.create_datawriter::<FilterData>(&t2, QosKind::Specific(reliable_w(HistoryQosPolicyKind::KeepAll, Some(100))), NO_LISTENER, NO_STATUS).await.expect("w2"));
    }
    ctx.sleep_ms(1500).await;
    let total = t1.get_inconsistent_topic_status().await.map(|s| s.total_count).unwrap_or(-1);
    let l = log.lock().unwrap().clone();
    let has = |lvl: usize| presence & (1 << lvl) != 0 && masks & (1 << lvl) != 0;
    let expected = if has(0) { Some("topic") } else if has(1) { Some("participant") } else { None };
    let levels: Vec<&str> = l.iter().map(|x| x.split(':').next().unwrap()).collect();
    ctx.obs(format!("presence={presence:02b} masks={masks:02b} total_count={total} callbacks={levels:?} expected={expected:?}"));
    if total < 1 {
        // the status itself was not raised: nothing to dispatch (whether this pair of types is inconsistent is not C33's subject)
        ctx.count("inconsistent_topic_not_raised", 1);
        if !levels.is_empty() {
            ctx.violation("inconsistent-topic/callback-without-status-change", format!("total_count={total}, callbacks {levels:?}"));
        }
        return;
    }
    ctx.count("inconsistent_topic_raised", 1);
    let side = if local_is_writer { "writer" } else { "reader" };
    match expected {
        None if !levels.is_empty() => ctx.violation(format!("inconsistent-topic/{side}/unexpected-callback"), format!("presence={presence:02b} masks={masks:02b}: no enabled listener, called {levels:?}")),
        Some(e) if levels.len() != total as usize || levels.iter().any(|x| *x != e) => ctx.violation(
            format!("inconsistent-topic/{side}/expected={e}/got={}", if levels.is_empty() { "none".to_string() } else { let mut d = levels.clone(); d.dedup(); d.join("+") }),
            format!("presence={presence:02b} masks={masks:02b} (bit 1 = topic, bit 2 = participant): total_count={total}, one call per change at the most specific enabled level expected, got {levels:?}"),
        ),
        _ => {}
    }
    let _ = (keep, keep2);
}

pub fn extra(id: &str) -> Vec<Scenario> {
    let thorough = std::env::args().any(|a| a == "thorough");
    let mut v: Vec<Scenario> = vec![];
    let mut add = |name: String, s: Scenario| {
        let _ = name;
        v.push(s.cfg(|c| c.horizon_ms = 60_000));
    };
    match id {
        "C24" => {
            for (k, n) in [(0u8, "owner-deleted"), (1, "owner-disposes"), (2, "owner-unregisters")] {
                for inst in [1u8, 3] {
                    add(n.into(), Scenario::new(format!("C24.audit[{n},instances={inst}]"), 0, move |ctx| c24_owner(ctx, k, inst)));
                }
            }
        }
        "C04" => {
            for (k, n) in [(0u8, "tl-keep-last-two-instances"), (1, "best-effort-volatile-late-joiner"), (2, "empty-history"), (3, "volatile-and-tl-reader-same-participant")] {
                let bound = if k == 0 { if thorough { 2 } else { 1 } } else { 0 };
                add(n.into(), Scenario::new(format!("C04.audit[{n}]"), bound, move |ctx| c04_late(ctx, k)));
            }
        }
        "C01" => {
            for ws in [true, false] {
                add("set_qos".into(), Scenario::new(format!("C01.audit[set_qos-mid-stream,writer_side={ws}]"), 0, move |ctx| c01_set_qos(ctx, ws)));
            }
        }
        "C03" => {
            for kl in [false, true] {
                add("expired".into(), Scenario::new(format!("C03.audit[expired-at-write,keep_last={kl}]"), 0, move |ctx| c03_expired_write(ctx, kl)));
            }
        }
        "C30" => add("old-ts".into(), Scenario::new("C30.audit[old-source-timestamp]".to_string(), 0, c30_old_timestamp)),
        "C32" => {
            add("enable".into(), Scenario::new("C32.audit[enabled-after-status-change]".to_string(), 0, c32_enable_after_data));
            for (k, n) in ["subscriber-DataOnReaders", "reader-DataAvailable", "reader-SubscriptionMatched", "writer-PublicationMatched", "writer-OfferedDeadlineMissed", "topic-InconsistentTopic"].iter().enumerate() {
                add("trigger".into(), Scenario::new(format!("C32.audit[trigger,{n}]"), 0, move |ctx| c32_trigger(ctx, k)));
            }
        }
        "C33" => {
            add("wchain".into(), Scenario::new("C33.audit[writer-side-chain]".to_string(), 99, c33_writer_chain));
            for lw in [true, false] {
                add("topic".into(), Scenario::new(format!("C33.audit[inconsistent-topic,local_is_writer={lw}]"), 99, move |ctx| c33_inconsistent_topic(ctx, lw)));
            }
            for rs in [true, false] {
                add("unmatch".into(), Scenario::new(format!("C33.audit[unmatch,reader_side={rs}]"), 0, move |ctx| c33_unmatch(ctx, rs)));
            }
        }
        // (C28: register_instance is idempotent and lookup_instance answers for exactly the registered instances - also at
        // the resource limits; the same enumeration serves both properties)
        "C19" | "C28" => {
            for (kl, n) in [(None, "keep-all"), (Some(1u32), "keep-last-1"), (Some(2), "keep-last-2")] {
                // max_samples 3: the instance limit binds first; 2: a write of a NEW instance is refused by max_samples
                for ms in [3u32, 2] {
                    let depth = if thorough { 6 } else { 5 };
                    add(n.into(), Scenario::new(format!("{id}.writer-limits[{n},max_samples={ms},depth={depth}]"), 99, move |ctx| c19_writer_limits(ctx, kl, depth, ms)).cfg(|c| c.keep_logs = false));
                }
            }
        }
        "C13" => {
            for len in [65_000usize, 65_528, 65_532, 65_536, 70_000] {
                add("ud".into(), Scenario::new(format!("C13.audit[user-data,len={len}]"), 0, move |ctx| c13_large_user_data(ctx, len)).cfg(|c| c.step_cap = 5_000_000));
            }
        }
        "C36" => add("cft".into(), Scenario::new("C36.audit[content-filtered-topic]".to_string(), 0, c36_content_filtered_topic)),
        "C16" => {
            for ws in [true, false] {
                add("reannounce".into(), Scenario::new(format!("C16.audit[compatible-qos-update,writer_side={ws}]"), 0, move |ctx| c16_reannounce(ctx, ws)));
            }
            for ws in [true, false] {
                add("disabled".into(), Scenario::new(format!("C16.audit[endpoint-created-disabled,writer_side={ws}]"), 0, move |ctx| c16_disabled_endpoint(ctx, ws)));
            }
            for (k, n) in [(0u8, "lease-expired"), (1, "ignored")] {
                add(n.into(), Scenario::new(format!("C16.audit[participant-with-two-readers-departs,{n}]"), 0, move |ctx| c16_two_readers_depart(ctx, k)));
            }
        }
        "C27" => {
            add("two".into(), Scenario::new("C27.audit[two-reliable-readers-one-silent]".to_string(), 0, c27_two_readers));
            for si in [true, false] {
                add("conc".into(), Scenario::new(format!("C27.audit[concurrent-writes,same_instance={si}]"), 0, move |ctx| c27_concurrent_writes(ctx, si)));
            }
        }
        "C37" => add("topic".into(), Scenario::new("C37.audit[topic-publisher-subscriber]".to_string(), 0, c37_topic_publisher)),
        "C26" => {
            add("rhs".into(), Scenario::new("C26.audit[second-parameter]".to_string(), 0, |ctx| c26_rhs(ctx, "x <= %1", &["100", "5"], |d| d.x <= 5)));
            add("rhs".into(), Scenario::new("C26.audit[literal]".to_string(), 0, |ctx| c26_rhs(ctx, "x = 7", &[], |d| d.x == 7)));
        }
        "C22" => add("leaves".into(), Scenario::new("C22.audit[writer-participant-leaves]".to_string(), 0, c22_participant_leaves)),
        _ => {}
    }
    v
}
