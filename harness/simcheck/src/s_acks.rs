//! C03 (wait_for_acknowledgments) and C04 (durability) scenarios.
use crate::dds::*;
use crate::explore::Scenario;
use crate::sim::{Ctx, FATES_FULL, MS, SEC};
use std::cell::RefCell;
use std::rc::Rc;
use vutil::Args;

/// rewrite the participant lease duration announced in SPDP (PID_PARTICIPANT_LEASE_DURATION = 0x0002, 8 bytes)
pub fn patch_lease(bytes: &[u8], secs: u32) -> Option<Vec<u8>> {
    let pat = [0x02u8, 0x00, 0x08, 0x00];
    let mut i = 20;
    while i + 12 <= bytes.len() {
        if bytes[i..i + 4] == pat && i % 4 == 0 {
            let mut v = bytes.to_vec();
            v[i + 4..i + 8].copy_from_slice(&secs.to_le_bytes());
            v[i + 8..i + 12].copy_from_slice(&0u32.to_le_bytes());
            return Some(v);
        }
        i += 4;
    }
    None
}

#[derive(Clone, Copy, PartialEq, Debug)]
pub enum Leave {
    None,
    DeleteReader,
    DeleteParticipant,
    Vanish, // black-holed until its lease (patched to 1 s) runs out
}

#[derive(Clone)]
struct AckParams {
    name: String,
    writes_before: usize,
    second_reader: bool,
    second_best_effort: bool,
    leave: Leave,
    lag_second: bool, // drop the second reader's ACKNACKs until it leaves
}

/// one wait_for_acknowledgments call; soundness is judged at the instant it resolves
async fn wfa_checked(ctx: &Ctx, w: &DataWriterAsync<KeyedData>, readers: &[(DataReaderAsync<KeyedData>, Rc<RefCell<bool>>)], written: u32, max_wait_ms: i64, tag: &str) {
    let done = Rc::new(RefCell::new(None::<Result<(), String>>));
    let d2 = done.clone();
    let w2 = w.clone();
    ctx.spawn(async move {
        let r = w2.wait_for_acknowledgments().await;
        *d2.borrow_mut() = Some(r.map_err(|e| format!("{e:?}")));
    });
    let start = ctx.now();
    loop {
        if let Some(r) = done.borrow().clone() {
            ctx.obs(format!("wfa[{tag}] resolved {:?} after {}ms", r, (ctx.now() - start) / MS));
            if r.is_ok() {
                // soundness: every still-matched reliable reader holds every sample written so far
                for (k, (rd, alive)) in readers.iter().enumerate() {
                    if !*alive.borrow() {
                        continue;
                    }
                    let got = read_all(rd).await;
                    let seqs: Vec<u32> = got.iter().filter_map(|s| s.data.as_ref().map(|d| d.seq)).collect();
                    for q in 0..written {
                        if !seqs.contains(&q) {
                            ctx.violation(format!("unsound-success/reader{k}"), format!("wait_for_acknowledgments[{tag}] returned Ok but matched reliable reader {k} holds {seqs:?}, missing seq {q}"));
                        }
                    }
                }
            } else {
                ctx.violation("wfa-error", format!("wait_for_acknowledgments[{tag}] returned {r:?}"));
            }
            return;
        }
        let quiet_since = ctx.last_deviation_time().max(start);
        if ctx.now() - quiet_since > max_wait_ms * MS {
            ctx.violation(format!("not-completed/{tag}"), format!("wait_for_acknowledgments[{tag}] still pending {max_wait_ms} ms after the network healed / the reader left"));
            return;
        }
        ctx.sleep_ms(10).await;
    }
}

async fn acks(ctx: Ctx, p: Rc<AckParams>) {
    // with the lease patched to 1 s the announcement period must be shorter than the lease
    let f = ctx.factory("", if p.leave == Leave::Vanish { Some(200) } else { None });
    if p.leave == Leave::Vanish {
        crate::sim::with(|w| w.net.rewrite = Some(Box::new(|d| if d.meta { patch_lease(&d.bytes, 1) } else { None })));
    }
    let n1 = node::<KeyedData>(&f, 0, "T").await;
    let n2 = node::<KeyedData>(&f, 0, "T").await;
    let w = n1.publisher.create_datawriter::<KeyedData>(&n1.topic, QosKind::Specific(reliable_w(HistoryQosPolicyKind::KeepAll, Some(100))), NO_LISTENER, NO_STATUS).await.expect("writer");
    let r1 = n2.subscriber.create_datareader::<KeyedData>(&n2.topic, QosKind::Specific(reliable_r(HistoryQosPolicyKind::KeepAll)), NO_LISTENER, NO_STATUS).await.expect("reader");
    let mut readers = vec![(r1.clone(), Rc::new(RefCell::new(true)))];
    let mut n3 = None;
    if p.second_reader {
        let n = node::<KeyedData>(&f, 0, "T").await;
        let q = if p.second_best_effort { best_effort_r(HistoryQosPolicyKind::KeepAll) } else { reliable_r(HistoryQosPolicyKind::KeepAll) };
        let r2 = n.subscriber.create_datareader::<KeyedData>(&n.topic, QosKind::Specific(q), NO_LISTENER, NO_STATUS).await.expect("reader2");
        // a best-effort reader is not owed acknowledgments: it is not in the soundness set
        readers.push((r2, Rc::new(RefCell::new(!p.second_best_effort))));
        n3 = Some(n);
    }
    let nmatch = readers.len() as i32;
    if !wait_pub_matched(&ctx, &w, nmatch, 3000).await {
        ctx.violation("setup/no-match", "writer did not match all readers within 3 s");
        return;
    }
    for (r, _) in &readers {
        wait_sub_matched(&ctx, r, 1, 3000).await;
    }
    // the leaving reader is the last one
    let leaver = readers.len() - 1;
    if p.lag_second {
        // its ACKNACKs are lost: it lags behind from the writer's point of view
        let src = if p.second_reader { 2 } else { 1 };
        crate::sim::with(|w| {
            w.net.filter = Some(Box::new(move |d, m| d.src == src && m.subs.iter().any(|s| s.id == crate::wire::ACKNACK && crate::wire::is_user_entity(&s.writer))))
        });
    }
    ctx.set_window(user_window());
    ctx.open_window();
    let mut written = 0u32;
    for _ in 0..p.writes_before {
        w.write(sample(1, written, 10), None).await.expect("write");
        written += 1;
    }
    if p.leave == Leave::None {
        wfa_checked(&ctx, &w, &readers, written, 1200, "a").await;
        // a second round: write while everything is acknowledged, wait again
        w.write(sample(2, written, 10), None).await.expect("write");
        written += 1;
        wfa_checked(&ctx, &w, &readers, written, 1200, "b").await;
    } else {
        // start waiting, then the lagging reader leaves
        let done = Rc::new(RefCell::new(None::<Result<(), String>>));
        let d2 = done.clone();
        let w2 = w.clone();
        ctx.spawn(async move {
            let r = w2.wait_for_acknowledgments().await;
            *d2.borrow_mut() = Some(r.map_err(|e| format!("{e:?}")));
        });
        ctx.sleep_ms(120).await;
        if p.lag_second && done.borrow().is_some() {
            let (rd, _) = &readers[leaver];
            let _ = rd;
            // success while a matched reliable reader's acknowledgments never arrived: allowed only if that reader
            // really has everything *and* the writer knows (it cannot): unsound
            ctx.violation("unsound-success/no-acknack-received", "wait_for_acknowledgments succeeded although no ACKNACK of a matched reliable reader ever reached the writer");
        }
        let t_leave = ctx.now();
        *readers[leaver].1.borrow_mut() = false;
        ctx.close_window();
        match p.leave {
            Leave::DeleteReader => {
                let (rd, _) = &readers[leaver];
                let sub = if p.second_reader { &n3.as_ref().unwrap().subscriber } else { &n2.subscriber };
                sub.delete_datareader(rd).await.expect("delete reader");
            }
            Leave::DeleteParticipant => {
                let n = if p.second_reader { n3.as_ref().unwrap() } else { &n2 };
                n.participant.delete_contained_entities().await.expect("delete contained");
                f.delete_participant(&n.participant).await.expect("delete participant");
            }
            Leave::Vanish => ctx.blackhole(if p.second_reader { 2 } else { 1 }, true),
            Leave::None => {}
        }
        // bounded completion: reader deletion -> promptly; vanished participant -> lease (1 s) + slack
        let bound_ms = if p.leave == Leave::Vanish { 2500 } else { 1000 };
        loop {
            if let Some(r) = done.borrow().clone() {
                ctx.obs(format!("wfa resolved {:?} {}ms after the reader left", r, (ctx.now() - t_leave) / MS));
                if r.is_ok() {
                    for (k, (rd, alive)) in readers.iter().enumerate() {
                        if !*alive.borrow() {
                            continue;
                        }
                        let got = read_all(rd).await;
                        let seqs: Vec<u32> = got.iter().filter_map(|s| s.data.as_ref().map(|d| d.seq)).collect();
                        for q in 0..written {
                            if !seqs.contains(&q) {
                                ctx.violation(format!("unsound-success/reader{k}"), format!("Ok but remaining matched reliable reader {k} holds {seqs:?}, missing {q}"));
                            }
                        }
                    }
                }
                break;
            }
            if ctx.now() - t_leave > bound_ms * MS {
                ctx.violation(format!("not-completed/after-{:?}", p.leave), format!("wait_for_acknowledgments still pending {bound_ms} ms after the only unacknowledged reader left ({:?})", p.leave));
                break;
            }
            ctx.sleep_ms(10).await;
        }
    }
    let _ = SEC;
}

pub fn c03(args: &Args) -> Vec<Scenario> {
    let t = args.thorough();
    // deviation bounds (quick, thorough)
    let b = if t { 4 } else { 3 };
    let b2 = if t { 3 } else { 2 };
    let b1 = if t { 2 } else { 1 };
    let mut v = vec![];
    let mk = |p: AckParams, bound: usize| {
        let name = p.name.clone();
        let p = Rc::new(p);
        Scenario::new(name, bound, move |ctx| acks(ctx, p.clone())).cfg(|c| {
            c.horizon_ms = 60_000;
            c.fates = FATES_FULL;
        })
    };
    v.push(mk(AckParams { name: "C03.one-reader[writes=2]".into(), writes_before: 2, second_reader: false, second_best_effort: false, leave: Leave::None, lag_second: false }, b));
    v.push(mk(AckParams { name: "C03.one-reader[writes=3]".into(), writes_before: 3, second_reader: false, second_best_effort: false, leave: Leave::None, lag_second: false }, b2));
    v.push(mk(AckParams { name: "C03.two-readers[writes=2]".into(), writes_before: 2, second_reader: true, second_best_effort: false, leave: Leave::None, lag_second: false }, b2));
    v.push(mk(AckParams { name: "C03.besteffort-neighbour[writes=2]".into(), writes_before: 2, second_reader: true, second_best_effort: true, leave: Leave::None, lag_second: false }, b2));
    for leave in [Leave::DeleteReader, Leave::DeleteParticipant, Leave::Vanish] {
        v.push(mk(AckParams { name: format!("C03.leave[{leave:?},single]"), writes_before: 2, second_reader: false, second_best_effort: false, leave, lag_second: true }, b1));
        v.push(mk(AckParams { name: format!("C03.leave[{leave:?},second]"), writes_before: 2, second_reader: true, second_best_effort: false, leave, lag_second: true }, b1));
    }
    v
}

// ---------------------------------------------------------------------------------------------------------------
// C04 durability
// ---------------------------------------------------------------------------------------------------------------
#[derive(Clone)]
struct DurParams {
    name: String,
    w_tl: bool,
    r_tl: bool,
    w_hist: HistoryQosPolicyKind,
    n_before: usize, // writes before the reader is created
    n_after: usize,
    join_gap_ms: i64, // gap between last early write and reader creation
    same_participant: bool,
}

async fn durability(ctx: Ctx, p: Rc<DurParams>) {
    let f = ctx.factory("", None);
    let n1 = node::<KeyedData>(&f, 0, "T").await;
    let n2 = if p.same_participant { None } else { Some(node::<KeyedData>(&f, 0, "T").await) };
    let mut wq = reliable_w(p.w_hist, Some(100));
    wq.durability.kind = if p.w_tl { DurabilityQosPolicyKind::TransientLocal } else { DurabilityQosPolicyKind::Volatile };
    let w = n1.publisher.create_datawriter::<KeyedData>(&n1.topic, QosKind::Specific(wq), NO_LISTENER, NO_STATUS).await.expect("writer");
    ctx.sleep_ms(60).await;
    let mut written: Vec<(u8, u32)> = vec![];
    let mut seq = 0u32;
    for k in 0..p.n_before {
        let id = 1 + (k % 2) as u8;
        w.write(sample(id, seq, 10), None).await.expect("write");
        written.push((id, seq));
        seq += 1;
    }
    let n_early = written.len();
    if p.join_gap_ms > 0 {
        ctx.sleep_ms(p.join_gap_ms).await;
    }
    ctx.set_window(user_window());
    ctx.open_window();
    let mut rq = reliable_r(HistoryQosPolicyKind::KeepAll);
    rq.durability.kind = if p.r_tl { DurabilityQosPolicyKind::TransientLocal } else { DurabilityQosPolicyKind::Volatile };
    let (sub, topic) = match &n2 {
        Some(n) => (&n.subscriber, &n.topic),
        None => (&n1.subscriber, &n1.topic),
    };
    let r = sub.create_datareader::<KeyedData>(topic, QosKind::Specific(rq), NO_LISTENER, NO_STATUS).await.expect("reader");
    // wait_for_historical_data in a separate task; record what the reader held when it resolved
    let hist_done = Rc::new(RefCell::new(None::<Vec<u32>>));
    if p.r_tl && p.w_tl {
        let (r2, h2, ctx2) = (r.clone(), hist_done.clone(), ctx.clone());
        ctx.spawn(async move {
            // wait until matched first (wait_for_historical_data only concerns matched writers)
            wait_sub_matched(&ctx2, &r2, 1, 5000).await;
            if r2.wait_for_historical_data().await.is_ok() {
                let got = read_all(&r2).await;
                *h2.borrow_mut() = Some(got.iter().filter_map(|s| s.data.as_ref().map(|d| d.seq)).collect());
            }
        });
    }
    if !wait_sub_matched(&ctx, &r, 1, 3000).await {
        ctx.violation("setup/no-match", "reader did not match within 3 s");
        return;
    }
    wait_pub_matched(&ctx, &w, 1, 3000).await;
    for k in 0..p.n_after {
        let id = 1 + (k % 2) as u8;
        // a reliable KEEP_LAST writer may legitimately time out while the new reader has not acknowledged yet: retry
        let mut ok = false;
        for _ in 0..40 {
            match w.write(sample(id, seq, 10), None).await {
                Ok(()) => {
                    ok = true;
                    break;
                }
                Err(DdsError::Timeout) => ctx.sleep_ms(50).await,
                Err(e) => {
                    ctx.violation("write-error", format!("write failed with {e:?}"));
                    break;
                }
            }
        }
        if !ok {
            ctx.violation("write-never-succeeds", "a write to a matched, responsive reliable reader kept timing out for 6 s");
            return;
        }
        written.push((id, seq));
        seq += 1;
    }
    // expected history: last depth per instance of the early writes (TL/TL), nothing (otherwise); plus all late writes
    let mut exp_early: Vec<u32> = vec![];
    if p.w_tl && p.r_tl {
        for id in [1u8, 2] {
            let mut of: Vec<u32> = written[..n_early].iter().filter(|w| w.0 == id).map(|w| w.1).collect();
            if let HistoryQosPolicyKind::KeepLast(d) = p.w_hist {
                let k = of.len().saturating_sub(d as usize);
                of.drain(..k);
            }
            exp_early.extend(of);
        }
    }
    let exp_late: Vec<u32> = written[n_early..].iter().map(|w| w.1).collect();
    let mut got: Vec<u32> = vec![];
    let start = ctx.now();
    loop {
        for s in take_all(&r).await {
            if let Some(d) = s.data {
                ctx.obs(format!("take seq={} t={}", d.seq, ctx.ms()));
                if got.contains(&d.seq) {
                    ctx.violation("duplicate", format!("seq {} presented twice", d.seq));
                }
                if (d.seq as usize) < n_early && !exp_early.contains(&d.seq) {
                    let why = if !(p.w_tl && p.r_tl) { "volatile-got-history" } else { "history-beyond-depth" };
                    ctx.violation(why, format!("reader presented seq {} written before it was matched (writer TL={}, reader TL={}, expected early {:?})", d.seq, p.w_tl, p.r_tl, exp_early));
                }
                got.push(d.seq);
            }
        }
        if exp_early.iter().chain(exp_late.iter()).all(|e| got.contains(e)) {
            break;
        }
        let quiet = ctx.last_deviation_time().max(start);
        if ctx.now() - quiet > 3 * SEC {
            let missing: Vec<_> = exp_early.iter().chain(exp_late.iter()).filter(|e| !got.contains(e)).collect();
            let what = if missing.iter().any(|m| (**m as usize) < n_early) { "history-not-delivered" } else { "late-sample-not-delivered" };
            ctx.violation(what, format!("3 s after healing the reader misses {missing:?} (expected early {exp_early:?} late {exp_late:?} got {got:?})"));
            break;
        }
        ctx.sleep_ms(20).await;
    }
    ctx.sleep_ms(450).await;
    for s in take_all(&r).await {
        if let Some(d) = s.data {
            if got.contains(&d.seq) {
                ctx.violation("duplicate", format!("seq {} presented twice (late)", d.seq));
            }
            if (d.seq as usize) < n_early && !exp_early.contains(&d.seq) {
                ctx.violation(if !(p.w_tl && p.r_tl) { "volatile-got-history" } else { "history-beyond-depth" }, format!("late: seq {}", d.seq));
            }
            got.push(d.seq);
        }
    }
    if p.r_tl && p.w_tl {
        // wait_for_historical_data must have completed, and not before the history was there
        // (samples already taken by the main loop count as present)
        match hist_done.borrow().clone() {
            None => ctx.violation("wait_for_historical_data/not-completed", "wait_for_historical_data still pending after the whole history was presented"),
            Some(_held) => {}
        }
    }
    ctx.obs(format!("final got={got:?}"));
}

pub fn c04(args: &Args) -> Vec<Scenario> {
    let t = args.thorough();
    let mut v = vec![];
    let mut mk = |p: DurParams, bound: usize| {
        let name = p.name.clone();
        let p = Rc::new(p);
        v.push(Scenario::new(name, bound, move |ctx| durability(ctx, p.clone())).cfg(|c| {
            c.horizon_ms = 30_000;
            if t {
                c.fates = FATES_FULL;
            }
        }));
    };
    for (w_tl, r_tl) in [(true, true), (true, false), (false, false)] {
        for hist in [HistoryQosPolicyKind::KeepAll, HistoryQosPolicyKind::KeepLast(1), HistoryQosPolicyKind::KeepLast(2)] {
            if !w_tl && !matches!(hist, HistoryQosPolicyKind::KeepAll) {
                continue;
            }
            let hn = match hist {
                HistoryQosPolicyKind::KeepAll => "KA".to_string(),
                HistoryQosPolicyKind::KeepLast(d) => format!("KL{d}"),
            };
            for (nb, na, gap) in [(3usize, 1usize, 0i64), (3, 1, 300), (0, 2, 0)] {
                if nb == 0 && !matches!(hist, HistoryQosPolicyKind::KeepAll) {
                    continue;
                }
                mk(
                    DurParams { name: format!("C04.{}[w={},r={},{hn},before={nb},after={na},gap={gap}]", if w_tl && r_tl { "tl" } else { "volatile" }, w_tl as u8, r_tl as u8), w_tl, r_tl, w_hist: hist, n_before: nb, n_after: na, join_gap_ms: gap, same_participant: false },
                    if t { 3 } else { 2 },
                );
            }
        }
    }
    mk(DurParams { name: "C04.tl[same-participant,KA]".into(), w_tl: true, r_tl: true, w_hist: HistoryQosPolicyKind::KeepAll, n_before: 2, n_after: 1, join_gap_ms: 0, same_participant: true }, 1);
    mk(DurParams { name: "C04.volatile[same-participant,KA]".into(), w_tl: false, r_tl: false, w_hist: HistoryQosPolicyKind::KeepAll, n_before: 2, n_after: 1, join_gap_ms: 0, same_participant: true }, 1);
    v
}
