//! C11 (end-to-end part): the handle the reader derives for a received sample equals the handle the writer assigned,
//! whether or not the key hash travels in the message (fragmented samples carry no inline QoS, hence no key hash), for
//! types whose key members are not the leading members; samples with equal keys share a handle, different keys do not.
//! (The function-level part - all ordered pairs of values of 48 keyed types - is xcdrcheck C11.)
use crate::dds::*;
use crate::explore::Scenario;
use crate::sim::Ctx;
use std::collections::BTreeMap;
use vutil::Args;

#[derive(Clone, Debug, PartialEq, DdsType)]
pub struct KeyLast {
    pub payload: Vec<u8>,
    #[dust_dds(key)]
    pub id: u32,
}

#[derive(Clone, Debug, PartialEq, DdsType)]
#[dust_dds(extensibility = "appendable")]
pub struct KeyMiddle {
    pub a: u8,
    pub text: String,
    #[dust_dds(key)]
    pub k: i64,
    pub payload: Vec<u8>,
}

#[derive(Clone, Debug, PartialEq, DdsType)]
pub struct TwoKeysApart {
    #[dust_dds(key)]
    pub k1: u8,
    pub payload: Vec<u8>,
    #[dust_dds(key)]
    pub k2: u16,
    pub tail: u32,
}

#[derive(Clone, Debug, PartialEq, DdsType)]
#[dust_dds(extensibility = "mutable")]
pub struct MutableKeyLast {
    #[dust_dds(id = 7)]
    pub payload: Vec<u8>,
    #[dust_dds(id = 3, key)]
    pub id: u32,
}

#[derive(Clone, Debug, PartialEq, DdsType)]
pub struct StringKeyLast {
    pub payload: Vec<u8>,
    #[dust_dds(key)]
    pub name: String,
}

pub trait Keyed: dust_dds::xtypes::type_support::TypeSupport + Clone + 'static {
    /// sample number `key` (0..) with a payload of `len` bytes filled from `fill`
    fn make(key: usize, len: usize, fill: u8) -> Self;
    fn key_of(&self) -> String;
    fn payload_len(&self) -> usize;
}
fn pay(len: usize, fill: u8) -> Vec<u8> {
    (0..len).map(|j| fill.wrapping_add((j % 5) as u8)).collect()
}
impl Keyed for KeyLast {
    fn make(key: usize, len: usize, fill: u8) -> Self {
        KeyLast { payload: pay(len, fill), id: [0x01020304u32, 0x01020305, 0][key % 3] }
    }
    fn key_of(&self) -> String {
        format!("{}", self.id)
    }
    fn payload_len(&self) -> usize {
        self.payload.len()
    }
}
impl Keyed for KeyMiddle {
    fn make(key: usize, len: usize, fill: u8) -> Self {
        KeyMiddle { a: fill, text: "x".repeat((fill % 3) as usize), k: [i64::MIN, -1, 77][key % 3], payload: pay(len, fill) }
    }
    fn key_of(&self) -> String {
        format!("{}", self.k)
    }
    fn payload_len(&self) -> usize {
        self.payload.len()
    }
}
impl Keyed for TwoKeysApart {
    fn make(key: usize, len: usize, fill: u8) -> Self {
        let (k1, k2) = [(1u8, 2u16), (2, 1), (1, 0x0201)][key % 3];
        TwoKeysApart { k1, payload: pay(len, fill), k2, tail: fill as u32 }
    }
    fn key_of(&self) -> String {
        format!("{}/{}", self.k1, self.k2)
    }
    fn payload_len(&self) -> usize {
        self.payload.len()
    }
}
impl Keyed for MutableKeyLast {
    fn make(key: usize, len: usize, fill: u8) -> Self {
        MutableKeyLast { payload: pay(len, fill), id: [5u32, 6, u32::MAX][key % 3] }
    }
    fn key_of(&self) -> String {
        format!("{}", self.id)
    }
    fn payload_len(&self) -> usize {
        self.payload.len()
    }
}
impl Keyed for StringKeyLast {
    fn make(key: usize, len: usize, fill: u8) -> Self {
        StringKeyLast { payload: pay(len, fill), name: ["", "a", "a-name-longer-than-sixteen-bytes"][key % 3].to_string() }
    }
    fn key_of(&self) -> String {
        self.name.clone()
    }
    fn payload_len(&self) -> usize {
        self.payload.len()
    }
}

async fn handles<T: Keyed>(ctx: Ctx, tname: &'static str, reliable: bool) {
    let f = ctx.factory("", None);
    let n1 = node::<T>(&f, 0, "K").await;
    let n2 = node::<T>(&f, 0, "K").await;
    let mut wq = reliable_w(HistoryQosPolicyKind::KeepAll, Some(100));
    let rq = if reliable { reliable_r(HistoryQosPolicyKind::KeepAll) } else { best_effort_r(HistoryQosPolicyKind::KeepAll) };
    if !reliable {
        wq.reliability.kind = ReliabilityQosPolicyKind::BestEffort;
    }
    let w = n1.publisher.create_datawriter::<T>(&n1.topic, QosKind::Specific(wq), NO_LISTENER, NO_STATUS).await.expect("writer");
    let r = n2.subscriber.create_datareader::<T>(&n2.topic, QosKind::Specific(rq), NO_LISTENER, NO_STATUS).await.expect("reader");
    if !wait_pub_matched(&ctx, &w, 1, 3000).await || !wait_sub_matched(&ctx, &r, 1, 3000).await {
        ctx.violation("setup/no-match", "no match");
        return;
    }
    // 3 keys x {small: one DATA with key hash, large: DATA_FRAGs without} x 2 payload contents
    let mut writer_handle: BTreeMap<String, InstanceHandle> = BTreeMap::new();
    let mut n = 0;
    for round in 0..2u8 {
        for key in 0..3usize {
            for len in [3usize, 200] {
                let s = T::make(key, len, 10 * round + key as u8);
                let k = s.key_of();
                let hw = match w.register_instance(s.clone()).await {
                    Ok(Some(h)) => h,
                    other => {
                        ctx.violation(format!("{tname}/register-failed"), format!("register_instance({k}) returned {other:?}"));
                        return;
                    }
                };
                if let Some(prev) = writer_handle.get(&k) {
                    if *prev != hw {
                        ctx.violation(format!("{tname}/writer/same-key-different-handle"), format!("key {k}: {prev:?} vs {hw:?} (payload length {len})"));
                    }
                }
                for (ok, oh) in &writer_handle {
                    if *ok != k && *oh == hw {
                        ctx.violation(format!("{tname}/writer/different-key-same-handle"), format!("keys {ok} and {k} share {hw:?}"));
                    }
                }
                writer_handle.insert(k.clone(), hw);
                if w.write(s, None).await.is_err() {
                    ctx.violation(format!("{tname}/write-failed"), format!("key {k} len {len}"));
                    return;
                }
                n += 1;
                ctx.sleep_ms(30).await;
            }
        }
    }
    ctx.sleep_ms(600).await;
    let got = take_all(&r).await;
    if got.len() != n {
        ctx.violation(format!("{tname}/reader/lost-samples/{}", if reliable { "reliable" } else { "best-effort" }), format!("{} of {n} samples presented (no faults injected)", got.len()));
    }
    for s in got {
        let Some(d) = s.data else { continue };
        let k = d.key_of();
        let hw = writer_handle[&k];
        let how = if d.payload_len() > 64 { "fragmented-no-keyhash" } else { "single-data-with-keyhash" };
        if s.sample_info.instance_handle != hw {
            ctx.violation(format!("{tname}/reader-handle-differs-from-writer/{how}"), format!("key {k}: writer assigned {hw:?}, reader derived {:?}", s.sample_info.instance_handle));
        }
    }
    // wire (C12): every key hash dust-dds puts into the inline QoS of a user DATA submessage is the handle of one of the
    // written instances, and every single-DATA sample carries one
    let (mut with_hash, mut without_hash) = (0, 0);
    let hashes: Vec<Vec<u8>> = crate::sim::with(|wd| {
        let mut v = vec![];
        for (_, src, bytes, _) in wd.net.sent_log.iter() {
            if *src != 0 {
                continue;
            }
            for sub in crate::wire::parse(bytes).subs {
                if sub.id == crate::wire::DATA && crate::wire::is_user_entity(&sub.writer) {
                    match sub.inline_qos.iter().find(|(pid, _)| *pid == 0x0070) {
                        Some((_, h)) => {
                            with_hash += 1;
                            v.push(h.clone());
                        }
                        None => without_hash += 1,
                    }
                }
            }
        }
        v
    });
    ctx.count("wire_data_with_key_hash", with_hash);
    ctx.count("wire_data_without_key_hash", without_hash);
    let handles: Vec<[u8; 16]> = writer_handle.values().map(|h| <[u8; 16]>::from(*h)).collect();
    for h in &hashes {
        if !handles.iter().any(|x| x.as_slice() == h.as_slice()) {
            ctx.violation(format!("{tname}/wire-key-hash-is-not-a-writer-handle"), format!("PID_KEY_HASH {h:02x?} sent, writer handles {handles:02x?}"));
            break;
        }
    }
    if with_hash == 0 {
        ctx.violation(format!("{tname}/no-key-hash-on-the-wire"), "no user DATA submessage carried PID_KEY_HASH (the small samples are expected to)");
    }
    // key-only messages: dispose carries the serialized key, the reader must map it to the same instance
    for key in 0..3usize {
        let s = T::make(key, 3, 0);
        let k = s.key_of();
        let _ = w.dispose(s, None).await;
        ctx.sleep_ms(200).await;
        for x in take_all(&r).await {
            if x.sample_info.instance_handle != writer_handle[&k] {
                ctx.violation(format!("{tname}/reader-handle-differs-from-writer/dispose"), format!("key {k}: writer {:?}, reader {:?}", writer_handle[&k], x.sample_info.instance_handle));
            }
        }
    }
}

pub fn c11(_args: &Args) -> Vec<Scenario> {
    scenarios("C11")
}

pub fn c12(_args: &Args) -> Vec<Scenario> {
    scenarios("C12")
}

fn scenarios(id: &'static str) -> Vec<Scenario> {
    let mut v = vec![];
    macro_rules! ty {
        ($t:ty, $name:expr) => {
            for reliable in [true, false] {
                v.push(Scenario::new(format!("{id}.e2e[{},reliable={reliable}]", $name), 0, move |ctx| handles::<$t>(ctx, $name, reliable)).cfg(|c| {
                    c.fragment_size = 64;
                    c.horizon_ms = 30_000;
                }));
            }
        };
    }
    ty!(KeyLast, "key-last");
    ty!(KeyMiddle, "key-middle");
    ty!(TwoKeysApart, "two-keys-apart");
    ty!(MutableKeyLast, "mutable-key-last");
    ty!(StringKeyLast, "string-key-last");
    v
}
