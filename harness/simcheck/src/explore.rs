//! Stateless exhaustive explorer: prefix replay + iterative deviation bounding (Musuvathi/Qadeer), sharded by the
//! first deviation.
use crate::sim::{run_one, ChoicePoint, Ctx, End, RunConfig, RunOutcome};
use std::{collections::BTreeMap, future::Future, pin::Pin, rc::Rc};
use vutil::serde_json::{json, Value};
use vutil::{Args, Report};

pub type Program = Rc<dyn Fn(Ctx) -> Pin<Box<dyn Future<Output = ()>>>>;
pub type PostOracle = Rc<dyn Fn(&RunOutcome, &mut Vec<(String, String)>)>;

pub struct Scenario {
    pub name: String,
    pub cfg: RunConfig,
    pub bound: usize,
    pub program: Program,
    pub post: Option<PostOracle>,
    /// which End states are acceptable besides Done
    pub allow_horizon: bool,
    /// per-execution cap on alternatives explored (None = all)
    pub max_runs: Option<u64>,
}

impl Scenario {
    pub fn new<F, Fut>(name: impl Into<String>, bound: usize, f: F) -> Self
    where
        F: Fn(Ctx) -> Fut + 'static,
        Fut: Future<Output = ()> + 'static,
    {
        Scenario {
            name: name.into(),
            cfg: RunConfig::default(),
            bound,
            program: Rc::new(move |c| Box::pin(f(c))),
            post: None,
            allow_horizon: false,
            max_runs: None,
        }
    }
    pub fn post(mut self, f: impl Fn(&RunOutcome, &mut Vec<(String, String)>) + 'static) -> Self {
        self.post = Some(Rc::new(f));
        self
    }
    pub fn cfg(mut self, f: impl FnOnce(&mut RunConfig)) -> Self {
        f(&mut self.cfg);
        self
    }
}

pub fn run_scenario(s: &Scenario, prefix: &[u8]) -> RunOutcome {
    if std::env::var("SIM_TRACE_PREFIX").is_ok() {
        eprintln!("RUN {} {:?}", s.name, prefix);
    }
    let p = s.program.clone();
    run_one(&s.cfg, prefix, move |c| p(c))
}

fn devs(p: &[u8]) -> usize {
    p.iter().filter(|x| **x != 0).count()
}

fn choices_of(trace: &[ChoicePoint]) -> Vec<u8> {
    trace.iter().map(|c| c.chosen).collect()
}

/// group name = scenario name up to the first '[' (parameters follow in brackets)
fn group(name: &str) -> &str {
    name.split('[').next().unwrap_or(name)
}

struct Acc {
    findings: BTreeMap<String, (usize, String, Value)>,
}

fn judge(s: &Scenario, prefix: &[u8], out: &RunOutcome, acc: &mut Acc, rep: &mut Report) {
    let mut v: Vec<(String, String)> = out.violations.clone();
    if let Some(p) = &s.post {
        p(out, &mut v);
    }
    match &out.end {
        End::Done => {}
        End::Horizon if s.allow_horizon => {}
        End::Panic(m) => {
            let first = m.lines().next().unwrap_or("").chars().take(90).collect::<String>();
            v.push((format!("panic/{first}"), m.clone()));
        }
        End::Diverged(m) => {
            rep.machinery_error = Some(format!("lost determinism in {} prefix {:?}: {}", s.name, prefix, m));
        }
        e => v.push((format!("no-termination/{e:?}"), format!("execution ended with {e:?} after {} steps at t={}ms", out.steps, (out.end_time - crate::sim::T0_SEC * crate::sim::SEC) / crate::sim::MS))),
    }
    for (sig, detail) in v {
        let full = format!("{}/{}", group(&s.name), sig);
        let w = devs(prefix);
        let replay = json!({"scenario": s.name, "prefix": prefix, "obs_tail": out.obs.iter().rev().take(12).rev().collect::<Vec<_>>()});
        match acc.findings.get(&full) {
            Some((w0, _, _)) if *w0 <= w => {}
            _ => {
                acc.findings.insert(full.clone(), (w, format!("[{} prefix={:?}] {}", s.name, prefix, detail), replay));
            }
        }
        rep.add("violating_executions", 1);
    }
    // vacuity counters: did repair traffic actually occur in this execution?
    let (mut nack, mut nackfrag, mut gap, mut resend) = (false, false, false, false);
    let mut seen_data: Vec<(usize, [u8; 4], i64, u32)> = vec![];
    for (_, d) in &out.delivered {
        if d.meta {
            continue;
        }
        let m = crate::wire::parse(&d.bytes);
        for sm in &m.subs {
            match sm.id {
                crate::wire::ACKNACK if !sm.set_bits.is_empty() => nack = true,
                crate::wire::NACK_FRAG => nackfrag = true,
                crate::wire::GAP => gap = true,
                crate::wire::DATA | crate::wire::DATA_FRAG => {
                    let k = (d.dst, sm.writer, sm.sn, sm.frag_start);
                    if seen_data.contains(&k) {
                        resend = true;
                    } else {
                        seen_data.push(k);
                    }
                }
                _ => {}
            }
        }
    }
    rep.add("exec_with_nonempty_acknack", nack as u64);
    rep.add("exec_with_nack_frag", nackfrag as u64);
    rep.add("exec_with_gap", gap as u64);
    rep.add("exec_with_retransmission", resend as u64);
    for (k, n) in &out.counters {
        rep.add(k, *n);
    }
    rep.max("max_virtual_ms", ((out.end_time - crate::sim::T0_SEC * crate::sim::SEC) / crate::sim::MS) as u64);
    rep.max("max_choice_points", out.trace.len() as u64);
    rep.add("zero_length_timer_requests", out.delay_zero_count);
    rep.add("timer_requests", out.delay_count);
    rep.add("datagrams_sent", out.stats.0);
    rep.add("datagrams_in_fault_window", out.stats.2);
}

/// Explore all scenarios assigned to this shard. Returns nothing; fills the report.
pub fn explore(args: &Args, rep: &mut Report, scenarios: Vec<Scenario>) {
    let mut acc = Acc { findings: BTreeMap::new() };
    let mut child_counter: usize = 0;
    let mut per_scenario = vec![];
    for s in &scenarios {
        // baseline (0 deviations), run twice: determinism of the harness is a precondition for any verdict
        let b1 = run_scenario(s, &[]);
        let b2 = run_scenario(s, &[]);
        if b1.hash() != b2.hash() || b1.trace != b2.trace {
            rep.machinery_error = Some(format!("scenario {} is not deterministic (baseline hashes differ)", s.name));
            return;
        }
        if args.shard == 0 {
            rep.evaluations += 1;
            rep.distinct(format!("{:016x}", b1.hash()));
            judge(s, &[], &b1, &mut acc, rep);
            rep.sample(json!({"scenario": s.name, "prefix": [], "end": format!("{:?}", b1.end), "choice_points": b1.trace.len(),
                "obs": b1.obs.iter().take(30).collect::<Vec<_>>()}));
        }
        let mut runs: u64 = 1;
        let mut completed_bound = 0usize;
        let mut capped = false;
        if s.bound >= 1 {
            // first level children, distributed over shards
            let base = choices_of(&b1.trace);
            let mut stack: Vec<Vec<u8>> = vec![];
            for i in 0..b1.trace.len() {
                for alt in 1..b1.trace[i].n {
                    let mine = args.mine(child_counter);
                    child_counter += 1;
                    if !mine {
                        continue;
                    }
                    let mut p = base[..i].to_vec();
                    p.push(alt);
                    stack.push(p);
                }
            }
            stack.reverse();
            while let Some(prefix) = stack.pop() {
                if let Some(m) = s.max_runs {
                    if runs >= m {
                        capped = true;
                        break;
                    }
                }
                let out = run_scenario(s, &prefix);
                runs += 1;
                rep.evaluations += 1;
                rep.distinct(format!("{:016x}", out.hash()));
                // the replayed part must reproduce the prefix exactly
                let got = choices_of(&out.trace);
                if got.len() < prefix.len() || got[..prefix.len()] != prefix[..] {
                    if !matches!(out.end, End::Panic(_)) {
                        rep.machinery_error = Some(format!("prefix replay diverged in {} prefix {:?} got {:?}", s.name, prefix, got));
                        return;
                    }
                }
                judge(s, &prefix, &out, &mut acc, rep);
                if rep.machinery_error.is_some() {
                    return;
                }
                let d = devs(&prefix);
                if d == 1 && runs % 97 == 0 {
                    rep.sample(json!({"scenario": s.name, "prefix": prefix, "end": format!("{:?}", out.end), "obs_tail": out.obs.iter().rev().take(6).rev().collect::<Vec<_>>()}));
                }
                // An execution that did not terminate (step / datagram cap: a message storm) is a finding by itself; its
                // trace can hold 10^5 choice points and is not expanded further
                if d < s.bound && !matches!(out.end, End::StepCap) {
                    for i in (prefix.len()..out.trace.len()).rev() {
                        for alt in (1..out.trace[i].n).rev() {
                            let mut p = got[..i].to_vec();
                            p.push(alt);
                            stack.push(p);
                        }
                    }
                }
            }
            if !capped {
                completed_bound = s.bound;
            }
        }
        if capped {
            rep.exhaustive = false;
            rep.note(format!("{}: capped at {} runs in shard {}", s.name, runs, args.shard));
        }
        per_scenario.push(json!({"scenario": s.name, "choice_points_baseline": b1.trace.len(), "bound": completed_bound, "runs_this_shard": runs}));
    }
    if args.shard == 0 {
        rep.set("scenarios", json!(per_scenario));
    }
    rep.set("cfg_scenarios", json!(scenarios.len()));
    for (sig, (_, detail, replay)) in acc.findings {
        rep.finding(sig, detail, replay);
    }
}

/// Replay one stored choice vector twice (determinism) and print the trace.
pub fn replay(scenarios: Vec<Scenario>, v: &Value) -> bool {
    let name = v["scenario"].as_str().unwrap_or("");
    let prefix: Vec<u8> = v["prefix"].as_array().map(|a| a.iter().map(|x| x.as_u64().unwrap() as u8).collect()).unwrap_or_default();
    let Some(s) = scenarios.iter().find(|s| s.name == name) else {
        eprintln!("scenario {name} not found");
        std::process::exit(2);
    };
    let o1 = run_scenario(s, &prefix);
    let o2 = run_scenario(s, &prefix);
    if o1.hash() != o2.hash() {
        eprintln!("replay not deterministic");
        std::process::exit(2);
    }
    println!("scenario {name} prefix {prefix:?} end {:?} steps {}", o1.end, o1.steps);
    println!("choice points: {}", o1.trace.iter().map(|c| format!("{}{}:{}", c.kind as char, c.n, c.chosen)).collect::<Vec<_>>().join(" "));
    for (t, d) in &o1.delivered {
        let m = crate::wire::parse(&d.bytes);
        if m.has_user_traffic() || std::env::var("SIM_TRACE_META").is_ok() {
            println!("  t={:>6}ms {}->{} {}", (t - crate::sim::T0_SEC * crate::sim::SEC) / crate::sim::MS, d.src, d.dst, m.kinds());
        }
    }
    for o in &o1.obs {
        println!("  obs {o}");
    }
    let mut v2 = o1.violations.clone();
    if let Some(p) = &s.post {
        p(&o1, &mut v2);
    }
    for (sig, d) in &v2 {
        println!("VIOLATION {sig}: {d}");
    }
    v2.is_empty() && matches!(o1.end, End::Done)
}
