//! Minimal, independent RTPS wire parser (RTPS 2.x §8.3/§9.4) used to classify datagrams for fault windows and
//! wire-level oracles. Written from the specification; it does not use dust_dds's parser.

pub const PAD: u8 = 0x01;
pub const ACKNACK: u8 = 0x06;
pub const HEARTBEAT: u8 = 0x07;
pub const GAP: u8 = 0x08;
pub const INFO_TS: u8 = 0x09;
pub const INFO_SRC: u8 = 0x0c;
pub const INFO_REPLY_IP4: u8 = 0x0d;
pub const INFO_DST: u8 = 0x0e;
pub const INFO_REPLY: u8 = 0x0f;
pub const NACK_FRAG: u8 = 0x12;
pub const HEARTBEAT_FRAG: u8 = 0x13;
pub const DATA: u8 = 0x15;
pub const DATA_FRAG: u8 = 0x16;

#[derive(Debug, Clone, Default)]
pub struct Sub {
    pub id: u8,
    pub flags: u8,
    pub reader: [u8; 4],
    pub writer: [u8; 4],
    pub sn: i64,       // DATA/DATA_FRAG writerSN, NACK_FRAG writerSN, GAP gapStart, HEARTBEAT firstSN
    pub last_sn: i64,  // HEARTBEAT lastSN
    pub count: i32,    // HEARTBEAT / ACKNACK / NACK_FRAG count
    pub set_base: i64, // ACKNACK readerSNState.base, GAP gapList.base, NACK_FRAG fragment set base
    pub set_bits: Vec<i64>, // members of the set (absolute numbers)
    pub frag_start: u32,
    pub frags_in: u16,
    pub frag_size: u16,
    pub sample_size: u32,
    pub payload: Vec<u8>,
    pub inline_qos: Vec<(u16, Vec<u8>)>,
    pub dst_prefix: Option<[u8; 12]>,
    pub offset: usize, // offset of the submessage header in the datagram
    pub len: usize,    // total length incl. header
}

#[derive(Debug, Clone, Default)]
pub struct Msg {
    pub ok: bool,
    pub prefix: [u8; 12],
    pub subs: Vec<Sub>,
}

pub fn is_user_entity(e: &[u8; 4]) -> bool {
    // entityKind: two most significant bits 00 = user defined, 11 = built-in, 01 = vendor
    e[3] & 0xc0 == 0 && *e != [0, 0, 0, 0]
}

fn rd16(b: &[u8], le: bool) -> u16 {
    if le { u16::from_le_bytes([b[0], b[1]]) } else { u16::from_be_bytes([b[0], b[1]]) }
}
fn rd32(b: &[u8], le: bool) -> u32 {
    if le { u32::from_le_bytes([b[0], b[1], b[2], b[3]]) } else { u32::from_be_bytes([b[0], b[1], b[2], b[3]]) }
}
fn rdsn(b: &[u8], le: bool) -> i64 {
    let hi = rd32(&b[0..4], le) as i32 as i64;
    let lo = rd32(&b[4..8], le) as i64;
    (hi << 32) | lo
}

fn rdset(b: &[u8], le: bool, base_is_sn: bool) -> Option<(i64, Vec<i64>, usize)> {
    let (base, mut off) = if base_is_sn {
        if b.len() < 12 {
            return None;
        }
        (rdsn(&b[0..8], le), 8)
    } else {
        if b.len() < 8 {
            return None;
        }
        (rd32(&b[0..4], le) as i64, 4)
    };
    let nbits = rd32(&b[off..off + 4], le) as usize;
    off += 4;
    let words = (nbits + 31) / 32;
    if nbits > 256 || b.len() < off + 4 * words {
        return None;
    }
    let mut bits = vec![];
    for i in 0..nbits {
        let w = rd32(&b[off + 4 * (i / 32)..], le);
        if w & (1u32 << (31 - (i % 32))) != 0 {
            bits.push(base + i as i64);
        }
    }
    Some((base, bits, off + 4 * words))
}

fn parse_plist(mut b: &[u8], le: bool) -> (Vec<(u16, Vec<u8>)>, usize) {
    let mut out = vec![];
    let mut used = 0;
    while b.len() >= 4 {
        let pid = rd16(&b[0..2], le);
        let len = rd16(&b[2..4], le) as usize;
        used += 4;
        b = &b[4..];
        if pid == 1 {
            break;
        }
        if b.len() < len {
            break;
        }
        out.push((pid, b[..len].to_vec()));
        b = &b[len..];
        used += len;
    }
    (out, used)
}

pub fn parse(d: &[u8]) -> Msg {
    let mut m = Msg::default();
    if d.len() < 20 || &d[0..4] != b"RTPS" {
        return m;
    }
    m.prefix.copy_from_slice(&d[8..20]);
    m.ok = true;
    let mut off = 20;
    while off + 4 <= d.len() {
        let id = d[off];
        let flags = d[off + 1];
        let le = flags & 1 != 0;
        let mut len = rd16(&d[off + 2..off + 4], le) as usize;
        let body_start = off + 4;
        let to_end = len == 0 && id != PAD && id != INFO_TS;
        if to_end {
            len = d.len() - body_start;
        }
        if body_start + len > d.len() {
            m.ok = false;
            break;
        }
        let b = &d[body_start..body_start + len];
        let mut s = Sub { id, flags, offset: off, len: 4 + len, ..Default::default() };
        let ok = (|| -> Option<()> {
            match id {
                DATA | DATA_FRAG => {
                    if b.len() < 20 {
                        return None;
                    }
                    let o2q = rd16(&b[2..4], le) as usize;
                    s.reader.copy_from_slice(&b[4..8]);
                    s.writer.copy_from_slice(&b[8..12]);
                    s.sn = rdsn(&b[12..20], le);
                    let mut p = 4 + o2q;
                    if id == DATA_FRAG {
                        if b.len() < 32 {
                            return None;
                        }
                        s.frag_start = rd32(&b[20..24], le);
                        s.frags_in = rd16(&b[24..26], le);
                        s.frag_size = rd16(&b[26..28], le);
                        s.sample_size = rd32(&b[28..32], le);
                    }
                    if p > b.len() {
                        return None;
                    }
                    if flags & 0x02 != 0 {
                        let (pl, used) = parse_plist(&b[p..], le);
                        s.inline_qos = pl;
                        p += used;
                    }
                    if p <= b.len() {
                        s.payload = b[p..].to_vec();
                    }
                }
                HEARTBEAT => {
                    if b.len() < 28 {
                        return None;
                    }
                    s.reader.copy_from_slice(&b[0..4]);
                    s.writer.copy_from_slice(&b[4..8]);
                    s.sn = rdsn(&b[8..16], le);
                    s.last_sn = rdsn(&b[16..24], le);
                    s.count = rd32(&b[24..28], le) as i32;
                }
                ACKNACK => {
                    if b.len() < 8 {
                        return None;
                    }
                    s.reader.copy_from_slice(&b[0..4]);
                    s.writer.copy_from_slice(&b[4..8]);
                    let (base, bits, used) = rdset(&b[8..], le, true)?;
                    s.set_base = base;
                    s.set_bits = bits;
                    if b.len() >= 8 + used + 4 {
                        s.count = rd32(&b[8 + used..], le) as i32;
                    }
                }
                GAP => {
                    if b.len() < 16 {
                        return None;
                    }
                    s.reader.copy_from_slice(&b[0..4]);
                    s.writer.copy_from_slice(&b[4..8]);
                    s.sn = rdsn(&b[8..16], le);
                    let (base, bits, _) = rdset(&b[16..], le, true)?;
                    s.set_base = base;
                    s.set_bits = bits;
                }
                NACK_FRAG => {
                    if b.len() < 16 {
                        return None;
                    }
                    s.reader.copy_from_slice(&b[0..4]);
                    s.writer.copy_from_slice(&b[4..8]);
                    s.sn = rdsn(&b[8..16], le);
                    let (base, bits, used) = rdset(&b[16..], le, false)?;
                    s.set_base = base;
                    s.set_bits = bits;
                    if b.len() >= 16 + used + 4 {
                        s.count = rd32(&b[16 + used..], le) as i32;
                    }
                }
                HEARTBEAT_FRAG => {
                    if b.len() < 24 {
                        return None;
                    }
                    s.reader.copy_from_slice(&b[0..4]);
                    s.writer.copy_from_slice(&b[4..8]);
                    s.sn = rdsn(&b[8..16], le);
                    s.frag_start = rd32(&b[16..20], le);
                    s.count = rd32(&b[20..24], le) as i32;
                }
                INFO_DST => {
                    if b.len() >= 12 {
                        let mut p = [0u8; 12];
                        p.copy_from_slice(&b[0..12]);
                        s.dst_prefix = Some(p);
                    }
                }
                _ => {}
            }
            Some(())
        })();
        if ok.is_none() {
            m.ok = false;
        }
        m.subs.push(s);
        off = body_start + len;
        if to_end {
            break;
        }
    }
    m
}

impl Msg {
    pub fn has_user_traffic(&self) -> bool {
        self.subs.iter().any(|s| {
            matches!(s.id, DATA | DATA_FRAG | HEARTBEAT | GAP | ACKNACK | NACK_FRAG | HEARTBEAT_FRAG)
                && (is_user_entity(&s.writer) || is_user_entity(&s.reader))
        })
    }
    pub fn kinds(&self) -> String {
        self.subs
            .iter()
            .map(|s| match s.id {
                DATA => format!("DATA({})", s.sn),
                DATA_FRAG => format!("DATA_FRAG({}:{}+{})", s.sn, s.frag_start, s.frags_in),
                HEARTBEAT => format!("HB({}..{})", s.sn, s.last_sn),
                ACKNACK => format!("ACKNACK({}{:?})", s.set_base, s.set_bits),
                GAP => format!("GAP({}..{}{:?})", s.sn, s.set_base, s.set_bits),
                NACK_FRAG => format!("NACK_FRAG({}:{:?})", s.sn, s.set_bits),
                HEARTBEAT_FRAG => format!("HB_FRAG({}:{})", s.sn, s.frag_start),
                INFO_TS => "TS".to_string(),
                INFO_DST => "DST".to_string(),
                x => format!("#{x:02x}"),
            })
            .collect::<Vec<_>>()
            .join(",")
    }
}
