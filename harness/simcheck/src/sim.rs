//! Deterministic full-stack simulation: virtual clock, timers, single-threaded executor, in-memory network with
//! fault fates, and the choice recorder used by the explorer. No OS thread, wall clock or socket is involved, so an
//! execution is a pure function of the choice vector.
use dust_dds::{
    dds_async::{configuration::DustDdsConfigurationBuilder, domain_participant_factory::DomainParticipantFactoryAsync},
    infrastructure::time::Time,
    runtime::{Clock, DdsRuntime, Spawner, TaskHandle, Timer},
    transport::{
        interface::{RtpsTransportParticipant, TransportDataReceiver, TransportParticipantFactory, WriteMessage},
        types::Locator,
    },
};
use std::{
    cell::RefCell,
    collections::{BTreeMap, VecDeque},
    future::Future,
    pin::Pin,
    rc::Rc,
    sync::{Arc, Mutex},
    task::{Context, Poll, Wake, Waker},
};

pub const MS: i64 = 1_000_000;
pub const SEC: i64 = 1_000_000_000;
/// virtual epoch (seconds) at which every execution starts
pub const T0_SEC: i64 = 1_000;

type BoxFutSend = Pin<Box<dyn Future<Output = ()> + Send>>;
type BoxFut = Pin<Box<dyn Future<Output = ()>>>;

// ---------------------------------------------------------------------------------------------------------------
// shared (Send + Sync) part: what the dust-dds runtime handles touch
// ---------------------------------------------------------------------------------------------------------------
pub struct Outgoing {
    pub src: usize,
    pub bytes: Vec<u8>,
    pub locators: Vec<Locator>,
}

pub struct PartNet {
    pub domain_id: i32,
    pub receiver: TransportDataReceiver,
    pub unicast: Locator,
    pub meta_unicast: Locator,
    pub meta_multicast: Locator,
}

#[derive(Default)]
pub struct Inner {
    pub now: i64,
    epoch: u64,
    ready: VecDeque<usize>,
    queued: Vec<bool>,
    spawned: Vec<BoxFutSend>,
    timers: BTreeMap<u64, (i64, Option<Waker>)>,
    next_timer: u64,
    pub current_task: usize,
    /// (task id, now, requested ns) for every Timer::delay request made by dust-dds code that exceeds
    /// `delay_log_threshold_ns`; all requests are counted
    pub delay_log: Vec<(usize, i64, u64)>,
    pub delay_count: u64,
    pub delay_zero_count: u64,
    pub delay_log_threshold_ns: u64,
    /// virtual time consumed by one task poll (time always passes)
    pub step_ns: i64,
    pub outbox: Vec<Outgoing>,
    pub parts: Vec<PartNet>,
    pub fragment_size: usize,
    pub shared_multicast: bool,
}

pub struct Shared {
    pub inner: Mutex<Inner>,
}
pub type Sh = Arc<Shared>;

fn new_shared(epoch: u64, fragment_size: usize) -> Sh {
    Arc::new(Shared {
        inner: Mutex::new(Inner { now: T0_SEC * SEC, epoch, fragment_size, delay_log_threshold_ns: 50 * MS as u64, step_ns: 1_000, ..Default::default() }),
    })
}

struct TaskWaker {
    id: usize,
    epoch: u64,
    sh: Sh,
}
impl Wake for TaskWaker {
    fn wake(self: Arc<Self>) {
        self.wake_by_ref()
    }
    fn wake_by_ref(self: &Arc<Self>) {
        let mut g = self.sh.inner.lock().unwrap();
        if g.epoch != self.epoch {
            return;
        }
        if self.id < g.queued.len() && !g.queued[self.id] {
            g.queued[self.id] = true;
            g.ready.push_back(self.id);
        }
    }
}

#[derive(Clone)]
pub struct SimClock(Sh);
impl Clock for SimClock {
    fn now(&self) -> Time {
        let n = self.0.inner.lock().unwrap().now;
        Time::new((n / SEC) as i32, (n % SEC) as u32)
    }
}

#[derive(Clone)]
pub struct SimTimer(Sh);
impl Timer for SimTimer {
    fn delay(&mut self, duration: core::time::Duration) -> impl Future<Output = ()> + Send {
        let mut g = self.0.inner.lock().unwrap();
        let ns = duration.as_nanos().min(u64::MAX as u128) as u64;
        let (task, now) = (g.current_task, g.now);
        g.delay_count += 1;
        if ns == 0 {
            g.delay_zero_count += 1;
        }
        if ns > g.delay_log_threshold_ns && g.delay_log.len() < 10_000 {
            g.delay_log.push((task, now, ns));
        }
        let deadline = now.saturating_add(ns.min(i64::MAX as u64) as i64);
        drop(g);
        SimDelay { sh: self.0.clone(), deadline, id: None, yielded: false }
    }
}

pub struct SimDelay {
    sh: Sh,
    deadline: i64,
    id: Option<u64>,
    /// a delay that is already over when first polled still yields once, so that a caller looping on
    /// zero-length delays cannot monopolise the executor (and virtual time passes between its iterations)
    yielded: bool,
}
impl Future for SimDelay {
    type Output = ();
    fn poll(mut self: Pin<&mut Self>, cx: &mut Context<'_>) -> Poll<()> {
        let sh = self.sh.clone();
        let mut g = sh.inner.lock().unwrap();
        if g.now >= self.deadline {
            if let Some(id) = self.id.take() {
                g.timers.remove(&id);
                return Poll::Ready(());
            }
            if self.yielded {
                return Poll::Ready(());
            }
            drop(g);
            self.yielded = true;
            cx.waker().wake_by_ref();
            return Poll::Pending;
        }
        match self.id {
            Some(id) => {
                if let Some(e) = g.timers.get_mut(&id) {
                    e.1 = Some(cx.waker().clone());
                }
            }
            None => {
                let id = g.next_timer;
                g.next_timer += 1;
                g.timers.insert(id, (self.deadline, Some(cx.waker().clone())));
                self.id = Some(id);
            }
        }
        Poll::Pending
    }
}
impl Drop for SimDelay {
    fn drop(&mut self) {
        if let Some(id) = self.id.take() {
            if let Ok(mut g) = self.sh.inner.lock() {
                g.timers.remove(&id);
            }
        }
    }
}

pub struct SimTaskHandle;
impl TaskHandle for SimTaskHandle {
    fn join(&self) {}
}

#[derive(Clone)]
pub struct SimSpawner(Sh);
impl Spawner for SimSpawner {
    type TaskHandle = SimTaskHandle;
    fn spawn(&self, f: impl Future<Output = ()> + Send + 'static) -> SimTaskHandle {
        self.0.inner.lock().unwrap().spawned.push(Box::pin(f));
        SimTaskHandle
    }
}

pub struct SimRuntime(Sh);
impl DdsRuntime for SimRuntime {
    type ClockHandle = SimClock;
    type TimerHandle = SimTimer;
    type SpawnerHandle = SimSpawner;
    fn timer(&self) -> SimTimer {
        SimTimer(self.0.clone())
    }
    fn clock(&self) -> SimClock {
        SimClock(self.0.clone())
    }
    fn spawner(&self) -> SimSpawner {
        SimSpawner(self.0.clone())
    }
}

pub const LOCATOR_KIND_UDPV4: i32 = 1;

pub fn loc(port: u32, last: [u8; 4]) -> Locator {
    let mut a = [0u8; 16];
    a[12..16].copy_from_slice(&last);
    Locator::new(LOCATOR_KIND_UDPV4, port, a)
}

struct SimWriter {
    sh: Sh,
    src: usize,
}
impl WriteMessage for SimWriter {
    fn write_message(&self, buf: &[u8], locators: &[Locator]) {
        self.sh.inner.lock().unwrap().outbox.push(Outgoing { src: self.src, bytes: buf.to_vec(), locators: locators.to_vec() });
    }
}

pub struct SimTransport(Sh);
impl TransportParticipantFactory for SimTransport {
    fn create_participant(&self, domain_id: i32, data_receiver: TransportDataReceiver) -> RtpsTransportParticipant {
        let mut g = self.0.inner.lock().unwrap();
        let idx = g.parts.len();
        let unicast = loc(7411 + 2 * idx as u32, [10, 0, 0, 1 + idx as u8]);
        let meta_unicast = loc(7410 + 2 * idx as u32, [10, 0, 0, 1 + idx as u8]);
        let mport = if g.shared_multicast { 7400 } else { 7400 + 250 * domain_id as u32 };
        let meta_multicast = loc(mport, [239, 255, 0, 1]);
        g.parts.push(PartNet { domain_id, receiver: data_receiver, unicast, meta_unicast, meta_multicast });
        let fragment_size = g.fragment_size;
        RtpsTransportParticipant {
            message_writer: Box::new(SimWriter { sh: self.0.clone(), src: idx }),
            default_unicast_locator_list: vec![unicast],
            metatraffic_unicast_locator_list: vec![meta_unicast],
            metatraffic_multicast_locator_list: vec![meta_multicast],
            default_multicast_locator_list: vec![],
            fragment_size,
        }
    }
}

pub type Factory = DomainParticipantFactoryAsync<SimTransport>;

// ---------------------------------------------------------------------------------------------------------------
// choices
// ---------------------------------------------------------------------------------------------------------------
#[derive(Clone, Copy, Debug, PartialEq, Eq)]
pub struct ChoicePoint {
    pub kind: u8, // b'N' net, b'S' sched, b'T' time, b'O' op
    pub n: u8,
    pub chosen: u8,
}

#[derive(Default)]
pub struct Chooser {
    pub prefix: Vec<u8>,
    pub trace: Vec<ChoicePoint>,
    pub diverged: Option<String>,
}
impl Chooser {
    pub fn choose(&mut self, kind: u8, n: usize) -> usize {
        assert!(n >= 1 && n < 256);
        let pos = self.trace.len();
        let c = if pos < self.prefix.len() { self.prefix[pos] } else { 0 };
        let c = if (c as usize) >= n {
            self.diverged.get_or_insert(format!("choice {pos}: prefix value {c} out of range {n} (kind {})", kind as char));
            0
        } else {
            c
        };
        self.trace.push(ChoicePoint { kind, n: n as u8, chosen: c });
        c as usize
    }
}

// ---------------------------------------------------------------------------------------------------------------
// network
// ---------------------------------------------------------------------------------------------------------------
#[derive(Clone, Debug)]
pub struct Datagram {
    pub src: usize,
    pub dst: usize,
    pub bytes: Arc<Vec<u8>>,
    pub meta: bool,
}

/// fate alphabet; index 0 is the default
#[derive(Clone, Copy, Debug, PartialEq, Eq)]
pub enum Fate {
    Deliver,
    Drop,
    Dup,
    Hold1,    // delivered after the next datagram to the same destination (or at the next clock advance)
    HoldTick, // delivered when the clock next advances
    DupLate,  // delivered now, and a second copy when the clock next advances
    Hold2,
}
pub const FATES_QUICK: &[Fate] = &[Fate::Deliver, Fate::Drop, Fate::Dup, Fate::Hold1, Fate::HoldTick, Fate::DupLate];
pub const FATES_FULL: &[Fate] = &[Fate::Deliver, Fate::Drop, Fate::Dup, Fate::Hold1, Fate::HoldTick, Fate::DupLate, Fate::Hold2];

pub type WindowFn = Box<dyn Fn(&Datagram, &crate::wire::Msg) -> bool>;

pub struct Net {
    pub window_open: bool,
    pub window: Option<WindowFn>,
    pub fates: &'static [Fate],
    /// datagrams held: (remaining datagrams-to-same-destination to wait for, datagram)
    held: Vec<(u32, Datagram)>,
    held_tick: Vec<Datagram>,
    /// participants whose traffic (both directions) is silently discarded (crash / partition)
    pub blackhole: Vec<bool>,
    /// drop every datagram matching this predicate (scenario-level deterministic faults)
    pub filter: Option<Box<dyn Fn(&Datagram, &crate::wire::Msg) -> bool>>,
    /// transform a datagram in flight (e.g. strip the key hash)
    pub rewrite: Option<Box<dyn Fn(&Datagram) -> Option<Vec<u8>>>>,
    pub delivered_log: Vec<(i64, Datagram)>,
    pub sent_log: Vec<(i64, usize, Arc<Vec<u8>>, Vec<Locator>)>,
    pub keep_logs: bool,
    pub stats_sent: u64,
    pub stats_delivered: u64,
    pub stats_in_window: u64,
    pub last_deviation_time: i64,
}

impl Net {
    fn new() -> Self {
        Net {
            window_open: false,
            window: None,
            fates: FATES_QUICK,
            held: vec![],
            held_tick: vec![],
            blackhole: vec![],
            filter: None,
            rewrite: None,
            delivered_log: vec![],
            sent_log: vec![],
            keep_logs: true,
            stats_sent: 0,
            stats_delivered: 0,
            stats_in_window: 0,
            last_deviation_time: 0,
        }
    }
}

// ---------------------------------------------------------------------------------------------------------------
// the world (thread-local, single-threaded)
// ---------------------------------------------------------------------------------------------------------------
pub struct World {
    pub sh: Sh,
    pub chooser: Chooser,
    pub net: Net,
    pub obs: Vec<String>,
    pub violations: Vec<(String, String)>,
    pub sched_window: bool,
    pub counters: BTreeMap<&'static str, u64>,
    local_spawned: Vec<BoxFut>,
    pub factory: Option<Rc<Factory>>,
    pub done: bool,
}

thread_local! {
    static WORLD: RefCell<Option<World>> = const { RefCell::new(None) };
    static EPOCH: RefCell<u64> = const { RefCell::new(0) };
}

pub fn with<R>(f: impl FnOnce(&mut World) -> R) -> R {
    WORLD.with(|w| f(w.borrow_mut().as_mut().expect("no world")))
}

/// Handle given to scenario programs.
#[derive(Clone)]
pub struct Ctx;

impl Ctx {
    pub fn now(&self) -> i64 {
        with(|w| w.sh.inner.lock().unwrap().now)
    }
    /// milliseconds since the start of the execution
    pub fn ms(&self) -> i64 {
        (self.now() - T0_SEC * SEC) / MS
    }
    pub fn sleep_ns(&self, ns: i64) -> SimDelay {
        let sh = with(|w| w.sh.clone());
        let now = sh.inner.lock().unwrap().now;
        SimDelay { sh, deadline: now + ns, id: None, yielded: true }
    }
    pub fn sleep_ms(&self, ms: i64) -> SimDelay {
        self.sleep_ns(ms * MS)
    }
    pub fn obs(&self, s: impl Into<String>) {
        let s = s.into();
        with(|w| w.obs.push(s));
    }
    pub fn violation(&self, sig: impl Into<String>, detail: impl Into<String>) {
        let (s, d) = (sig.into(), detail.into());
        with(|w| w.violations.push((s, d)));
    }
    pub fn count(&self, key: &'static str, n: u64) {
        with(|w| *w.counters.entry(key).or_insert(0) += n);
    }
    pub fn choose(&self, kind: u8, n: usize) -> usize {
        with(|w| w.chooser.choose(kind, n))
    }
    pub fn open_window(&self) {
        with(|w| w.net.window_open = true);
    }
    pub fn close_window(&self) {
        with(|w| w.net.window_open = false);
    }
    pub fn set_window(&self, f: WindowFn) {
        with(|w| w.net.window = Some(f));
    }
    pub fn set_sched_window(&self, on: bool) {
        with(|w| w.sched_window = on);
    }
    pub fn blackhole(&self, part: usize, on: bool) {
        with(|w| {
            if w.net.blackhole.len() <= part {
                w.net.blackhole.resize(part + 1, false);
            }
            w.net.blackhole[part] = on;
        });
    }
    pub fn spawn(&self, f: impl Future<Output = ()> + 'static) {
        with(|w| w.local_spawned.push(Box::pin(f)));
    }
    pub fn factory(&self, domain_tag: &str, announce_ms: Option<u64>) -> Rc<Factory> {
        let sh = with(|w| w.sh.clone());
        let mut b = DustDdsConfigurationBuilder::new().domain_tag(domain_tag.to_string());
        if let Some(ms) = announce_ms {
            b = b.participant_announcement_interval(std::time::Duration::from_millis(ms));
        }
        let cfg = b.build().expect("configuration");
        let f = Rc::new(DomainParticipantFactoryAsync::new(
            SimRuntime(sh.clone()),
            [0, 0, 0, 1],
            [10, 0, 0, 1],
            SimTransport(sh),
            cfg,
        ));
        with(|w| w.factory = Some(f.clone()));
        f
    }
    pub fn last_deviation_time(&self) -> i64 {
        with(|w| w.net.last_deviation_time)
    }
    pub fn delivered_count(&self) -> u64 {
        with(|w| w.net.stats_delivered)
    }
    /// inject raw bytes into a participant as if they had arrived from the network
    pub fn inject(&self, dst: usize, bytes: Vec<u8>) {
        let rx = with(|w| w.sh.inner.lock().unwrap().parts[dst].receiver.clone());
        self.spawn(async move { rx.receive_message(bytes).await });
    }
}

#[derive(Debug, Clone, PartialEq, Eq)]
pub enum End {
    Done,
    Deadlock,
    Horizon,
    StepCap,
    Panic(String),
    Diverged(String),
}

pub struct RunOutcome {
    pub end: End,
    pub trace: Vec<ChoicePoint>,
    pub obs: Vec<String>,
    pub violations: Vec<(String, String)>,
    pub counters: BTreeMap<&'static str, u64>,
    pub delay_log: Vec<(usize, i64, u64)>,
    pub delay_count: u64,
    pub delay_zero_count: u64,
    pub delivered: Vec<(i64, Datagram)>,
    pub sent: Vec<(i64, usize, Arc<Vec<u8>>, Vec<Locator>)>,
    pub steps: u64,
    pub end_time: i64,
    pub worker_task: Option<usize>,
    pub stats: (u64, u64, u64),
}

impl RunOutcome {
    pub fn hash(&self) -> u64 {
        let mut h: u64 = 0xcbf29ce484222325;
        let mut eat = |b: &[u8]| {
            for x in b {
                h ^= *x as u64;
                h = h.wrapping_mul(0x100000001b3);
            }
        };
        for o in &self.obs {
            eat(o.as_bytes());
            eat(b"\n");
        }
        for (t, d) in &self.delivered {
            eat(&t.to_le_bytes());
            eat(&[d.src as u8, d.dst as u8]);
            eat(&d.bytes);
        }
        eat(format!("{:?}", self.end).as_bytes());
        h
    }
}

pub struct RunConfig {
    pub horizon_ms: i64,
    pub step_cap: u64,
    pub fragment_size: usize,
    pub shared_multicast: bool,
    pub fates: &'static [Fate],
    pub keep_logs: bool,
    /// consecutive polls without an idle executor after which the network is pumped anyway (0 = only when idle)
    pub busy_pump_steps: u64,
    /// datagrams sent in one execution after which it is ended like a step-cap overrun (message storms: two endpoints
    /// answering each other without the clock advancing would otherwise only end by exhausting memory)
    pub max_datagrams: u64,
}
impl Default for RunConfig {
    fn default() -> Self {
        RunConfig { horizon_ms: 20_000, step_cap: 400_000, fragment_size: 1344, shared_multicast: false, fates: FATES_QUICK, keep_logs: true, busy_pump_steps: BUSY_PUMP_STEPS, max_datagrams: 200_000 }
    }
}

struct Exec {
    tasks: Vec<Option<BoxFut>>,
    wakers: Vec<Waker>,
    sh: Sh,
    epoch: u64,
    first_spawned: Option<usize>,
}

impl Exec {
    fn add(&mut self, f: BoxFut) -> usize {
        let id = self.tasks.len();
        self.tasks.push(Some(f));
        self.wakers.push(Waker::from(Arc::new(TaskWaker { id, epoch: self.epoch, sh: self.sh.clone() })));
        let mut g = self.sh.inner.lock().unwrap();
        g.queued.push(true);
        g.ready.push_back(id);
        id
    }
    fn absorb(&mut self) {
        loop {
            let sp: Vec<BoxFutSend> = std::mem::take(&mut self.sh.inner.lock().unwrap().spawned);
            let lo: Vec<BoxFut> = with(|w| std::mem::take(&mut w.local_spawned));
            if sp.is_empty() && lo.is_empty() {
                break;
            }
            for f in sp {
                let id = self.add(f);
                self.first_spawned.get_or_insert(id);
            }
            for f in lo {
                self.add(f);
            }
        }
    }
}

fn route(sh: &Sh, o: &Outgoing) -> Vec<(usize, bool)> {
    let g = sh.inner.lock().unwrap();
    let mut out = vec![];
    for l in &o.locators {
        for (i, p) in g.parts.iter().enumerate() {
            if &p.unicast == l {
                out.push((i, false));
            } else if &p.meta_unicast == l {
                out.push((i, true));
            } else if &p.meta_multicast == l {
                out.push((i, true));
            }
        }
    }
    out
}

fn deliver(d: &Datagram) {
    let (rx, bytes) = with(|w| {
        w.net.stats_delivered += 1;
        let now = w.sh.inner.lock().unwrap().now;
        if w.net.keep_logs {
            w.net.delivered_log.push((now, d.clone()));
        }
        let bytes = match &w.net.rewrite {
            Some(f) => f(d).unwrap_or_else(|| d.bytes.as_ref().clone()),
            None => d.bytes.as_ref().clone(),
        };
        (w.sh.inner.lock().unwrap().parts[d.dst].receiver.clone(), bytes)
    });
    with(|w| w.local_spawned.push(Box::pin(async move { rx.receive_message(bytes).await })));
}

/// after a datagram to `dst` was delivered, release datagrams held behind it
fn release_held_after(dst: usize) {
    let mut to_deliver = vec![];
    with(|w| {
        let mut i = 0;
        while i < w.net.held.len() {
            if w.net.held[i].1.dst == dst {
                if w.net.held[i].0 <= 1 {
                    to_deliver.push(w.net.held.remove(i).1);
                    continue;
                } else {
                    w.net.held[i].0 -= 1;
                }
            }
            i += 1;
        }
    });
    for d in to_deliver {
        deliver(&d);
    }
}

/// Process everything in the outbox; returns true if anything happened.
fn pump_network(sh: &Sh) -> bool {
    let out: Vec<Outgoing> = std::mem::take(&mut sh.inner.lock().unwrap().outbox);
    if out.is_empty() {
        return false;
    }
    for o in out {
        let bytes = Arc::new(o.bytes.clone());
        let now = sh.inner.lock().unwrap().now;
        with(|w| {
            w.net.stats_sent += 1;
            if w.net.keep_logs {
                w.net.sent_log.push((now, o.src, bytes.clone(), o.locators.clone()));
            }
        });
        for (dst, meta) in route(sh, &o) {
            let d = Datagram { src: o.src, dst, bytes: bytes.clone(), meta };
            let bh = with(|w| {
                w.net.blackhole.get(d.src).copied().unwrap_or(false) || w.net.blackhole.get(d.dst).copied().unwrap_or(false)
            });
            if bh {
                continue;
            }
            let msg = crate::wire::parse(&d.bytes);
            let filtered = with(|w| w.net.filter.as_ref().map(|f| f(&d, &msg)).unwrap_or(false));
            if filtered {
                continue;
            }
            let in_window = with(|w| w.net.window_open && w.net.window.as_ref().map(|f| f(&d, &msg)).unwrap_or(false));
            let fate = if in_window {
                with(|w| {
                    w.net.stats_in_window += 1;
                    let n = w.net.fates.len();
                    let c = w.chooser.choose(b'N', n);
                    if c != 0 {
                        w.net.last_deviation_time = now;
                    }
                    w.net.fates[c]
                })
            } else {
                Fate::Deliver
            };
            match fate {
                Fate::Deliver => {
                    deliver(&d);
                    release_held_after(dst);
                }
                Fate::Drop => {}
                Fate::Dup => {
                    deliver(&d);
                    deliver(&d);
                    release_held_after(dst);
                }
                Fate::Hold1 => with(|w| w.net.held.push((1, d))),
                Fate::Hold2 => with(|w| w.net.held.push((2, d))),
                Fate::HoldTick => with(|w| w.net.held_tick.push(d)),
                Fate::DupLate => {
                    deliver(&d);
                    release_held_after(dst);
                    with(|w| w.net.held_tick.push(d));
                }
            }
        }
    }
    true
}

/// the clock is about to advance: everything still held is delivered first (in hold order)
fn flush_held() -> bool {
    let ds: Vec<Datagram> = with(|w| {
        let mut v: Vec<Datagram> = w.net.held.drain(..).map(|x| x.1).collect();
        v.append(&mut w.net.held_tick);
        v
    });
    let any = !ds.is_empty();
    for d in ds {
        deliver(&d);
    }
    any
}

/// Run one complete execution of `program` under the given choice prefix.
/// default of RunConfig::busy_pump_steps (20 ms of virtual time)
const BUSY_PUMP_STEPS: u64 = 20_000;

pub fn run_one<F, Fut>(cfg: &RunConfig, prefix: &[u8], program: F) -> RunOutcome
where
    F: FnOnce(Ctx) -> Fut,
    Fut: Future<Output = ()> + 'static,
{
    let epoch = EPOCH.with(|e| {
        *e.borrow_mut() += 1;
        *e.borrow()
    });
    let sh = new_shared(epoch, cfg.fragment_size);
    sh.inner.lock().unwrap().shared_multicast = cfg.shared_multicast;
    let mut net = Net::new();
    net.fates = cfg.fates;
    net.keep_logs = cfg.keep_logs;
    WORLD.with(|w| {
        *w.borrow_mut() = Some(World {
            sh: sh.clone(),
            chooser: Chooser { prefix: prefix.to_vec(), ..Default::default() },
            net,
            obs: vec![],
            violations: vec![],
            sched_window: false,
            counters: BTreeMap::new(),
            local_spawned: vec![],
            factory: None,
            done: false,
        })
    });
    let mut ex = Exec { tasks: vec![], wakers: vec![], sh: sh.clone(), epoch, first_spawned: None };
    let fut = program(Ctx);
    let root = ex.add(Box::pin(async move {
        fut.await;
        with(|w| w.done = true);
    }));
    let horizon = T0_SEC * SEC + cfg.horizon_ms * MS;
    let mut steps: u64 = 0;
    let mut busy_steps: u64 = 0;

    let result = std::panic::catch_unwind(std::panic::AssertUnwindSafe(|| -> End {
        loop {
            steps += 1;
            if steps > cfg.step_cap || (steps % 1024 == 0 && with(|w| w.net.stats_sent) > cfg.max_datagrams) {
                return End::StepCap;
            }
            ex.absorb();
            // pick a ready task
            let next = {
                let sched = with(|w| w.sched_window);
                let mut g = sh.inner.lock().unwrap();
                if g.ready.is_empty() {
                    None
                } else if sched && g.ready.len() > 1 {
                    let n = g.ready.len().min(4);
                    drop(g);
                    let c = with(|w| w.chooser.choose(b'S', n));
                    let mut g = sh.inner.lock().unwrap();
                    let id = g.ready.remove(c).unwrap();
                    g.queued[id] = false;
                    g.current_task = id;
                    Some(id)
                } else {
                    let id = g.ready.pop_front().unwrap();
                    g.queued[id] = false;
                    g.current_task = id;
                    Some(id)
                }
            };
            if let Some(id) = next {
                // The network does not wait for the executor to go idle: after BUSY_PUMP_STEPS consecutive polls (that much
                // virtual time at step_ns per poll) whatever was sent is delivered. Without this a task that never goes
                // idle (e.g. a worker asking for zero-length sleeps because something is overdue) starves every datagram.
                busy_steps += 1;
                if cfg.busy_pump_steps > 0 && busy_steps >= cfg.busy_pump_steps {
                    busy_steps = 0;
                    if pump_network(&sh) | flush_held() {
                        with(|w| *w.counters.entry("busy_network_pumps").or_insert(0) += 1);
                    }
                }
                {
                    // time always passes: every poll costs step_ns of virtual time
                    let mut g = sh.inner.lock().unwrap();
                    g.now += g.step_ns;
                    let now = g.now;
                    let mut wk = vec![];
                    for (_, v) in g.timers.iter_mut() {
                        if v.0 <= now {
                            if let Some(w) = v.1.take() {
                                wk.push(w);
                            }
                        }
                    }
                    drop(g);
                    for w in wk {
                        w.wake();
                    }
                }
                if let Some(mut t) = ex.tasks[id].take() {
                    let w = ex.wakers[id].clone();
                    let mut cx = Context::from_waker(&w);
                    match t.as_mut().poll(&mut cx) {
                        Poll::Ready(()) => {
                            if id == root {
                                return End::Done;
                            }
                        }
                        Poll::Pending => ex.tasks[id] = Some(t),
                    }
                }
                if with(|w| w.chooser.diverged.is_some()) {
                    return End::Diverged(with(|w| w.chooser.diverged.clone().unwrap()));
                }
                continue;
            }
            busy_steps = 0;
            if pump_network(&sh) {
                continue;
            }
            // quiescent: advance the clock
            if flush_held() {
                continue;
            }
            let next_deadline = sh.inner.lock().unwrap().timers.values().map(|x| x.0).min();
            let Some(dl) = next_deadline else {
                return End::Deadlock;
            };
            if dl > horizon {
                return End::Horizon;
            }
            let mut g = sh.inner.lock().unwrap();
            if dl > g.now {
                g.now = dl;
            }
            let now = g.now;
            let due: Vec<u64> = g.timers.iter().filter(|(_, v)| v.0 <= now).map(|(k, _)| *k).collect();
            let mut wk = vec![];
            for id in due {
                if let Some(e) = g.timers.get_mut(&id) {
                    if let Some(w) = e.1.take() {
                        wk.push(w);
                    }
                }
            }
            drop(g);
            for w in wk {
                w.wake();
            }
        }
    }));
    let end = match result {
        Ok(e) => e,
        Err(p) => {
            let msg = if let Some(s) = p.downcast_ref::<String>() {
                s.clone()
            } else if let Some(s) = p.downcast_ref::<&str>() {
                s.to_string()
            } else {
                "panic".to_string()
            };
            End::Panic(msg)
        }
    };
    // tear down: drop every task, empty the static channel
    let factory = with(|w| w.factory.take());
    let dropres = std::panic::catch_unwind(std::panic::AssertUnwindSafe(|| {
        ex.tasks.clear();
        with(|w| w.local_spawned.clear());
        sh.inner.lock().unwrap().spawned.clear();
    }));
    let _ = dropres;
    if let Some(f) = &factory {
        f.verif_clear_channel();
    }
    drop(factory);
    let (delay_log, end_time, delay_count, delay_zero_count) = {
        let mut g = sh.inner.lock().unwrap();
        g.epoch = u64::MAX; // stale wakers become no-ops
        g.timers.clear();
        (std::mem::take(&mut g.delay_log), g.now, g.delay_count, g.delay_zero_count)
    };
    let w = WORLD.with(|w| w.borrow_mut().take().unwrap());
    RunOutcome {
        end,
        trace: w.chooser.trace,
        obs: w.obs,
        violations: w.violations,
        counters: w.counters,
        delay_log,
        delay_count,
        delay_zero_count,
        delivered: w.net.delivered_log,
        sent: w.net.sent_log,
        steps,
        end_time,
        worker_task: ex.first_spawned,
        stats: (w.net.stats_sent, w.net.stats_delivered, w.net.stats_in_window),
    }
}
