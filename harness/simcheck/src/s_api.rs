//! API-contract scenarios on a single participant (no network faults): every operation history up to a depth over a
//! small alphabet is executed against the real worker and every return value is compared with a reference contract
//! model. C28 writer instance management, C35 entity handles, C36 deletion preconditions, C37 QoS validation.
use crate::dds::*;
use crate::explore::Scenario;
use crate::sim::Ctx;
use dust_dds::infrastructure::qos_policy::{EntityFactoryQosPolicy, Length, ResourceLimitsQosPolicy};
use std::collections::BTreeSet;
use std::rc::Rc;
use vutil::Args;

fn err_name<T>(r: &DdsResult<T>) -> String {
    match r {
        Ok(_) => "Ok".into(),
        Err(e) => {
            // only the error kind is part of the contract, not the message
            let s = format!("{e:?}");
            s.split('(').next().unwrap_or("").to_string()
        }
    }
}

// ---------------------------------------------------------------------------------------------------------------
// C28
// ---------------------------------------------------------------------------------------------------------------
const C28_OPS: &[&str] = &["register k1", "register k2", "lookup k1", "lookup k2", "write k1", "dispose k1", "unregister k1", "dispose k2", "unregister k2", "enable"];

async fn c28_keyed(ctx: Ctx, depth: usize, autoenable: bool) {
    let f = ctx.factory("", None);
    let p = f.create_participant(0, QosKind::Default, NO_LISTENER, NO_STATUS).await.unwrap();
    let topic = p.create_topic::<KeyedData>("T", "T", QosKind::Default, NO_LISTENER, NO_STATUS).await.unwrap();
    let pq = PublisherQos { entity_factory: EntityFactoryQosPolicy { autoenable_created_entities: autoenable }, ..Default::default() };
    let publisher = p.create_publisher(QosKind::Specific(pq), NO_LISTENER, NO_STATUS).await.unwrap();
    let w = publisher.create_datawriter::<KeyedData>(&topic, QosKind::Default, NO_LISTENER, NO_STATUS).await.unwrap();
    let mut enabled = autoenable;
    let mut registered: BTreeSet<u8> = BTreeSet::new();
    let mut unregistered_earlier: BTreeSet<u8> = BTreeSet::new();
    let mut handles: [Option<InstanceHandle>; 3] = [None, None, None];
    let mut hist: Vec<&str> = vec![];
    for _ in 0..depth {
        let c = ctx.choose(b'O', C28_OPS.len());
        let op = C28_OPS[c];
        hist.push(op);
        let k: u8 = if op.ends_with("k2") { 2 } else { 1 };
        let data = sample(k, 0, 4);
        let verb = op.split(' ').next().unwrap();
        // expected
        let (got, exp): (String, String) = match verb {
            "enable" => {
                let r = w.enable().await;
                enabled = true;
                (err_name(&r), "Ok".into())
            }
            "register" => {
                let r = w.register_instance(data).await;
                let exp = if !enabled { "NotEnabled".to_string() } else { "Ok(Some)".to_string() };
                let got = match &r {
                    Ok(Some(h)) => {
                        if let Some(prev) = handles[k as usize] {
                            if prev != *h {
                                ctx.violation("register/handle-not-stable", format!("history {hist:?}: register of key {k} returned a different handle than before"));
                            }
                        }
                        if let Some(other) = handles[3 - k as usize] {
                            if other == *h {
                                ctx.violation("register/handle-collision", format!("history {hist:?}: two keys share a handle"));
                            }
                        }
                        handles[k as usize] = Some(*h);
                        "Ok(Some)".to_string()
                    }
                    Ok(None) => "Ok(None)".into(),
                    Err(e) => format!("{e:?}"),
                };
                if r.is_ok() && enabled {
                    registered.insert(k);
                }
                (got, exp)
            }
            "lookup" => {
                let r = w.lookup_instance(data).await;
                let exp = if !enabled { "NotEnabled".to_string() } else if registered.contains(&k) { "Ok(Some)".into() } else { "Ok(None)".into() };
                let got = match &r {
                    Ok(Some(h)) => {
                        if let Some(prev) = handles[k as usize] {
                            if prev != *h {
                                ctx.violation("lookup/handle-differs-from-register", format!("history {hist:?}"));
                            }
                        }
                        "Ok(Some)".to_string()
                    }
                    Ok(None) => "Ok(None)".into(),
                    Err(e) => format!("{e:?}"),
                };
                (got, exp)
            }
            "write" => {
                let r = w.write(data, None).await;
                let exp = if !enabled { "NotEnabled" } else { "Ok" };
                if r.is_ok() {
                    registered.insert(k);
                }
                (err_name(&r), exp.into())
            }
            "dispose" => {
                let r = w.dispose(data, None).await;
                let exp = if !enabled { "NotEnabled" } else if registered.contains(&k) { "Ok" } else { "BadParameter" };
                (err_name(&r), exp.into())
            }
            _ => {
                let r = w.unregister_instance(data, None).await;
                let exp = if !enabled { "NotEnabled" } else if registered.contains(&k) { "Ok" } else { "BadParameter" };
                if r.is_ok() {
                    registered.remove(&k);
                    unregistered_earlier.insert(k);
                }
                (err_name(&r), exp.into())
            }
        };
        ctx.obs(format!("{op} -> {got}"));
        if got != exp {
            let keyclass = if registered.contains(&k) { "registered" } else if unregistered_earlier.contains(&k) { "unregistered-earlier" } else { "never-registered" };
            ctx.violation(format!("keyed/{verb}/expected={exp}/got={got}/key={keyclass}/enabled={enabled}"), format!("history {hist:?}: `{op}` returned {got}, contract says {exp} (enabled={enabled}, registered={registered:?})"));
            return; // the model is out of step after a contract violation
        }
    }
}

async fn c28_keyless(ctx: Ctx, depth: usize) {
    let f = ctx.factory("", None);
    let p = f.create_participant(0, QosKind::Default, NO_LISTENER, NO_STATUS).await.unwrap();
    let topic = p.create_topic::<PlainData>("T", "T", QosKind::Default, NO_LISTENER, NO_STATUS).await.unwrap();
    let publisher = p.create_publisher(QosKind::Default, NO_LISTENER, NO_STATUS).await.unwrap();
    let w = publisher.create_datawriter::<PlainData>(&topic, QosKind::Default, NO_LISTENER, NO_STATUS).await.unwrap();
    let ops = ["register", "unregister", "dispose", "write", "lookup"];
    let mut hist = vec![];
    for _ in 0..depth {
        let op = ops[ctx.choose(b'O', ops.len())];
        hist.push(op);
        let d = PlainData { seq: 1, value: vec![1] };
        let (got, exp) = match op {
            "register" => (err_name(&w.register_instance(d).await), "IllegalOperation"),
            "unregister" => (err_name(&w.unregister_instance(d, None).await), "IllegalOperation"),
            "dispose" => (err_name(&w.dispose(d, None).await), "IllegalOperation"),
            "write" => (err_name(&w.write(d, None).await), "Ok"),
            _ => {
                // lookup on a keyless type: not an instance *operation that changes anything*; either Ok(None) or IllegalOperation is accepted
                let r = w.lookup_instance(d).await;
                let g = err_name(&r);
                (if g == "Ok" || g == "IllegalOperation" { "accepted".into() } else { g }, "accepted")
            }
        };
        ctx.obs(format!("{op} -> {got}"));
        if got != exp {
            ctx.violation(format!("keyless/{op}/expected={exp}/got={got}"), format!("history {hist:?}"));
            return;
        }
    }
}

/// the `handle` argument of write / dispose / unregister_instance (documented on the DataWriter methods): the handle of the
/// instance itself is accepted, the handle of another registered instance fails with PreconditionNotMet, a handle that no
/// instance has fails with BadParameter
async fn c28_handle_argument(ctx: Ctx) {
    let f = ctx.factory("", None);
    let p = f.create_participant(0, QosKind::Default, NO_LISTENER, NO_STATUS).await.unwrap();
    let topic = p.create_topic::<KeyedData>("T", "T", QosKind::Default, NO_LISTENER, NO_STATUS).await.unwrap();
    let publisher = p.create_publisher(QosKind::Default, NO_LISTENER, NO_STATUS).await.unwrap();
    let w = publisher.create_datawriter::<KeyedData>(&topic, QosKind::Default, NO_LISTENER, NO_STATUS).await.unwrap();
    let ha = w.register_instance(sample(1, 0, 4)).await.expect("register a").expect("handle a");
    let hb = w.register_instance(sample(2, 0, 4)).await.expect("register b").expect("handle b");
    let op = ctx.choose(b'O', 3);
    let hk = ctx.choose(b'O', 3);
    let (h, exp, hname) = match hk {
        0 => (ha, "Ok", "own"),
        1 => (hb, "PreconditionNotMet", "other-instance"),
        _ => (InstanceHandle::new([0xAB; 16]), "BadParameter", "unknown"),
    };
    let (got, oname) = match op {
        0 => (err_name(&w.write(sample(1, 1, 4), Some(h)).await), "write"),
        1 => (err_name(&w.dispose(sample(1, 1, 4), Some(h)).await), "dispose"),
        _ => (err_name(&w.unregister_instance(sample(1, 1, 4), Some(h)).await), "unregister_instance"),
    };
    ctx.obs(format!("{oname}(a, Some({hname})) -> {got}"));
    if got != exp {
        ctx.violation(format!("handle-argument/{oname}/{hname}/expected={exp}/got={got}"), format!("instances a and b registered; {oname}(sample of a, Some(<{hname} handle>)) returned {got}, documented: {exp}"));
    }
}

pub fn c28(args: &Args) -> Vec<Scenario> {
    let d = if args.thorough() { 6 } else { 5 };
    vec![
        Scenario::new(format!("C28.keyed[autoenable=true,depth={d}]"), 99, move |ctx| c28_keyed(ctx, d, true)),
        Scenario::new(format!("C28.keyed[autoenable=false,depth={d}]"), 99, move |ctx| c28_keyed(ctx, d, false)),
        Scenario::new(format!("C28.keyless[depth={}]", d + 1), 99, move |ctx| c28_keyless(ctx, d + 1)),
        Scenario::new("C28.handle-argument[]", 99, c28_handle_argument),
    ]
}

// ---------------------------------------------------------------------------------------------------------------
// C35 entity handles unique, creation never panics
// ---------------------------------------------------------------------------------------------------------------
#[derive(Clone, Copy, PartialEq, Debug)]
enum Kind {
    Publisher,
    Subscriber,
    Topic,
    Writer,
    Reader,
}

async fn c35_prog(ctx: Ctx, kind: Kind, pre: usize, depth: usize) {
    let f = ctx.factory("", None);
    let p = f.create_participant(0, QosKind::Default, NO_LISTENER, NO_STATUS).await.unwrap();
    let topic = p.create_topic::<KeyedData>("T", "T", QosKind::Default, NO_LISTENER, NO_STATUS).await.unwrap();
    let publisher = p.create_publisher(QosKind::Default, NO_LISTENER, NO_STATUS).await.unwrap();
    let subscriber = p.create_subscriber(QosKind::Default, NO_LISTENER, NO_STATUS).await.unwrap();
    enum E {
        P(PublisherAsync),
        S(SubscriberAsync),
        T(TopicAsync),
        W(DataWriterAsync<KeyedData>),
        R(DataReaderAsync<KeyedData>),
    }
    let mut live: Vec<(InstanceHandle, E)> = vec![];
    let mut counter = 0u32;
    let mut create = async |live: &mut Vec<(InstanceHandle, E)>, counter: &mut u32| -> Result<(), String> {
        *counter += 1;
        let e = match kind {
            Kind::Publisher => p.create_publisher(QosKind::Default, NO_LISTENER, NO_STATUS).await.map(|x| (x.get_instance_handle(), E::P(x))),
            Kind::Subscriber => p.create_subscriber(QosKind::Default, NO_LISTENER, NO_STATUS).await.map(|x| (x.get_instance_handle(), E::S(x))),
            Kind::Topic => p.create_topic::<KeyedData>(&format!("T{counter}"), "T", QosKind::Default, NO_LISTENER, NO_STATUS).await.map(|x| (x.get_instance_handle(), E::T(x))),
            Kind::Writer => publisher.create_datawriter::<KeyedData>(&topic, QosKind::Default, NO_LISTENER, NO_STATUS).await.map(|x| (x.get_instance_handle(), E::W(x))),
            Kind::Reader => subscriber.create_datareader::<KeyedData>(&topic, QosKind::Default, NO_LISTENER, NO_STATUS).await.map(|x| (x.get_instance_handle(), E::R(x))),
        };
        match e {
            Ok((h, e)) => {
                if live.iter().any(|(l, _)| *l == h) || h == publisher.get_instance_handle() || h == subscriber.get_instance_handle() || h == topic.get_instance_handle() {
                    return Err(format!("handle {h:?} of the new {kind:?} is already in use by a live entity"));
                }
                live.push((h, e));
                Ok(())
            }
            Err(_) => Ok(()), // an error is an acceptable answer; a panic or hang is not
        }
    };
    let delete = async |e: E| match e {
        E::P(x) => p.delete_publisher(&x).await,
        E::S(x) => p.delete_subscriber(&x).await,
        E::T(x) => p.delete_topic(&x).await,
        E::W(x) => publisher.delete_datawriter(&x).await,
        E::R(x) => subscriber.delete_datareader(&x).await,
    };
    // one long-lived entity, then advance the counter by create+delete pairs
    if let Err(m) = create(&mut live, &mut counter).await {
        ctx.violation(format!("{kind:?}/duplicate-handle"), m);
        return;
    }
    for _ in 0..pre {
        if let Err(m) = create(&mut live, &mut counter).await {
            ctx.violation(format!("{kind:?}/duplicate-handle"), format!("after {counter} creations: {m}"));
            return;
        }
        let (_, e) = live.pop().unwrap();
        let _ = delete(e).await;
    }
    for _ in 0..depth {
        match ctx.choose(b'O', 3) {
            0 => {
                if let Err(m) = create(&mut live, &mut counter).await {
                    ctx.violation(format!("{kind:?}/duplicate-handle"), format!("after {counter} creations: {m}"));
                    return;
                }
            }
            1 => {
                if live.len() > 1 {
                    let (_, e) = live.remove(1);
                    let _ = delete(e).await;
                }
            }
            _ => {
                if live.len() > 1 {
                    let (_, e) = live.pop().unwrap();
                    let _ = delete(e).await;
                }
            }
        }
    }
    // the participant still answers
    if p.get_qos().await.is_err() {
        ctx.violation(format!("{kind:?}/participant-dead"), "get_qos failed after the history");
    }
    ctx.count("entities_created", counter as u64);
}

pub fn c35(args: &Args) -> Vec<Scenario> {
    let mut v = vec![];
    let pres: Vec<usize> = if args.thorough() { vec![0, 1, 126, 127, 128, 253, 254, 255, 256, 257, 300, 511, 512, 600] } else { vec![0, 126, 253, 254, 255, 256, 300] };
    for kind in [Kind::Publisher, Kind::Subscriber, Kind::Topic, Kind::Writer, Kind::Reader] {
        let mut pres = pres.clone();
        if !matches!(kind, Kind::Publisher | Kind::Subscriber) {
            // 16-bit counters
            if args.thorough() {
                pres.extend([65_533, 65_534, 65_535, 65_536]);
            } else {
                pres.push(65_534);
            }
        }
        for &pre in &pres {
            // the long pre-histories are followed by depth-1 histories only (cost)
            let depth = if pre > 60_000 { 1 } else { 3 };
            v.push(Scenario::new(format!("C35.{kind:?}{}[pre={pre}]", if pre > 60_000 { "-16bit" } else { "" }), 99, move |ctx| c35_prog(ctx, kind, pre, depth)).cfg(|c| {
                c.step_cap = 50_000_000;
                c.keep_logs = false;
                // API-only property on a single participant: its own SEDP loop-back traffic (one datagram per created
                // entity, quadratic to process) is left queued until the executor goes idle
                c.busy_pump_steps = 0;
                c.max_datagrams = u64::MAX;
            }));
        }
    }
    v
}

// ---------------------------------------------------------------------------------------------------------------
// C36 deletion preconditions
// ---------------------------------------------------------------------------------------------------------------
const C36_OPS: &[&str] = &[
    "create writer", "create reader", "delete writer", "delete reader", "delete publisher", "delete subscriber", "delete topic",
    "delete_contained participant", "delete participant", "use writer", "use reader",
];

async fn c36_prog(ctx: Ctx, depth: usize) {
    let f = ctx.factory("", None);
    let p = f.create_participant(0, QosKind::Default, NO_LISTENER, NO_STATUS).await.unwrap();
    let topic = p.create_topic::<KeyedData>("T", "T", QosKind::Default, NO_LISTENER, NO_STATUS).await.unwrap();
    let publisher = p.create_publisher(QosKind::Default, NO_LISTENER, NO_STATUS).await.unwrap();
    let subscriber = p.create_subscriber(QosKind::Default, NO_LISTENER, NO_STATUS).await.unwrap();
    // model
    let (mut part, mut pubx, mut subx, mut top) = (true, true, true, true);
    let mut writer: Option<DataWriterAsync<KeyedData>> = None;
    let mut reader: Option<DataReaderAsync<KeyedData>> = None;
    let (mut w_alive, mut r_alive) = (false, false);
    let mut hist = vec![];
    for _ in 0..depth {
        let op = C36_OPS[ctx.choose(b'O', C36_OPS.len())];
        hist.push(op);
        let (got, exp): (String, &str) = match op {
            "create writer" => {
                let r = publisher.create_datawriter::<KeyedData>(&topic, QosKind::Default, NO_LISTENER, NO_STATUS).await;
                let exp = if !part || !pubx || !top { "AlreadyDeleted" } else { "Ok" };
                let g = err_name(&r);
                if let Ok(w) = r {
                    if !w_alive {
                        writer = Some(w);
                        w_alive = true;
                    } else {
                        // keep the model to one writer: delete the extra one again
                        let _ = publisher.delete_datawriter(&w).await;
                    }
                }
                (g, exp)
            }
            "create reader" => {
                let r = subscriber.create_datareader::<KeyedData>(&topic, QosKind::Default, NO_LISTENER, NO_STATUS).await;
                let exp = if !part || !subx || !top { "AlreadyDeleted" } else { "Ok" };
                let g = err_name(&r);
                if let Ok(x) = r {
                    if !r_alive {
                        reader = Some(x);
                        r_alive = true;
                    } else {
                        let _ = subscriber.delete_datareader(&x).await;
                    }
                }
                (g, exp)
            }
            "delete writer" => match &writer {
                None => continue,
                Some(w) => {
                    let r = publisher.delete_datawriter(w).await;
                    let exp = if !part || !pubx || !w_alive { "AlreadyDeleted" } else { "Ok" };
                    if r.is_ok() {
                        w_alive = false;
                    }
                    (err_name(&r), exp)
                }
            },
            "delete reader" => match &reader {
                None => continue,
                Some(x) => {
                    let r = subscriber.delete_datareader(x).await;
                    let exp = if !part || !subx || !r_alive { "AlreadyDeleted" } else { "Ok" };
                    if r.is_ok() {
                        r_alive = false;
                    }
                    (err_name(&r), exp)
                }
            },
            "delete publisher" => {
                let r = p.delete_publisher(&publisher).await;
                let exp = if !part || !pubx { "AlreadyDeleted" } else if w_alive { "PreconditionNotMet" } else { "Ok" };
                if r.is_ok() {
                    pubx = false;
                }
                (err_name(&r), exp)
            }
            "delete subscriber" => {
                let r = p.delete_subscriber(&subscriber).await;
                let exp = if !part || !subx { "AlreadyDeleted" } else if r_alive { "PreconditionNotMet" } else { "Ok" };
                if r.is_ok() {
                    subx = false;
                }
                (err_name(&r), exp)
            }
            "delete topic" => {
                let r = p.delete_topic(&topic).await;
                let exp = if !part || !top { "AlreadyDeleted" } else if w_alive || r_alive { "PreconditionNotMet" } else { "Ok" };
                if r.is_ok() {
                    top = false;
                }
                (err_name(&r), exp)
            }
            "delete_contained publisher" => {
                let r = publisher.delete_contained_entities().await;
                let exp = if !part || !pubx { "AlreadyDeleted" } else { "Ok" };
                if r.is_ok() {
                    w_alive = false;
                }
                (err_name(&r), exp)
            }
            "delete_contained subscriber" => {
                let r = subscriber.delete_contained_entities().await;
                let exp = if !part || !subx { "AlreadyDeleted" } else { "Ok" };
                if r.is_ok() {
                    r_alive = false;
                }
                (err_name(&r), exp)
            }
            "delete_contained participant" => {
                let r = p.delete_contained_entities().await;
                let exp = if !part { "AlreadyDeleted" } else { "Ok" };
                if r.is_ok() {
                    w_alive = false;
                    r_alive = false;
                    pubx = false;
                    subx = false;
                    top = false;
                }
                (err_name(&r), exp)
            }
            "delete participant" => {
                let r = f.delete_participant(&p).await;
                let exp = if !part { "AlreadyDeleted" } else if pubx || subx || top { "PreconditionNotMet" } else { "Ok" };
                if r.is_ok() {
                    part = false;
                }
                (err_name(&r), exp)
            }
            "use writer" => match &writer {
                None => continue,
                Some(w) => {
                    let r = w.get_qos().await;
                    let exp = if !part || !pubx || !w_alive { "AlreadyDeleted" } else { "Ok" };
                    (err_name(&r), exp)
                }
            },
            _ => match &reader {
                None => continue,
                Some(x) => {
                    let r = x.get_qos().await;
                    let exp = if !part || !subx || !r_alive { "AlreadyDeleted" } else { "Ok" };
                    (err_name(&r), exp)
                }
            },
        };
        ctx.obs(format!("{op} -> {got}"));
        if got != exp {
            ctx.violation(
                format!("{}/expected={exp}/got={got}", op.replace(' ', "-")),
                format!("history {hist:?}: `{op}` returned {got}, contract says {exp} (participant={part} publisher={pubx} subscriber={subx} topic={top} writer={w_alive} reader={r_alive})"),
            );
            return;
        }
    }
}

/// delete_contained_entities on a publisher / subscriber holding one endpoint, then delete the (now empty) parent
async fn c36_contained(ctx: Ctx, publisher_side: bool) {
    let f = ctx.factory("", None);
    let p = f.create_participant(0, QosKind::Default, NO_LISTENER, NO_STATUS).await.unwrap();
    let topic = p.create_topic::<KeyedData>("T", "T", QosKind::Default, NO_LISTENER, NO_STATUS).await.unwrap();
    if publisher_side {
        let publisher = p.create_publisher(QosKind::Default, NO_LISTENER, NO_STATUS).await.unwrap();
        let _w = publisher.create_datawriter::<KeyedData>(&topic, QosKind::Default, NO_LISTENER, NO_STATUS).await.unwrap();
        let r = publisher.delete_contained_entities().await;
        if r.is_err() {
            ctx.violation(format!("publisher/delete_contained_entities/{}", err_name(&r)), "delete_contained_entities failed");
        }
        let r = p.delete_publisher(&publisher).await;
        if r.is_err() {
            ctx.violation(format!("publisher/not-deletable-after-delete_contained/{}", err_name(&r)), "parent not deletable");
        }
    } else {
        let subscriber = p.create_subscriber(QosKind::Default, NO_LISTENER, NO_STATUS).await.unwrap();
        let _r = subscriber.create_datareader::<KeyedData>(&topic, QosKind::Default, NO_LISTENER, NO_STATUS).await.unwrap();
        let r = subscriber.delete_contained_entities().await;
        if r.is_err() {
            ctx.violation(format!("subscriber/delete_contained_entities/{}", err_name(&r)), "delete_contained_entities failed");
        }
        let r = p.delete_subscriber(&subscriber).await;
        if r.is_err() {
            ctx.violation(format!("subscriber/not-deletable-after-delete_contained/{}", err_name(&r)), "parent not deletable");
        }
    }
}

/// "Operations on deleted entities fail with AlreadyDeleted" - also when an entity of the same kind has been created since:
/// the object of the deleted entity must not start to act on the new one. (Added after seeded change C36-2, where the next
/// subscriber got the handle of the one just deleted.) `others` entities of the kind exist before A is created; `between`
/// entities are created and deleted between the deletion of A and the creation of B.
async fn c36_stale(ctx: Ctx, kind: Kind) {
    let others = ctx.choose(b'O', 2);
    let between_choices: &[usize] = if std::env::args().any(|a| a == "thorough") { &[0, 1, 2, 3] } else { &[0, 1, 2] };
    let between = between_choices[ctx.choose(b'O', between_choices.len())];
    let f = ctx.factory("", None);
    let p = f.create_participant(0, QosKind::Default, NO_LISTENER, NO_STATUS).await.unwrap();
    let topic = p.create_topic::<KeyedData>("T", "T", QosKind::Default, NO_LISTENER, NO_STATUS).await.unwrap();
    let publisher = p.create_publisher(QosKind::Default, NO_LISTENER, NO_STATUS).await.unwrap();
    let subscriber = p.create_subscriber(QosKind::Default, NO_LISTENER, NO_STATUS).await.unwrap();
    let k = format!("{kind:?}").to_lowercase();
    let cfg = format!("others={others} between={between}");
    let check = |what: &str, got: String, exp: &str| {
        ctx.obs(format!("{k} {cfg}: {what} -> {got}"));
        if got != exp {
            ctx.violation(format!("stale/{k}/{what}/expected={exp}/got={got}"), format!("{cfg}: create A, delete A, create B; `{what}` returned {got}, contract says {exp}"));
        }
    };
    match kind {
        Kind::Publisher => {
            let mut keep = vec![];
            for _ in 0..others {
                keep.push(p.create_publisher(QosKind::Default, NO_LISTENER, NO_STATUS).await.unwrap());
            }
            let a = p.create_publisher(QosKind::Default, NO_LISTENER, NO_STATUS).await.unwrap();
            p.delete_publisher(&a).await.expect("delete A");
            for _ in 0..between {
                let x = p.create_publisher(QosKind::Default, NO_LISTENER, NO_STATUS).await.unwrap();
                p.delete_publisher(&x).await.expect("delete x");
            }
            let b = p.create_publisher(QosKind::Default, NO_LISTENER, NO_STATUS).await.unwrap();
            check("A.get_qos", err_name(&a.get_qos().await), "AlreadyDeleted");
            check("A.create_datawriter", err_name(&a.create_datawriter::<KeyedData>(&topic, QosKind::Default, NO_LISTENER, NO_STATUS).await), "AlreadyDeleted");
            check("delete_publisher(A)", err_name(&p.delete_publisher(&a).await), "AlreadyDeleted");
            check("B.get_qos", err_name(&b.get_qos().await), "Ok");
            check("B.create_datawriter", err_name(&b.create_datawriter::<KeyedData>(&topic, QosKind::Default, NO_LISTENER, NO_STATUS).await), "Ok");
        }
        Kind::Subscriber => {
            let mut keep = vec![];
            for _ in 0..others {
                keep.push(p.create_subscriber(QosKind::Default, NO_LISTENER, NO_STATUS).await.unwrap());
            }
            let a = p.create_subscriber(QosKind::Default, NO_LISTENER, NO_STATUS).await.unwrap();
            p.delete_subscriber(&a).await.expect("delete A");
            for _ in 0..between {
                let x = p.create_subscriber(QosKind::Default, NO_LISTENER, NO_STATUS).await.unwrap();
                p.delete_subscriber(&x).await.expect("delete x");
            }
            let b = p.create_subscriber(QosKind::Default, NO_LISTENER, NO_STATUS).await.unwrap();
            check("A.get_qos", err_name(&a.get_qos().await), "AlreadyDeleted");
            check("A.create_datareader", err_name(&a.create_datareader::<KeyedData>(&topic, QosKind::Default, NO_LISTENER, NO_STATUS).await), "AlreadyDeleted");
            check("delete_subscriber(A)", err_name(&p.delete_subscriber(&a).await), "AlreadyDeleted");
            check("B.get_qos", err_name(&b.get_qos().await), "Ok");
            check("B.create_datareader", err_name(&b.create_datareader::<KeyedData>(&topic, QosKind::Default, NO_LISTENER, NO_STATUS).await), "Ok");
        }
        Kind::Topic => {
            let mut keep = vec![];
            for i in 0..others {
                keep.push(p.create_topic::<KeyedData>(&format!("O{i}"), "T", QosKind::Default, NO_LISTENER, NO_STATUS).await.unwrap());
            }
            let a = p.create_topic::<KeyedData>("A", "T", QosKind::Default, NO_LISTENER, NO_STATUS).await.unwrap();
            p.delete_topic(&a).await.expect("delete A");
            for i in 0..between {
                let x = p.create_topic::<KeyedData>(&format!("X{i}"), "T", QosKind::Default, NO_LISTENER, NO_STATUS).await.unwrap();
                p.delete_topic(&x).await.expect("delete x");
            }
            let b = p.create_topic::<KeyedData>("B", "T", QosKind::Default, NO_LISTENER, NO_STATUS).await.unwrap();
            check("A.get_qos", err_name(&a.get_qos().await), "AlreadyDeleted");
            check("delete_topic(A)", err_name(&p.delete_topic(&a).await), "AlreadyDeleted");
            check("B.get_qos", err_name(&b.get_qos().await), "Ok");
            check("create_datawriter(B)", err_name(&publisher.create_datawriter::<KeyedData>(&b, QosKind::Default, NO_LISTENER, NO_STATUS).await), "Ok");
        }
        Kind::Writer => {
            let mut keep = vec![];
            for _ in 0..others {
                keep.push(publisher.create_datawriter::<KeyedData>(&topic, QosKind::Default, NO_LISTENER, NO_STATUS).await.unwrap());
            }
            let a = publisher.create_datawriter::<KeyedData>(&topic, QosKind::Default, NO_LISTENER, NO_STATUS).await.unwrap();
            publisher.delete_datawriter(&a).await.expect("delete A");
            for _ in 0..between {
                let x = publisher.create_datawriter::<KeyedData>(&topic, QosKind::Default, NO_LISTENER, NO_STATUS).await.unwrap();
                publisher.delete_datawriter(&x).await.expect("delete x");
            }
            let b = publisher.create_datawriter::<KeyedData>(&topic, QosKind::Default, NO_LISTENER, NO_STATUS).await.unwrap();
            check("A.get_qos", err_name(&a.get_qos().await), "AlreadyDeleted");
            check("A.write", err_name(&a.write(sample(1, 0, 4), None).await), "AlreadyDeleted");
            check("delete_datawriter(A)", err_name(&publisher.delete_datawriter(&a).await), "AlreadyDeleted");
            check("B.get_qos", err_name(&b.get_qos().await), "Ok");
            check("B.write", err_name(&b.write(sample(1, 0, 4), None).await), "Ok");
        }
        Kind::Reader => {
            let mut keep = vec![];
            for _ in 0..others {
                keep.push(subscriber.create_datareader::<KeyedData>(&topic, QosKind::Default, NO_LISTENER, NO_STATUS).await.unwrap());
            }
            let a = subscriber.create_datareader::<KeyedData>(&topic, QosKind::Default, NO_LISTENER, NO_STATUS).await.unwrap();
            subscriber.delete_datareader(&a).await.expect("delete A");
            for _ in 0..between {
                let x = subscriber.create_datareader::<KeyedData>(&topic, QosKind::Default, NO_LISTENER, NO_STATUS).await.unwrap();
                subscriber.delete_datareader(&x).await.expect("delete x");
            }
            let b = subscriber.create_datareader::<KeyedData>(&topic, QosKind::Default, NO_LISTENER, NO_STATUS).await.unwrap();
            check("A.get_qos", err_name(&a.get_qos().await), "AlreadyDeleted");
            check("A.take", err_name(&a.take(1, ANY_SAMPLE_STATE, ANY_VIEW_STATE, ANY_INSTANCE_STATE).await), "AlreadyDeleted");
            check("delete_datareader(A)", err_name(&subscriber.delete_datareader(&a).await), "AlreadyDeleted");
            check("B.get_qos", err_name(&b.get_qos().await), "Ok");
        }
    }
}

pub fn c36(args: &Args) -> Vec<Scenario> {
    let d = if args.thorough() { 7 } else { 5 };
    vec![
        Scenario::new(format!("C36.tree[depth={d}]"), 99, move |ctx| c36_prog(ctx, d)).cfg(|c| c.keep_logs = false),
        Scenario::new("C36.stale[publisher]", 99, |ctx| c36_stale(ctx, Kind::Publisher)),
        Scenario::new("C36.stale[subscriber]", 99, |ctx| c36_stale(ctx, Kind::Subscriber)),
        Scenario::new("C36.stale[topic]", 99, |ctx| c36_stale(ctx, Kind::Topic)),
        Scenario::new("C36.stale[writer]", 99, |ctx| c36_stale(ctx, Kind::Writer)),
        Scenario::new("C36.stale[reader]", 99, |ctx| c36_stale(ctx, Kind::Reader)),
        Scenario::new("C36.contained-publisher[]", 0, |ctx| c36_contained(ctx, true)),
        Scenario::new("C36.contained-subscriber[]", 0, |ctx| c36_contained(ctx, false)),
    ]
}

// ---------------------------------------------------------------------------------------------------------------
// C37 QoS validation
// ---------------------------------------------------------------------------------------------------------------
fn lim(v: i32) -> Length {
    if v < 0 { Length::Unlimited } else { Length::Limited(v) }
}

/// (depth or -1 keep all, max_samples, max_instances, max_samples_per_instance) -> consistent?
fn consistent(depth: i32, ms: i32, mi: i32, mspi: i32) -> bool {
    // DDS 1.4 §2.2.3.19: max_samples >= max_samples_per_instance; depth <= max_samples_per_instance
    let a = ms < 0 || (mspi >= 0 && ms >= mspi);
    let b = depth < 0 || mspi < 0 || depth <= mspi;
    let c = depth != 0;
    let d = ms != 0 && mi != 0 && mspi != 0;
    a && b && c && d
}

async fn c37_prog(ctx: Ctx, reader_side: bool) {
    let f = ctx.factory("", None);
    let p = f.create_participant(0, QosKind::Default, NO_LISTENER, NO_STATUS).await.unwrap();
    let topic = p.create_topic::<KeyedData>("T", "T", QosKind::Default, NO_LISTENER, NO_STATUS).await.unwrap();
    let publisher = p.create_publisher(QosKind::Default, NO_LISTENER, NO_STATUS).await.unwrap();
    let subscriber = p.create_subscriber(QosKind::Default, NO_LISTENER, NO_STATUS).await.unwrap();
    let vals = [-1, 1, 2, 3];
    let depths = [-1, 1, 2, 3];
    // creation with every combination
    let depth = depths[ctx.choose(b'O', 4)];
    let ms = vals[ctx.choose(b'O', 4)];
    let mspi = vals[ctx.choose(b'O', 4)];
    let hist = if depth < 0 { HistoryQosPolicyKind::KeepAll } else { HistoryQosPolicyKind::KeepLast(depth as u32) };
    let rl = ResourceLimitsQosPolicy { max_samples: lim(ms), max_instances: Length::Unlimited, max_samples_per_instance: lim(mspi) };
    let ok = consistent(depth, ms, -1, mspi);
    let tag = format!("depth={depth},max_samples={ms},max_spi={mspi}");
    // then a set_qos on an enabled entity with a second value, and an immutable change
    let depth2 = depths[ctx.choose(b'O', 4)];
    let mspi2 = vals[ctx.choose(b'O', 4)];
    let change_immutable = ctx.choose(b'O', 2) == 1;
    let hist2 = if depth2 < 0 { HistoryQosPolicyKind::KeepAll } else { HistoryQosPolicyKind::KeepLast(depth2 as u32) };
    let ok2_consistent = consistent(depth2, ms, -1, mspi2);
    ctx.obs(format!("{tag} -> depth={depth2},max_spi={mspi2},immutable={change_immutable} consistent={ok}/{ok2_consistent}"));
    // history and resource limits are immutable after enable (DDS table "Changeable: NO")
    let immutable_changed = depth2 != depth || mspi2 != mspi || change_immutable;
    if reader_side {
        let q = DataReaderQos { history: HistoryQosPolicy { kind: hist }, resource_limits: rl.clone(), ..Default::default() };
        let r = subscriber.create_datareader::<KeyedData>(&topic, QosKind::Specific(q.clone()), NO_LISTENER, NO_STATUS).await;
        match (&r, ok) {
            (Ok(_), false) => ctx.violation("reader/create/inconsistent-accepted", format!("create_datareader accepted inconsistent QoS {tag}")),
            (Err(DdsError::InconsistentPolicy), false) => {}
            (Err(e), false) => ctx.violation(format!("reader/create/wrong-error/{e:?}"), tag.clone()),
            (Err(e), true) => ctx.violation(format!("reader/create/consistent-rejected/{e:?}"), format!("create_datareader rejected consistent QoS {tag}")),
            (Ok(_), true) => {}
        }
        let Ok(r) = r else { return };
        if !ok {
            return;
        }
        let got = r.get_qos().await.unwrap();
        if got != q {
            ctx.violation("reader/get_qos-differs-from-created", format!("{tag}"));
        }
        let mut q2 = q.clone();
        q2.history.kind = hist2;
        q2.resource_limits.max_samples_per_instance = lim(mspi2);
        if change_immutable {
            q2.reliability.kind = ReliabilityQosPolicyKind::Reliable;
            q2.durability.kind = DurabilityQosPolicyKind::TransientLocal;
        }
        let s = r.set_qos(QosKind::Specific(q2.clone())).await;
        let exp = if !ok2_consistent { "InconsistentPolicy" } else if immutable_changed { "ImmutablePolicy" } else { "Ok" };
        let g = err_name(&s);
        // an inconsistent AND immutable-changing value may be reported as either
        let acceptable = g == exp || (!ok2_consistent && immutable_changed && g == "ImmutablePolicy");
        if !acceptable {
            ctx.violation(format!("reader/set_qos/expected={exp}/got={g}"), format!("{tag} -> depth={depth2},max_spi={mspi2},immutable={change_immutable}"));
        }
        let after = r.get_qos().await.unwrap();
        let want = if s.is_ok() { &q2 } else { &q };
        if &after != want {
            ctx.violation(format!("reader/set_qos/not-atomic/{g}"), format!("get_qos after set_qos={g}: {tag} -> depth={depth2},max_spi={mspi2}"));
        }
    } else {
        let q = DataWriterQos { history: HistoryQosPolicy { kind: hist }, resource_limits: rl.clone(), ..Default::default() };
        let w = publisher.create_datawriter::<KeyedData>(&topic, QosKind::Specific(q.clone()), NO_LISTENER, NO_STATUS).await;
        match (&w, ok) {
            (Ok(_), false) => ctx.violation("writer/create/inconsistent-accepted", format!("create_datawriter accepted inconsistent QoS {tag}")),
            (Err(DdsError::InconsistentPolicy), false) => {}
            (Err(e), false) => ctx.violation(format!("writer/create/wrong-error/{e:?}"), tag.clone()),
            (Err(e), true) => ctx.violation(format!("writer/create/consistent-rejected/{e:?}"), format!("create_datawriter rejected consistent QoS {tag}")),
            (Ok(_), true) => {}
        }
        let Ok(w) = w else { return };
        if !ok {
            return;
        }
        let got = w.get_qos().await.unwrap();
        if got != q {
            ctx.violation("writer/get_qos-differs-from-created", format!("{tag}"));
        }
        let mut q2 = q.clone();
        q2.history.kind = hist2;
        q2.resource_limits.max_samples_per_instance = lim(mspi2);
        if change_immutable {
            q2.reliability.kind = ReliabilityQosPolicyKind::BestEffort;
            q2.durability.kind = DurabilityQosPolicyKind::TransientLocal;
        }
        let s = w.set_qos(QosKind::Specific(q2.clone())).await;
        let exp = if !ok2_consistent { "InconsistentPolicy" } else if immutable_changed { "ImmutablePolicy" } else { "Ok" };
        let g = err_name(&s);
        let acceptable = g == exp || (!ok2_consistent && immutable_changed && g == "ImmutablePolicy");
        if !acceptable {
            ctx.violation(format!("writer/set_qos/expected={exp}/got={g}"), format!("{tag} -> depth={depth2},max_spi={mspi2},immutable={change_immutable}"));
        }
        let after = w.get_qos().await.unwrap();
        let want = if s.is_ok() { &q2 } else { &q };
        if &after != want {
            ctx.violation(format!("writer/set_qos/not-atomic/{g}"), format!("get_qos after set_qos={g}: {tag} -> depth={depth2},max_spi={mspi2}"));
        }
    }
}

/// a mutable policy change (deadline / user_data) on an enabled entity is accepted, returned by get_qos and announced
async fn c37_announce(ctx: Ctx) {
    let f = ctx.factory("", None);
    let n1 = node::<KeyedData>(&f, 0, "T").await;
    let n2 = node::<KeyedData>(&f, 0, "T").await;
    let w = n1.publisher.create_datawriter::<KeyedData>(&n1.topic, QosKind::Default, NO_LISTENER, NO_STATUS).await.unwrap();
    let r = n2.subscriber.create_datareader::<KeyedData>(&n2.topic, QosKind::Default, NO_LISTENER, NO_STATUS).await.unwrap();
    if !wait_pub_matched(&ctx, &w, 1, 3000).await || !wait_sub_matched(&ctx, &r, 1, 3000).await {
        ctx.violation("announce/setup-no-match", "no match");
        return;
    }
    let which = ctx.choose(b'O', 7);
    if which >= 3 {
        // the other entities whose QoS travels in the announcements: reader, publisher, subscriber, topic
        let (name, accepted): (&str, DdsResult<()>) = match which {
            3 => {
                let mut q = r.get_qos().await.unwrap();
                q.user_data.value = vec![4, 5, 6];
                let s = r.set_qos(QosKind::Specific(q.clone())).await;
                if s.is_ok() && r.get_qos().await.unwrap() != q {
                    ctx.violation("announce/get_qos-differs/reader", "get_qos differs from the accepted QoS");
                }
                ("reader.user_data", s)
            }
            4 => {
                let mut q = n1.publisher.get_qos().await.unwrap();
                q.group_data.value = vec![7, 8];
                let s = n1.publisher.set_qos(QosKind::Specific(q.clone())).await;
                if s.is_ok() && n1.publisher.get_qos().await.unwrap() != q {
                    ctx.violation("announce/get_qos-differs/publisher", "get_qos differs from the accepted QoS");
                }
                ("publisher.group_data", s)
            }
            5 => {
                let mut q = n2.subscriber.get_qos().await.unwrap();
                q.group_data.value = vec![9];
                let s = n2.subscriber.set_qos(QosKind::Specific(q.clone())).await;
                if s.is_ok() && n2.subscriber.get_qos().await.unwrap() != q {
                    ctx.violation("announce/get_qos-differs/subscriber", "get_qos differs from the accepted QoS");
                }
                ("subscriber.group_data", s)
            }
            _ => {
                let mut q = n1.topic.get_qos().await.unwrap();
                q.topic_data.value = vec![1, 1];
                let s = n1.topic.set_qos(QosKind::Specific(q.clone())).await;
                if s.is_ok() && n1.topic.get_qos().await.unwrap() != q {
                    ctx.violation("announce/get_qos-differs/topic", "get_qos differs from the accepted QoS");
                }
                ("topic.topic_data", s)
            }
        };
        if accepted.is_err() {
            ctx.violation(format!("announce/mutable-change-rejected/{name}/{}", err_name(&accepted)), "a changeable policy was rejected on an enabled entity");
            return;
        }
        let seen = poll_until(&ctx, 20, 1500, || async {
            match which {
                3 | 5 => {
                    for h in w.get_matched_subscriptions().await.unwrap_or_default() {
                        if let Ok(d) = w.get_matched_subscription_data(h).await {
                            if (which == 3 && d.user_data().value == vec![4, 5, 6]) || (which == 5 && d.group_data().value == vec![9]) {
                                return true;
                            }
                        }
                    }
                    false
                }
                _ => {
                    for h in r.get_matched_publications().await.unwrap_or_default() {
                        if let Ok(d) = r.get_matched_publication_data(h).await {
                            if (which == 4 && d.group_data().value == vec![7, 8]) || (which == 6 && d.topic_data().value == vec![1, 1]) {
                                return true;
                            }
                        }
                    }
                    false
                }
            }
        })
        .await;
        if !seen {
            ctx.violation(format!("announce/not-announced/{name}"), format!("the accepted change of {name} never became visible in the matched endpoint data of the remote participant"));
        }
        return;
    }
    let mut q = w.get_qos().await.unwrap();
    match which {
        0 => q.user_data.value = vec![1, 2, 3],
        1 => q.ownership_strength.value = 7,
        _ => q.deadline.period = DurationKind::Finite(Duration::new(5, 0)),
    }
    let s = w.set_qos(QosKind::Specific(q.clone())).await;
    if s.is_err() {
        ctx.violation(format!("announce/mutable-change-rejected/{which}/{}", err_name(&s)), "a changeable policy was rejected on an enabled writer");
        return;
    }
    if w.get_qos().await.unwrap() != q {
        ctx.violation("announce/get_qos-differs", "get_qos differs from the accepted QoS");
    }
    let seen = poll_until(&ctx, 20, 1500, || async {
        let hs = r.get_matched_publications().await.unwrap_or_default();
        for h in hs {
            if let Ok(d) = r.get_matched_publication_data(h).await {
                let ok = match which {
                    0 => d.user_data().value == vec![1, 2, 3],
                    1 => d.ownership_strength().value == 7,
                    _ => d.deadline().period == DurationKind::Finite(Duration::new(5, 0)),
                };
                if ok {
                    return true;
                }
            }
        }
        false
    })
    .await;
    if !seen {
        ctx.violation(format!("announce/not-announced/{which}"), "the accepted QoS change never became visible in the remote reader's matched publication data");
    }
}

/// One policy at a time: every policy of DataReaderQos / DataWriterQos is changed alone, on an entity that is not yet enabled
/// (everything consistent is accepted), and on an enabled one (the DDS "Changeable" column decides); after every set_qos,
/// get_qos must return the accepted value or the previous one. Then the same change is tried again after enable().
async fn c37_policies(ctx: Ctx, reader_side: bool) {
    let f = ctx.factory("", None);
    let p = f.create_participant(0, QosKind::Default, NO_LISTENER, NO_STATUS).await.unwrap();
    let topic = p.create_topic::<KeyedData>("T", "T", QosKind::Default, NO_LISTENER, NO_STATUS).await.unwrap();
    let enabled_at_creation = ctx.choose(b'O', 2) == 0;
    let factory = EntityFactoryQosPolicy { autoenable_created_entities: enabled_at_creation };
    let fin = |s: i32| DurationKind::Finite(Duration::new(s, 0));
    // (name, changeable on an enabled entity, consistent)
    let side = if reader_side { "reader" } else { "writer" };
    macro_rules! run {
        ($ent:expr, $q0:expr, $changes:expr) => {{
            let changes = $changes;
            let k = ctx.choose(b'O', changes.len());
            let (name, changeable, consistent, apply) = &changes[k];
            let ent = $ent;
            let q0 = $q0;
            if ent.get_qos().await.unwrap() != q0 {
                ctx.violation(format!("{side}/policies/get_qos-differs-from-created"), "default");
            }
            for round in 0..2 {
                // round 0: as created (enabled or not); round 1: after enable()
                let enabled = enabled_at_creation || round == 1;
                let before = ent.get_qos().await.unwrap();
                let mut q = before.clone();
                apply(&mut q, round);
                let changed = q != before;
                let r = ent.set_qos(QosKind::Specific(q.clone())).await;
                let exp = if !*consistent { "InconsistentPolicy" } else if enabled && !*changeable && changed { "ImmutablePolicy" } else { "Ok" };
                let g = err_name(&r);
                if g != exp {
                    ctx.violation(format!("{side}/policies/{name}/enabled={enabled}/expected={exp}/got={g}"), format!("set_qos changing only `{name}` on a {side} that is {}enabled", if enabled { "" } else { "not " }));
                }
                let after = ent.get_qos().await.unwrap();
                let want = if r.is_ok() { &q } else { &before };
                if &after != want {
                    ctx.violation(format!("{side}/policies/{name}/enabled={enabled}/not-atomic/{g}"), format!("get_qos after set_qos -> {g} returns neither the accepted nor the previous QoS"));
                }
                if round == 0 {
                    if let Err(e) = ent.enable().await {
                        ctx.violation(format!("{side}/policies/enable-failed/{e:?}"), "enable()");
                        return;
                    }
                    if ent.get_qos().await.unwrap() != after {
                        ctx.violation(format!("{side}/policies/{name}/qos-changed-by-enable"), "get_qos differs before/after enable()");
                    }
                }
            }
        }};
    }
    if reader_side {
        let subscriber = p.create_subscriber(QosKind::Specific(SubscriberQos { entity_factory: factory, ..Default::default() }), NO_LISTENER, NO_STATUS).await.unwrap();
        let q0 = DataReaderQos::default();
        let r = subscriber.create_datareader::<KeyedData>(&topic, QosKind::Specific(q0.clone()), NO_LISTENER, NO_STATUS).await.unwrap();
        type A = Box<dyn Fn(&mut DataReaderQos, usize)>;
        let changes: Vec<(&str, bool, bool, A)> = vec![
            ("durability", false, true, Box::new(|q, _| q.durability.kind = DurabilityQosPolicyKind::TransientLocal)),
            ("liveliness.kind", false, true, Box::new(|q, _| q.liveliness.kind = LivelinessQosPolicyKind::ManualByTopic)),
            ("liveliness.lease_duration", false, true, Box::new(move |q, _| q.liveliness.lease_duration = fin(7))),
            ("reliability.kind", false, true, Box::new(|q, _| q.reliability.kind = if q.reliability.kind == ReliabilityQosPolicyKind::Reliable { ReliabilityQosPolicyKind::BestEffort } else { ReliabilityQosPolicyKind::Reliable })),
            ("reliability.max_blocking_time", false, true, Box::new(move |q, _| q.reliability.max_blocking_time = fin(3))),
            ("destination_order", false, true, Box::new(|q, _| q.destination_order.kind = DestinationOrderQosPolicyKind::BySourceTimestamp)),
            ("history.depth", false, true, Box::new(|q, _| q.history.kind = HistoryQosPolicyKind::KeepLast(2))),
            ("history.kind", false, true, Box::new(|q, _| q.history.kind = HistoryQosPolicyKind::KeepAll)),
            ("resource_limits.max_samples", false, true, Box::new(|q, _| { q.resource_limits.max_samples = Length::Limited(50); q.resource_limits.max_samples_per_instance = Length::Limited(50); })),
            ("inconsistent:max_samples<unlimited-per-instance", false, false, Box::new(|q, _| q.resource_limits.max_samples = Length::Limited(50))),
            ("resource_limits.max_instances", false, true, Box::new(|q, _| q.resource_limits.max_instances = Length::Limited(5))),
            ("ownership", false, true, Box::new(|q, _| q.ownership.kind = OwnershipQosPolicyKind::Exclusive)),
            ("deadline", true, true, Box::new(move |q, round| q.deadline.period = fin(5 + round as i32))),
            ("latency_budget", true, true, Box::new(move |q, round| q.latency_budget.duration = fin(1 + round as i32))),
            ("user_data", true, true, Box::new(|q, round| q.user_data.value = vec![1, 2, round as u8])),
            ("time_based_filter", true, true, Box::new(move |q, round| q.time_based_filter.minimum_separation = fin(1 + round as i32))),
            ("reader_data_lifecycle", true, true, Box::new(move |q, round| q.reader_data_lifecycle.autopurge_disposed_samples_delay = fin(9 + round as i32))),
            ("inconsistent:deadline<time_based_filter", true, false, Box::new(move |q, _| { q.deadline.period = fin(1); q.time_based_filter.minimum_separation = fin(2); })),
            ("inconsistent:max_samples<max_samples_per_instance", false, false, Box::new(|q, _| { q.resource_limits.max_samples = Length::Limited(1); q.resource_limits.max_samples_per_instance = Length::Limited(2); })),
            ("inconsistent:depth>max_samples_per_instance", false, false, Box::new(|q, _| { q.history.kind = HistoryQosPolicyKind::KeepLast(3); q.resource_limits.max_samples_per_instance = Length::Limited(2); })),
        ];
        run!(r, q0, changes);
    } else {
        let publisher = p.create_publisher(QosKind::Specific(PublisherQos { entity_factory: factory, ..Default::default() }), NO_LISTENER, NO_STATUS).await.unwrap();
        let q0 = DataWriterQos::default();
        let w = publisher.create_datawriter::<KeyedData>(&topic, QosKind::Specific(q0.clone()), NO_LISTENER, NO_STATUS).await.unwrap();
        type A = Box<dyn Fn(&mut DataWriterQos, usize)>;
        let changes: Vec<(&str, bool, bool, A)> = vec![
            ("durability", false, true, Box::new(|q, _| q.durability.kind = DurabilityQosPolicyKind::TransientLocal)),
            ("liveliness.kind", false, true, Box::new(|q, _| q.liveliness.kind = LivelinessQosPolicyKind::ManualByTopic)),
            ("liveliness.lease_duration", false, true, Box::new(move |q, _| q.liveliness.lease_duration = fin(7))),
            ("reliability.kind", false, true, Box::new(|q, _| q.reliability.kind = if q.reliability.kind == ReliabilityQosPolicyKind::Reliable { ReliabilityQosPolicyKind::BestEffort } else { ReliabilityQosPolicyKind::Reliable })),
            ("reliability.max_blocking_time", false, true, Box::new(move |q, _| q.reliability.max_blocking_time = fin(3))),
            ("destination_order", false, true, Box::new(|q, _| q.destination_order.kind = DestinationOrderQosPolicyKind::BySourceTimestamp)),
            ("history.depth", false, true, Box::new(|q, _| q.history.kind = HistoryQosPolicyKind::KeepLast(2))),
            ("history.kind", false, true, Box::new(|q, _| q.history.kind = HistoryQosPolicyKind::KeepAll)),
            ("resource_limits.max_samples", false, true, Box::new(|q, _| { q.resource_limits.max_samples = Length::Limited(50); q.resource_limits.max_samples_per_instance = Length::Limited(50); })),
            ("inconsistent:max_samples<unlimited-per-instance", false, false, Box::new(|q, _| q.resource_limits.max_samples = Length::Limited(50))),
            ("resource_limits.max_instances", false, true, Box::new(|q, _| q.resource_limits.max_instances = Length::Limited(5))),
            ("ownership", false, true, Box::new(|q, _| q.ownership.kind = OwnershipQosPolicyKind::Exclusive)),
            ("deadline", true, true, Box::new(move |q, round| q.deadline.period = fin(5 + round as i32))),
            ("latency_budget", true, true, Box::new(move |q, round| q.latency_budget.duration = fin(1 + round as i32))),
            ("user_data", true, true, Box::new(|q, round| q.user_data.value = vec![1, 2, round as u8])),
            ("lifespan", true, true, Box::new(move |q, round| q.lifespan.duration = fin(20 + round as i32))),
            ("ownership_strength", true, true, Box::new(|q, round| q.ownership_strength.value = 3 + round as i32)),
            ("transport_priority", true, true, Box::new(|q, round| q.transport_priority.value = 2 + round as i32)),
            ("writer_data_lifecycle", true, true, Box::new(|q, round| q.writer_data_lifecycle.autodispose_unregistered_instances = round == 1)),
            ("inconsistent:max_samples<max_samples_per_instance", false, false, Box::new(|q, _| { q.resource_limits.max_samples = Length::Limited(1); q.resource_limits.max_samples_per_instance = Length::Limited(2); })),
            ("inconsistent:depth>max_samples_per_instance", false, false, Box::new(|q, _| { q.history.kind = HistoryQosPolicyKind::KeepLast(3); q.resource_limits.max_samples_per_instance = Length::Limited(2); })),
        ];
        run!(w, q0, changes);
    }
}

pub fn c37(_args: &Args) -> Vec<Scenario> {
    vec![
        Scenario::new("C37.policies[reader]", 99, |ctx| c37_policies(ctx, true)).cfg(|c| c.keep_logs = false),
        Scenario::new("C37.policies[writer]", 99, |ctx| c37_policies(ctx, false)).cfg(|c| c.keep_logs = false),
        Scenario::new("C37.reader[create+set]", 99, |ctx| c37_prog(ctx, true)).cfg(|c| c.keep_logs = false),
        Scenario::new("C37.writer[create+set]", 99, |ctx| c37_prog(ctx, false)).cfg(|c| c.keep_logs = false),
        Scenario::new("C37.announce[writer]", 99, c37_announce),
    ]
}

#[allow(dead_code)]
fn _unused(_: Rc<()>) {}
