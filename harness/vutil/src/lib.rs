//! Shared helpers of the harness binaries: argument parsing and the result file protocol of /verif/lib/vcommon.py.
use serde_json::{json, Map, Value};
use std::collections::BTreeSet;

pub use serde_json;

#[derive(Debug, Clone)]
pub struct Args {
    pub id: String,
    pub tier: String,
    pub seed: u64,
    pub shard: usize,
    pub nshards: usize,
    pub out: Option<String>,
    pub replay: Option<String>,
    pub rest: Vec<String>,
}

impl Args {
    pub fn parse() -> Self {
        let mut it = std::env::args().skip(1);
        let mut a = Args {
            id: String::new(),
            tier: "quick".into(),
            seed: 0,
            shard: 0,
            nshards: 1,
            out: None,
            replay: None,
            rest: vec![],
        };
        while let Some(x) = it.next() {
            match x.as_str() {
                "--tier" => a.tier = it.next().expect("--tier value"),
                "--seed" => a.seed = it.next().expect("--seed value").parse().unwrap_or(0),
                "--shard" => {
                    let v = it.next().expect("--shard i/n");
                    let (i, n) = v.split_once('/').expect("--shard i/n");
                    a.shard = i.parse().unwrap();
                    a.nshards = n.parse().unwrap();
                }
                "--out" => a.out = it.next(),
                "--replay" => a.replay = it.next(),
                _ if a.id.is_empty() => a.id = x,
                _ => a.rest.push(x),
            }
        }
        a
    }
    pub fn thorough(&self) -> bool {
        self.tier == "thorough"
    }
    /// true if work item `i` belongs to this shard
    pub fn mine(&self, i: usize) -> bool {
        i % self.nshards == self.shard
    }
}

/// FNV-1a 64
pub fn fnv(bytes: &[u8]) -> u64 {
    let mut h: u64 = 0xcbf29ce484222325;
    for b in bytes {
        h ^= *b as u64;
        h = h.wrapping_mul(0x100000001b3);
    }
    h
}

pub fn hex(bytes: &[u8]) -> String {
    let mut s = String::with_capacity(bytes.len() * 2);
    for b in bytes {
        s.push_str(&format!("{:02x}", b));
    }
    s
}

pub fn unhex(s: &str) -> Vec<u8> {
    (0..s.len() / 2).map(|i| u8::from_str_radix(&s[2 * i..2 * i + 2], 16).unwrap()).collect()
}

#[derive(Default)]
pub struct Report {
    pub evaluations: u64,
    pub states: u64,
    pub transitions: u64,
    pub distinct: BTreeSet<String>,
    pub samples: Vec<Value>,
    pub findings: Vec<Value>,
    finding_sigs: BTreeSet<String>,
    pub extra: Map<String, Value>,
    pub exhaustive: bool,
    pub machinery_error: Option<String>,
    pub notes: Vec<String>,
}

impl Report {
    pub fn new() -> Self {
        Report { exhaustive: true, ..Default::default() }
    }
    pub fn distinct(&mut self, key: impl Into<String>) {
        let k = key.into();
        if self.distinct.len() < 2_000_000 {
            self.distinct.insert(k);
        }
    }
    pub fn sample(&mut self, v: Value) {
        if self.samples.len() < 6 {
            self.samples.push(v);
        }
    }
    /// Record a violation; only the first occurrence of each signature is kept (the enumeration order is
    /// simplest-first, so the first one is also the smallest).
    pub fn finding(&mut self, sig: impl Into<String>, detail: impl Into<String>, replay: Value) {
        let sig = sig.into();
        let n = self.extra.entry("finding_occurrences").or_insert(json!({}));
        let c = n.get(&sig).and_then(|v| v.as_u64()).unwrap_or(0);
        n[&sig] = json!(c + 1);
        if self.finding_sigs.insert(sig.clone()) {
            self.findings.push(json!({"sig": sig, "detail": detail.into(), "replay": replay}));
        }
    }
    pub fn add(&mut self, key: &str, n: u64) {
        let c = self.extra.get(key).and_then(|v| v.as_u64()).unwrap_or(0);
        self.extra.insert(key.into(), json!(c + n));
    }
    pub fn set(&mut self, key: &str, v: Value) {
        self.extra.insert(key.into(), v);
    }
    pub fn max(&mut self, key: &str, n: u64) {
        let c = self.extra.get(key).and_then(|v| v.as_u64()).unwrap_or(0);
        self.extra.insert(key.into(), json!(c.max(n)));
    }
    pub fn note(&mut self, s: impl Into<String>) {
        if self.notes.len() < 50 {
            self.notes.push(s.into());
        }
    }
    pub fn to_json(&self) -> Value {
        json!({
            "evaluations": self.evaluations,
            "states": self.states,
            "transitions": self.transitions,
            "distinct": self.distinct.iter().collect::<Vec<_>>(),
            "samples": self.samples,
            "findings": self.findings,
            "extra": self.extra,
            "exhaustive": self.exhaustive,
            "machinery_error": self.machinery_error,
            "notes": self.notes,
        })
    }
    pub fn write(&self, args: &Args) {
        let s = serde_json::to_string(&self.to_json()).unwrap();
        match &args.out {
            Some(p) => std::fs::write(p, s).expect("write result file"),
            None => println!("{}", s),
        }
    }
}

pub fn read_replay(path: &str) -> Value {
    let s = std::fs::read_to_string(path).expect("replay file");
    let v: Value = serde_json::from_str(&s).expect("replay json");
    v.get("replay").cloned().unwrap_or(v)
}
