//! E2 histcheck: explicit-state breadth-first search over the real reader history cache
//! (`UserDefinedDataReader` = `DataReaderEntity` + next-instance composition), one-step conformance against the
//! reference model in model.rs from every reachable state.
mod model;
mod real;

use model::*;
use std::collections::HashSet;
use std::hash::{Hash, Hasher};

/// 128-bit fingerprint of a state (two SipHash passes with different salts). A collision could only merge two
/// states (hide behaviour), never raise an alarm; at 10^7 states the collision probability is below 10^-24.
fn fingerprint(s: &Snap, g: &Ghost) -> u128 {
    let mut h1 = std::collections::hash_map::DefaultHasher::new();
    0x51u8.hash(&mut h1);
    s.hash(&mut h1);
    g.hash(&mut h1);
    let mut h2 = std::collections::hash_map::DefaultHasher::new();
    0xa7u8.hash(&mut h2);
    g.hash(&mut h2);
    s.hash(&mut h2);
    ((h1.finish() as u128) << 64) | h2.finish() as u128
}
use vutil::serde_json::{json, Value};
use vutil::{Args, Report};

struct Group {
    cfg: Cfg,
    expand: Vec<Op>,
    probe: Vec<Op>,
    depth: usize,
    split: usize,
}

fn adds(ws: &[u8], insts: &[u8], kinds: &[u8], tss: &[i32]) -> Vec<Op> {
    let mut v = vec![];
    for &w in ws {
        for &inst in insts {
            for &kind in kinds {
                for &ts in tss {
                    v.push(Op::Add { w, inst, kind, ts });
                }
            }
        }
    }
    v
}

fn reads(takes: &[bool], maxs: &[i32], sms: &[u8], vms: &[u8], ims: &[u8], insts: &[u8]) -> Vec<Op> {
    let mut v = vec![];
    for &take in takes {
        for &max in maxs {
            for &sm in sms {
                for &vm in vms {
                    for &im in ims {
                        for &inst in insts {
                            v.push(Op::Read { take, max, sm, vm, im, inst });
                        }
                    }
                }
            }
        }
    }
    v
}

fn nexts(takes: &[bool], maxs: &[i32], sms: &[u8], vms: &[u8], ims: &[u8], prevs: &[u8]) -> Vec<Op> {
    let mut v = vec![];
    for &take in takes {
        for &max in maxs {
            for &sm in sms {
                for &vm in vms {
                    for &im in ims {
                        for &prev in prevs {
                            v.push(Op::Next { take, max, sm, vm, im, prev });
                        }
                    }
                }
            }
        }
    }
    v
}

fn cfg(name: &str) -> Cfg {
    Cfg { name: name.into(), depth: -1, max_samples: -1, max_instances: -1, max_spi: -1, by_source: false, exclusive: false, min_sep: 0, strengths: vec![0, 0] }
}

const ANY: u8 = 0xff;

fn groups(id: &str, thorough: bool) -> Vec<Group> {
    let d = |q: usize, t: usize| if thorough { t } else { q };
    let basic_reads = || {
        let mut v = reads(&[false, true], &[-1], &[0], &[0], &[0], &[ANY]);
        v.extend(reads(&[true], &[1], &[0], &[0], &[0], &[ANY]));
        v
    };
    let mut g = vec![];
    match id {
        "C18" => {
            for (depth, lim) in [(1, "none"), (1, "spi=depth"), (2, "none"), (2, "spi=depth"), (2, "max=depth"), (2, "spi=depth+1"), (3, "spi=depth"), (-1, "none"), (-1, "spi=2")] {
                let mut c = cfg(&format!("C18[depth={depth},{lim}]"));
                c.depth = depth;
                match lim {
                    "spi=depth" => c.max_spi = depth,
                    "max=depth" => c.max_samples = depth,
                    "spi=depth+1" => c.max_spi = depth + 1,
                    "spi=2" => c.max_spi = 2,
                    _ => {}
                }
                g.push(Group { cfg: c, expand: { let mut v = adds(&[0, 1], &[0, 1], &[0, 1], &[1]); v.extend(basic_reads()); v }, probe: reads(&[false], &[-1], &[1], &[0], &[0], &[0, 1]), depth: d(7, 8), split: 4 });
            }
        }
        "C19" => {
            for (ms, mi, mspi, depth) in [(1, -1, -1, -1), (2, -1, -1, -1), (-1, 1, -1, -1), (-1, 2, -1, -1), (-1, -1, 1, -1), (-1, -1, 2, -1), (2, 2, 1, -1), (3, 2, 2, -1), (2, -1, 2, 2), (3, 2, 2, 1), (2, 1, 2, 2)] {
                let mut c = cfg(&format!("C19[max_samples={ms},max_instances={mi},max_spi={mspi},depth={depth}]"));
                c.max_samples = ms;
                c.max_instances = mi;
                c.max_spi = mspi;
                c.depth = depth;
                g.push(Group { cfg: c, expand: { let mut v = adds(&[0], &[0, 1, 2], &[0, 1, 2], &[1]); v.extend(basic_reads()); v }, probe: vec![], depth: d(7, 9), split: 3 });
            }
        }
        "C20" => {
            for (name, depth) in [("keepall", -1), ("keeplast2", 2)] {
                let mut c = cfg(&format!("C20[{name}]"));
                c.depth = depth;
                let mut expand = adds(&[0, 1], &[0, 1], &[0, 1, 2], &[1]);
                expand.extend(reads(&[false, true], &[-1, 1], &[0, 1], &[0], &[0], &[ANY]));
                expand.extend(reads(&[true], &[-1], &[0], &[0], &[0], &[0]));
                let probe = reads(&[false, true], &[-1, 1, 2, 0], &[0, 1, 2], &[0, 1, 2], &[0, 1, 2, 3], &[ANY, 0, 1, 2]);
                g.push(Group { cfg: c, expand, probe, depth: d(5, 7), split: 16 });
            }
        }
        "C21" => {
            for (name, depth, ws) in [("keepall,1w", -1, vec![0u8]), ("keepall,2w", -1, vec![0, 1]), ("keeplast2", 2, vec![0]), ("keeplast1", 1, vec![0, 1])] {
                let mut c = cfg(&format!("C21[{name}]"));
                c.depth = depth;
                c.by_source = true;
                let mut expand = adds(&ws, &[0, 1], &[0], &[1, 2, 3]);
                expand.extend(adds(&ws[..1], &[0], &[1], &[2]));
                expand.extend(reads(&[true], &[1], &[0], &[0], &[0], &[ANY]));
                g.push(Group { cfg: c, expand, probe: reads(&[false], &[-1], &[0], &[0], &[0], &[ANY, 0, 1]), depth: d(6, 8), split: 6 });
            }
            let mut c = cfg("C21[by-reception]");
            c.by_source = false;
            g.push(Group { cfg: c, expand: adds(&[0, 1], &[0, 1], &[0], &[1, 2, 3]), probe: reads(&[false], &[-1], &[0], &[0], &[0], &[ANY]), depth: d(4, 6), split: 1 });
        }
        "C22" => {
            for (name, depth) in [("keepall", -1), ("keeplast1", 1)] {
                let mut c = cfg(&format!("C22[{name}]"));
                c.depth = depth;
                let mut expand = adds(&[0, 1], &[0, 1], &[0, 1, 2, 3], &[1]);
                expand.extend(reads(&[false, true], &[-1], &[0], &[0], &[0], &[ANY]));
                expand.extend(reads(&[true], &[-1], &[0], &[0], &[0], &[0]));
                let probe = reads(&[false], &[-1], &[0, 1], &[0, 1, 2], &[0, 1, 2], &[ANY, 0]);
                g.push(Group { cfg: c, expand, probe, depth: d(5, 7), split: 16 });
            }
        }
        "C23" => {
            let mut c = cfg("C23[3 instances]");
            c.depth = -1;
            let mut expand = adds(&[0], &[0, 1, 2], &[0, 1], &[1]);
            expand.extend(reads(&[false, true], &[-1], &[0], &[0], &[0], &[0, 1, 2]));
            expand.extend(nexts(&[true], &[-1], &[0], &[0], &[0], &[ANY, 0]));
            let probe = nexts(&[false, true], &[-1, 1], &[0, 1, 2], &[0, 1, 2], &[0, 1, 2], &[ANY, 0, 1, 2, 3]);
            g.push(Group { cfg: c, expand, probe, depth: d(6, 8), split: 16 });
        }
        "C24" => {
            for (name, strengths, excl) in [("1<2", vec![1, 2], true), ("tie", vec![2, 2], true), ("1<2<=2", vec![1, 2, 2], true), ("shared", vec![1, 2], false)] {
                let mut c = cfg(&format!("C24[{name}]"));
                c.exclusive = excl;
                c.strengths = strengths.clone();
                let ws: Vec<u8> = (0..strengths.len() as u8).collect();
                let mut expand = adds(&ws, &[0, 1], &[0, 1, 2], &[1]);
                expand.extend(reads(&[true], &[-1], &[0], &[0], &[0], &[ANY]));
                g.push(Group { cfg: c, expand, probe: reads(&[false], &[-1], &[0], &[0], &[0], &[ANY, 0]), depth: d(6, 7), split: if strengths.len() > 2 { 12 } else { 8 } });
            }
        }
        "C25" => {
            for (sep, by_source) in [(0, false), (1, false), (2, false), (2, true), (3, true)] {
                let mut c = cfg(&format!("C25[sep={sep},by_source={by_source}]"));
                c.min_sep = sep;
                c.by_source = by_source;
                let mut expand = adds(&[0, 1], &[0], &[0], &[1, 2, 3, 4, 5]);
                expand.extend(adds(&[0], &[1], &[0], &[1, 3]));
                expand.extend(adds(&[0], &[0], &[1], &[3]));
                expand.extend(reads(&[true], &[-1, 1], &[0], &[0], &[0], &[ANY]));
                g.push(Group { cfg: c, expand, probe: reads(&[false], &[-1], &[0], &[0], &[0], &[ANY]), depth: d(5, 7), split: 8 });
            }
        }
        _ => {}
    }
    g
}

fn rebuild(cfg: &Cfg, hist: &[Op]) -> (real::Real, Ghost) {
    let mut r = real::build(cfg);
    let mut g = Ghost::default();
    for op in hist {
        let out = real::apply(&mut r, op);
        g = ghost_after(&g, op, &out);
    }
    (r, g)
}

fn op_json(op: &Op) -> Value {
    json!(format!("{op:?}"))
}

fn outcome_class(op: &Op, out: &Outcome) -> String {
    let o = match op {
        Op::Add { kind, .. } => format!("Add{kind}"),
        Op::Read { take, .. } => format!("Read{}", *take as u8),
        Op::Next { take, .. } => format!("Next{}", *take as u8),
    };
    let r = match out {
        Outcome::Samples(v) => format!("Samples({})", v.len()),
        Outcome::AddErr(_) => "AddErr".into(),
        x => format!("{x:?}"),
    };
    format!("{o}/{r}")
}

fn check_step(cfg: &Cfg, pre: &Snap, ghost: &Ghost, op: &Op, out: &Outcome, post: &Snap, f: &mut Findings) {
    match op {
        Op::Add { .. } => spec_add(cfg, pre, ghost, op, out, post, f),
        _ => spec_read(cfg, pre, op, out, post, f),
    }
}

fn run_group(args: &Args, rep: &mut Report, g: &Group, sub: usize) {
    let id = args.id.as_str();
    let mut seen: HashSet<u128> = HashSet::new();
    let mut frontier: Vec<Vec<Op>> = vec![vec![]];
    seen.insert(fingerprint(&Snap::default(), &Ghost::default()));
    let all: Vec<(Op, bool)> = g.expand.iter().map(|o| (*o, true)).chain(g.probe.iter().map(|o| (*o, false))).collect();
    for depth in 0..g.depth {
        let mut next: Vec<Vec<Op>> = vec![];
        for (hi, h) in frontier.iter().enumerate() {
            // sub-sharding on the states at depth 1
            if depth == 0 && sub != 0 && g.split > 1 {
                // sub-shards other than 0 do not evaluate from the empty state, but need its successors
            }
            if depth == 1 && g.split > 1 && hi % g.split != sub {
                continue;
            }
            let evaluate = !(depth == 0 && sub != 0);
            let (mut r, mut ghost) = rebuild(&g.cfg, h);
            let mut pre = real::snapshot(&r);
            let mut clean = true;
            for (op, expand) in &all {
                if !clean {
                    let x = rebuild(&g.cfg, h);
                    r = x.0;
                    ghost = x.1;
                    pre = real::snapshot(&r);
                }
                let out = real::apply(&mut r, op);
                let post = real::snapshot(&r);
                clean = post == pre && !matches!(out, Outcome::Panic(_));
                if evaluate {
                    rep.transitions += 1;
                    rep.evaluations += 1;
                    let mut f = vec![];
                    check_step(&g.cfg, &pre, &ghost, op, &out, &post, &mut f);
                    rep.distinct(outcome_class(op, &out));
                    for (sig, detail) in f {
                        // the generation counts a read reports for the samples of older generations are part of the
                        // instance life cycle as well (seeded change C22-2): C22 reports that clause of the SampleInfo
                        // comparison under its own name
                        let sig = if id == "C22" && sig == "C20/sample-info/generation_counts" { "C22/sample-info/generation_counts".to_string() } else { sig };
                        if sig.starts_with(id) || sig.starts_with("ANY/") {
                            let mut ops: Vec<Value> = h.iter().map(op_json).collect();
                            ops.push(op_json(op));
                            rep.finding(sig, detail, json!({"cfg": g.cfg.name, "ops": ops}));
                        } else {
                            rep.add("other_property_findings_seen", 1);
                        }
                    }
                }
                if *expand {
                    let g2 = ghost_after(&ghost, op, &out);
                    if seen.insert(fingerprint(&post, &g2)) {
                        let mut h2 = h.clone();
                        h2.push(*op);
                        if depth + 1 == g.depth && rep.samples.len() < 3 && next.len() % 1000 == 7 {
                            rep.sample(json!({"cfg": g.cfg.name, "history": h2.iter().map(op_json).collect::<Vec<_>>(), "state": format!("{post:?}")}));
                        }
                        next.push(h2);
                    }
                }
            }
        }
        frontier = next;
        rep.max("max_depth", (depth + 1) as u64);
        if frontier.is_empty() {
            break;
        }
    }
    rep.states += seen.len() as u64;
    rep.add("frontier_states_at_depth_bound", frontier.len() as u64);
}

fn parse_op(s: &str) -> Op {
    // format produced by {:?}: Add { w: 0, inst: 0, kind: 0, ts: 1 } etc.
    let nums: Vec<i64> = {
        let mut v = vec![];
        let mut cur = String::new();
        for ch in s.chars().chain(" ".chars()) {
            if ch.is_ascii_digit() || (ch == '-' && cur.is_empty()) {
                cur.push(ch);
            } else {
                if !cur.is_empty() && cur != "-" {
                    v.push(cur.parse().unwrap());
                }
                cur.clear();
            }
        }
        v
    };
    let take = s.contains("take: true");
    if s.starts_with("Add") {
        Op::Add { w: nums[0] as u8, inst: nums[1] as u8, kind: nums[2] as u8, ts: nums[3] as i32 }
    } else if s.starts_with("Read") {
        Op::Read { take, max: nums[0] as i32, sm: nums[1] as u8, vm: nums[2] as u8, im: nums[3] as u8, inst: nums[4] as u8 }
    } else {
        Op::Next { take, max: nums[0] as i32, sm: nums[1] as u8, vm: nums[2] as u8, im: nums[3] as u8, prev: nums[4] as u8 }
    }
}

fn replay(args: &Args, v: &Value) -> bool {
    let name = v["cfg"].as_str().unwrap_or("");
    let gs = groups(&args.id, true);
    let Some(g) = gs.iter().find(|g| g.cfg.name == name) else {
        eprintln!("cfg {name} not found");
        std::process::exit(2)
    };
    let ops: Vec<Op> = v["ops"].as_array().unwrap().iter().map(|x| parse_op(x.as_str().unwrap())).collect();
    let mut r = real::build(&g.cfg);
    let mut ghost = Ghost::default();
    let mut ok = true;
    for op in &ops {
        let pre = real::snapshot(&r);
        let out = real::apply(&mut r, op);
        let post = real::snapshot(&r);
        let mut f = vec![];
        check_step(&g.cfg, &pre, &ghost, op, &out, &post, &mut f);
        println!("{op:?} -> {out:?}\n    state {post:?}");
        for (sig, _) in &f {
            if sig.starts_with(args.id.as_str()) || sig.starts_with("ANY/") {
                println!("    VIOLATION {sig}");
                ok = false;
            } else {
                println!("    (other property: {sig})");
            }
        }
        ghost = ghost_after(&ghost, op, &out);
    }
    ok
}

fn main() {
    std::panic::set_hook(Box::new(|_| {}));
    let args = Args::parse();
    let mut rep = Report::new();
    if let Some(path) = &args.replay {
        let v = vutil::read_replay(path);
        std::process::exit(if replay(&args, &v) { 0 } else { 1 });
    }
    let gs = groups(&args.id, args.thorough());
    if gs.is_empty() {
        rep.machinery_error = Some(format!("histcheck: unknown check {}", args.id));
        rep.write(&args);
        return;
    }
    let mut unit = 0usize;
    let mut meta = vec![];
    for g in &gs {
        for sub in 0..g.split {
            if args.mine(unit) {
                let (s0, t0) = (rep.states, rep.transitions);
                let st = std::time::Instant::now();
                run_group(&args, &mut rep, g, sub);
                meta.push(json!({"group": g.cfg.name, "sub": sub, "depth": g.depth, "states": rep.states - s0, "transitions": rep.transitions - t0,
                    "alphabet": g.expand.len() + g.probe.len(), "ms": st.elapsed().as_millis() as u64}));
            }
            unit += 1;
        }
    }
    rep.set("groups", json!(meta));
    rep.write(&args);
}
