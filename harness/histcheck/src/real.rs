//! Driver of the real `UserDefinedDataReader` / `DataReaderEntity` (through the cfg(dust_dds_verif) re-exports).
use crate::model::*;
use dust_dds::{
    infrastructure::{
        error::DdsError,
        instance::InstanceHandle,
        qos::{DataReaderQos, DataWriterQos, PublisherQos},
        qos_policy::*,
        sample_info::{InstanceStateKind, SampleStateKind, ViewStateKind},
        status::SampleRejectedStatusKind,
        time::{Duration, DurationKind, Time},
    },
    rtps::stateful_reader::RtpsStatefulReader,
    transport::types::{ChangeKind, EntityId, Guid, ReliabilityKind},
    verif_hooks::{
        dcps_domain_participant::{data_reader_entity::AddChangeResult, user_defined_data_reader::UserDefinedDataReader},
        publication_builtin_topic_data,
        status_mask::StatusMask,
    },
};
use std::sync::Arc;

pub fn inst_handle(i: u8) -> [u8; 16] {
    let mut h = [0u8; 16];
    h[0] = 0x10 + i;
    h[15] = i;
    h
}
pub fn inst_of(h: &InstanceHandle) -> u8 {
    let b: [u8; 16] = (*h).into();
    b[15]
}
pub fn writer_guid(w: u8) -> Guid {
    Guid::new([w + 1; 12], EntityId::new([0, 0, w + 1], 0x02))
}
pub fn writer_of(g: &[u8; 16]) -> u8 {
    g[0] - 1
}

fn len(v: i32) -> Length {
    if v < 0 { Length::Unlimited } else { Length::Limited(v) }
}

pub struct Real {
    pub r: UserDefinedDataReader,
    pub step: i32,
}

pub fn build(cfg: &Cfg) -> Real {
    let qos = DataReaderQos {
        history: HistoryQosPolicy { kind: if cfg.depth < 0 { HistoryQosPolicyKind::KeepAll } else { HistoryQosPolicyKind::KeepLast(cfg.depth as u32) } },
        resource_limits: ResourceLimitsQosPolicy {
            max_samples: len(cfg.max_samples),
            max_instances: len(cfg.max_instances),
            max_samples_per_instance: len(cfg.max_spi),
        },
        destination_order: DestinationOrderQosPolicy {
            kind: if cfg.by_source { DestinationOrderQosPolicyKind::BySourceTimestamp } else { DestinationOrderQosPolicyKind::ByReceptionTimestamp },
        },
        ownership: OwnershipQosPolicy { kind: if cfg.exclusive { OwnershipQosPolicyKind::Exclusive } else { OwnershipQosPolicyKind::Shared } },
        time_based_filter: TimeBasedFilterQosPolicy {
            minimum_separation: DurationKind::Finite(Duration::new(cfg.min_sep, 0)),
        },
        ..Default::default()
    };
    let guid = Guid::new([9; 12], EntityId::new([0, 0, 9], 0x07));
    let mut r = UserDefinedDataReader::new(
        InstanceHandle::new(guid.into()),
        qos,
        "T".to_string(),
        None,
        StatusMask::default(),
        RtpsStatefulReader::new(guid, ReliabilityKind::Reliable),
    );
    r.enabled = true;
    for (w, s) in cfg.strengths.iter().enumerate() {
        let wq = DataWriterQos {
            ownership: OwnershipQosPolicy { kind: if cfg.exclusive { OwnershipQosPolicyKind::Exclusive } else { OwnershipQosPolicyKind::Shared } },
            ownership_strength: OwnershipStrengthQosPolicy { value: *s },
            ..Default::default()
        };
        let p = publication_builtin_topic_data(writer_guid(w as u8).into(), [w as u8 + 1; 16], "T", "T", &wq, &PublisherQos::default());
        r.add_matched_publication(p);
    }
    Real { r, step: 0 }
}

pub fn kind_of(k: u8) -> ChangeKind {
    match k {
        0 => ChangeKind::Alive,
        1 => ChangeKind::NotAliveDisposed,
        2 => ChangeKind::NotAliveUnregistered,
        _ => ChangeKind::NotAliveDisposedUnregistered,
    }
}
fn kind_ix(k: ChangeKind) -> u8 {
    match k {
        ChangeKind::Alive | ChangeKind::AliveFiltered => 0,
        ChangeKind::NotAliveDisposed => 1,
        ChangeKind::NotAliveUnregistered => 2,
        ChangeKind::NotAliveDisposedUnregistered => 3,
    }
}

pub fn payload(w: u8, i: u8, k: u8, ts: i32) -> Vec<u8> {
    vec![0xAB, w, i, k, ts as u8]
}

fn ss(m: u8) -> Vec<SampleStateKind> {
    match m {
        0 => vec![SampleStateKind::Read, SampleStateKind::NotRead],
        1 => vec![SampleStateKind::NotRead],
        _ => vec![SampleStateKind::Read],
    }
}
fn vs(m: u8) -> Vec<ViewStateKind> {
    match m {
        0 => vec![ViewStateKind::New, ViewStateKind::NotNew],
        1 => vec![ViewStateKind::New],
        _ => vec![ViewStateKind::NotNew],
    }
}
fn is(m: u8) -> Vec<InstanceStateKind> {
    match m {
        0 => vec![InstanceStateKind::Alive, InstanceStateKind::NotAliveDisposed, InstanceStateKind::NotAliveNoWriters],
        1 => vec![InstanceStateKind::Alive],
        2 => vec![InstanceStateKind::NotAliveDisposed, InstanceStateKind::NotAliveNoWriters],
        _ => vec![InstanceStateKind::NotAliveDisposed],
    }
}

pub fn snapshot(real: &Real) -> Snap {
    let r = &real.r;
    let samples = r
        .sample_list
        .iter()
        .map(|s| Smp {
            kind: kind_ix(s.kind),
            w: writer_of(&s.writer_guid),
            inst: inst_of(&s.instance_handle),
            ts: s.source_timestamp.map(|t| t.sec()).unwrap_or(-1),
            read: s.sample_state == SampleStateKind::Read,
            dgc: s.disposed_generation_count,
            nwgc: s.no_writers_generation_count,
            payload_ok: s.data_value.as_ref() == payload(writer_of(&s.writer_guid), inst_of(&s.instance_handle), kind_ix(s.kind), s.source_timestamp.map(|t| t.sec()).unwrap_or(-1)).as_slice(),
        })
        .collect();
    let mut insts: Vec<Inst> = r
        .instances
        .iter()
        .map(|i| {
            let (v, st, d, n) = i.verif_fields();
            Inst {
                inst: inst_of(i.handle()),
                view_new: v == ViewStateKind::New,
                state: match st {
                    InstanceStateKind::Alive => 0,
                    InstanceStateKind::NotAliveDisposed => 1,
                    InstanceStateKind::NotAliveNoWriters => 2,
                },
                dgc: d,
                nwgc: n,
            }
        })
        .collect();
    insts.sort();
    let mut owners: Vec<(u8, u8)> = r.instance_ownership.iter().map(|o| (inst_of(&o.instance_handle), writer_of(&o.owner_handle))).collect();
    owners.sort();
    Snap { samples, insts, owners }
}

pub fn apply(real: &mut Real, op: &Op) -> Outcome {
    real.step += 1;
    let res = std::panic::catch_unwind(std::panic::AssertUnwindSafe(|| match *op {
        Op::Add { w, inst, kind, ts } => {
            let r = real.r.add_reader_change(
                writer_guid(w),
                Arc::from(payload(w, inst, kind, ts)),
                kind_of(kind),
                inst_handle(inst),
                if ts < 0 { None } else { Some(Time::new(ts, 0)) },
                Time::new(1000 + real.step, 0),
            );
            match r {
                Ok(AddChangeResult::Added) => Outcome::Added,
                Ok(AddChangeResult::NotAdded) => Outcome::NotAdded,
                Ok(AddChangeResult::Rejected(h, k)) => Outcome::Rejected(
                    inst_of(&h),
                    match k {
                        SampleRejectedStatusKind::RejectedBySamplesLimit => 0,
                        SampleRejectedStatusKind::RejectedByInstancesLimit => 1,
                        SampleRejectedStatusKind::RejectedBySamplesPerInstanceLimit => 2,
                        SampleRejectedStatusKind::NotRejected => 9,
                    },
                ),
                Err(e) => Outcome::AddErr(format!("{e:?}")),
            }
        }
        Op::Read { take, max, sm, vm, im, inst } => {
            let h = match inst {
                0xff => None,
                i => Some(InstanceHandle::new(inst_handle(i))),
            };
            let r = if take { real.r.take(max, &ss(sm), &vs(vm), &is(im), &h) } else { real.r.read(max, &ss(sm), &vs(vm), &is(im), &h) };
            conv(r)
        }
        Op::Next { take, max, sm, vm, im, prev } => {
            let h = match prev {
                0xff => None,
                i => Some(InstanceHandle::new(inst_handle(i))),
            };
            let r = if take {
                real.r.take_next_instance(max, &h, &ss(sm), &vs(vm), &is(im))
            } else {
                real.r.read_next_instance(max, &h, &ss(sm), &vs(vm), &is(im))
            };
            conv(r)
        }
    }));
    match res {
        Ok(o) => o,
        Err(p) => Outcome::Panic(p.downcast_ref::<String>().cloned().or_else(|| p.downcast_ref::<&str>().map(|s| s.to_string())).unwrap_or_default()),
    }
}

fn conv(r: Result<Vec<(Arc<[u8]>, dust_dds::infrastructure::sample_info::SampleInfo)>, DdsError>) -> Outcome {
    match r {
        Ok(v) => Outcome::Samples(
            v.into_iter()
                .map(|(d, i)| Ret {
                    payload: d.to_vec(),
                    read: i.sample_state == SampleStateKind::Read,
                    view_new: i.view_state == ViewStateKind::New,
                    state: match i.instance_state {
                        InstanceStateKind::Alive => 0,
                        InstanceStateKind::NotAliveDisposed => 1,
                        InstanceStateKind::NotAliveNoWriters => 2,
                    },
                    dgc: i.disposed_generation_count,
                    nwgc: i.no_writers_generation_count,
                    sample_rank: i.sample_rank,
                    generation_rank: i.generation_rank,
                    abs_generation_rank: i.absolute_generation_rank,
                    ts: i.source_timestamp.map(|t| t.sec()).unwrap_or(-1),
                    inst: inst_of(&i.instance_handle),
                    w: {
                        let b: [u8; 16] = i.publication_handle.into();
                        writer_of(&b)
                    },
                    valid: i.valid_data,
                })
                .collect(),
        ),
        Err(DdsError::NoData) => Outcome::NoData,
        Err(DdsError::BadParameter) => Outcome::BadParameter,
        Err(e) => Outcome::OtherErr(format!("{e:?}")),
    }
}
