//! Reference model of the DDS reader history cache (DDS 1.4 §2.2.2.5, §2.2.3 HISTORY / RESOURCE_LIMITS /
//! DESTINATION_ORDER / OWNERSHIP / TIME_BASED_FILTER). It is a *one-step* specification: given the canonical
//! snapshot of the real object before an operation (plus ghost variables the real object does not keep), it says what
//! the operation must return and what the snapshot must be afterwards. The search re-synchronises on the real
//! state after every step, so a listed known finding cannot make model and implementation drift apart.
use std::collections::BTreeMap;

#[derive(Clone, Debug, PartialEq, Eq, PartialOrd, Ord, Hash)]
pub struct Smp {
    pub kind: u8, // 0 alive, 1 disposed, 2 unregistered, 3 disposed+unregistered
    pub w: u8,
    pub inst: u8,
    pub ts: i32, // -1 = none
    pub read: bool,
    pub dgc: i32,
    pub nwgc: i32,
    pub payload_ok: bool,
}

#[derive(Clone, Debug, PartialEq, Eq, PartialOrd, Ord, Hash)]
pub struct Inst {
    pub inst: u8,
    pub view_new: bool,
    pub state: u8, // 0 alive, 1 disposed, 2 no writers
    pub dgc: i32,
    pub nwgc: i32,
}

#[derive(Clone, Debug, PartialEq, Eq, PartialOrd, Ord, Hash, Default)]
pub struct Snap {
    pub samples: Vec<Smp>,
    pub insts: Vec<Inst>,
    pub owners: Vec<(u8, u8)>,
}

/// Ghost variables: facts about the history that the specification needs and the snapshot does not contain.
#[derive(Clone, Debug, PartialEq, Eq, PartialOrd, Ord, Hash, Default)]
pub struct Ghost {
    /// per instance: bitmask of writers that have written it and not unregistered it
    pub live: BTreeMap<u8, u8>,
    /// per instance: source timestamps of data samples accepted so far (presented or presentable)
    pub accepted: BTreeMap<u8, Vec<i32>>,
    /// per instance: source timestamps of accepted dispose/unregister changes (the standard does not say whether
    /// they count for the time-based filter, so closeness to one of them leaves the verdict unconstrained)
    pub accepted_state_changes: BTreeMap<u8, Vec<i32>>,
}

#[derive(Clone, Debug)]
pub struct Cfg {
    pub name: String,
    pub depth: i32, // -1 = KEEP_ALL
    pub max_samples: i32,
    pub max_instances: i32,
    pub max_spi: i32,
    pub by_source: bool,
    pub exclusive: bool,
    pub min_sep: i32,
    pub strengths: Vec<i32>,
}

#[derive(Clone, Copy, Debug, PartialEq, Eq, PartialOrd, Ord, Hash)]
pub enum Op {
    Add { w: u8, inst: u8, kind: u8, ts: i32 },
    Read { take: bool, max: i32, sm: u8, vm: u8, im: u8, inst: u8 }, // inst 0xff = none
    Next { take: bool, max: i32, sm: u8, vm: u8, im: u8, prev: u8 }, // prev 0xff = none
}

#[derive(Clone, Debug, PartialEq, Eq)]
pub struct Ret {
    pub payload: Vec<u8>,
    pub read: bool,
    pub view_new: bool,
    pub state: u8,
    pub dgc: i32,
    pub nwgc: i32,
    pub sample_rank: i32,
    pub generation_rank: i32,
    pub abs_generation_rank: i32,
    pub ts: i32,
    pub inst: u8,
    pub w: u8,
    pub valid: bool,
}

#[derive(Clone, Debug, PartialEq, Eq)]
pub enum Outcome {
    Added,
    NotAdded,
    Rejected(u8, u8), // instance, reason 0 samples 1 instances 2 samples-per-instance
    AddErr(String),
    Samples(Vec<Ret>),
    NoData,
    BadParameter,
    OtherErr(String),
    Panic(String),
}

pub type Findings = Vec<(String, String)>;

fn kname(k: u8) -> &'static str {
    ["write", "dispose", "unregister", "dispose+unregister"][k as usize & 3]
}
fn sname(s: u8) -> &'static str {
    ["ALIVE", "DISPOSED", "NO_WRITERS"][s as usize % 3]
}

pub fn per_inst(s: &Snap, i: u8) -> Vec<Smp> {
    s.samples.iter().filter(|x| x.inst == i).cloned().collect()
}

fn sm_ok(m: u8, read: bool) -> bool {
    match m {
        0 => true,
        1 => !read,
        _ => read,
    }
}
fn vm_ok(m: u8, new: bool) -> bool {
    match m {
        0 => true,
        1 => new,
        _ => !new,
    }
}
fn im_ok(m: u8, st: u8) -> bool {
    match m {
        0 => true,
        1 => st == 0,
        2 => st != 0,
        _ => st == 1,
    }
}

/// ghost update after an Add, driven by what really happened (Added or not)
pub fn ghost_after(g: &Ghost, op: &Op, out: &Outcome) -> Ghost {
    let mut g = g.clone();
    if let Op::Add { w, inst, kind, ts } = *op {
        if *out == Outcome::Added {
            let l = g.live.entry(inst).or_insert(0);
            match kind {
                0 => *l |= 1 << w,
                2 | 3 => *l &= !(1 << w),
                _ => {}
            }
            if ts >= 0 {
                let a = if kind == 0 { g.accepted.entry(inst).or_default() } else { g.accepted_state_changes.entry(inst).or_default() };
                if !a.contains(&ts) {
                    a.push(ts);
                    a.sort();
                }
            }
        }
    }
    g
}

// -------------------------------------------------------------------------------------------------------------
// Add
// -------------------------------------------------------------------------------------------------------------
pub fn spec_add(cfg: &Cfg, pre: &Snap, ghost: &Ghost, op: &Op, out: &Outcome, post: &Snap, f: &mut Findings) {
    let Op::Add { w, inst, kind, ts } = *op else { return };
    let ctx = |s: &str| format!("{s}; cfg={} op={op:?} real={out:?}\n pre={pre:?}\n post={post:?}\n ghost={ghost:?}", cfg.name);
    let pre_inst = pre.insts.iter().find(|x| x.inst == inst);

    // A. state change for an instance the reader has never seen
    if pre_inst.is_none() && kind != 0 {
        if !matches!(out, Outcome::AddErr(_) | Outcome::NotAdded) {
            f.push(("C22/unknown-instance-state-change-stored".into(), ctx("a dispose/unregister of an instance the reader never received was stored")));
        }
        if post != pre {
            f.push(("C22/unknown-instance-state-change-changed-cache".into(), ctx("cache changed by a state change of an unknown instance")));
        }
        return;
    }

    // B. exclusive ownership
    if cfg.exclusive {
        let owner = pre.owners.iter().find(|o| o.0 == inst).map(|o| o.1);
        if let Some(o) = owner {
            if o != w && cfg.strengths[w as usize] <= cfg.strengths[o as usize] {
                // a non-owner that is not stronger than the owner must not affect the instance at all
                if *out != Outcome::NotAdded {
                    f.push((format!("C24/non-owner-sample-accepted/{}", kname(kind)), ctx("sample of a writer weaker than (or tying with) the current owner was not discarded")));
                }
                if pre.insts != post.insts {
                    f.push((format!("C24/non-owner-changed-instance-state/{}", kname(kind)), ctx("a discarded non-owner change modified the instance state / view state / generation counts")));
                }
                if pre.samples != post.samples {
                    f.push(("C24/non-owner-changed-samples".into(), ctx("a discarded non-owner change modified the stored samples")));
                }
                if pre.owners != post.owners {
                    f.push(("C24/non-owner-changed-owner".into(), ctx("a discarded non-owner change modified the ownership table")));
                }
                return;
            }
        }
    }

    // C. time-based filter (data samples only; state changes are left unconstrained)
    let mut filtered_allowed = false;
    if cfg.min_sep > 0 && ts >= 0 {
        let acc = ghost.accepted.get(&inst).cloned().unwrap_or_default();
        let close = acc.iter().any(|t| (ts - t).abs() < cfg.min_sep);
        let close_state_change = ghost.accepted_state_changes.get(&inst).map(|v| v.iter().any(|t| (ts - t).abs() < cfg.min_sep)).unwrap_or(false);
        if kind == 0 {
            if close {
                if *out == Outcome::Added {
                    let which = if acc.iter().any(|t| *t <= ts && ts - t < cfg.min_sep) {
                        if pre.samples.iter().any(|s| s.inst == inst && s.ts <= ts && ts - s.ts < cfg.min_sep) { "stored-earlier" } else { "taken-earlier" }
                    } else {
                        "later-accepted"
                    };
                    f.push((format!("C25/too-close-sample-accepted/{which}"), ctx("a sample closer than minimum_separation to an already accepted sample of the instance was accepted")));
                } else if *out == Outcome::NotAdded {
                    // (whether a filtered sample may still revive the instance is not constrained by the property)
                    if pre.samples != post.samples {
                        f.push(("C25/filtered-sample-changed-samples".into(), ctx("a time-filtered sample changed the stored samples")));
                    }
                    return;
                }
                // Rejected: fall through to the limit rules
                filtered_allowed = true;
            } else if *out == Outcome::NotAdded {
                if !close_state_change {
                    f.push(("C25/separated-sample-filtered".into(), ctx("a sample at least minimum_separation away from every accepted sample was filtered")));
                }
                return;
            }
        } else {
            filtered_allowed = true;
            if *out == Outcome::NotAdded {
                return; // unconstrained
            }
        }
    } else if *out == Outcome::NotAdded {
        f.push(("C18/sample-dropped-without-reason".into(), ctx("NotAdded although neither ownership nor the time-based filter applies")));
        return;
    }
    let _ = filtered_allowed;

    // D. KEEP_LAST replacement, then resource limits
    let inst_samples = per_inst(pre, inst);
    let n_alive = inst_samples.iter().filter(|s| s.kind == 0).count() as i32;
    let replace = cfg.depth >= 0 && n_alive == cfg.depth && cfg.depth > 0;
    let total_after = pre.samples.len() as i32 - replace as i32;
    let inst_after = inst_samples.len() as i32 - replace as i32;
    let mut stored_instances: Vec<u8> = pre.samples.iter().map(|s| s.inst).collect();
    stored_instances.sort();
    stored_instances.dedup();
    let mut hits = vec![];
    if cfg.max_samples >= 0 && total_after >= cfg.max_samples {
        hits.push(0u8);
    }
    if cfg.max_instances >= 0 && !stored_instances.contains(&inst) && stored_instances.len() as i32 >= cfg.max_instances {
        hits.push(1);
    }
    if cfg.max_spi >= 0 && inst_after >= cfg.max_spi {
        hits.push(2);
    }
    match out {
        Outcome::Rejected(i, reason) => {
            if hits.is_empty() {
                let why = if replace { "keep-last-would-replace" } else { "no-limit-reached" };
                let p = if replace { "C18" } else { "C19" };
                f.push((format!("{p}/rejected-although-room/{why}/reason={reason}"), ctx("sample rejected although storing it (after KEEP_LAST replacement) exceeds no limit")));
            } else if !hits.contains(reason) {
                f.push((format!("C19/wrong-rejection-reason/got={reason}/reached={hits:?}"), ctx("rejection reason names a limit that is not reached")));
            }
            if *i != inst {
                f.push(("C19/rejection-wrong-instance".into(), ctx("rejection reports another instance handle")));
            }
            if pre.samples != post.samples {
                f.push(("C19/rejected-sample-changed-samples".into(), ctx("a rejected sample changed the stored samples")));
            }
            // (whether a rejected change may still move the instance state is not constrained by the property)
            return;
        }
        Outcome::Added => {
            if !hits.is_empty() {
                f.push((format!("C19/stored-beyond-limit/reached={hits:?}/{}", kname(kind)), ctx("sample stored although a resource limit was reached")));
            }
        }
        Outcome::Panic(m) => {
            f.push((format!("ANY/panic/{}", m.chars().take(60).collect::<String>()), ctx("panic in add_reader_change")));
            return;
        }
        o => {
            f.push((format!("ANY/unexpected-add-result/{o:?}"), ctx("unexpected result")));
            return;
        }
    }

    // E. accepted: expected post state
    // life cycle
    let live_pre = ghost.live.get(&inst).copied().unwrap_or(0);
    let mut live = live_pre;
    let mut e = match pre_inst {
        Some(i) => i.clone(),
        None => Inst { inst, view_new: true, state: 0, dgc: 0, nwgc: 0 },
    };
    match kind {
        0 => {
            live |= 1 << w;
            if e.state == 1 {
                e.dgc += 1;
                e.view_new = true;
            } else if e.state == 2 {
                e.nwgc += 1;
                e.view_new = true;
            }
            e.state = 0;
        }
        1 => {
            if e.state == 0 {
                e.state = 1;
            }
        }
        2 => {
            live &= !(1 << w);
            if e.state == 0 && live == 0 {
                e.state = 2;
            }
        }
        _ => {
            live &= !(1 << w);
            if e.state == 0 {
                e.state = 1;
            }
        }
    }
    match post.insts.iter().find(|x| x.inst == inst) {
        None => f.push(("C22/instance-record-missing".into(), ctx("instance record missing after an accepted change"))),
        Some(r) => {
            let pst = pre_inst.map(|p| p.state).unwrap_or(9);
            if r.state != e.state {
                let livedesc = if kind == 2 { if live == 0 { "/last-writer" } else { "/other-writer-still-live" } } else { "" };
                f.push((
                    format!("C22/instance-state/{}{}/pre={}/real={}/spec={}", kname(kind), livedesc, if pst == 9 { "none" } else { sname(pst) }, sname(r.state), sname(e.state)),
                    ctx("instance state after the change differs from the DDS life cycle"),
                ));
            }
            if r.view_new != e.view_new {
                f.push((
                    format!("C22/view-state/{}/pre={}/pre_view={}/real={}/spec={}", kname(kind), if pst == 9 { "none" } else { sname(pst) },
                        pre_inst.map(|p| if p.view_new { "NEW" } else { "NOT_NEW" }).unwrap_or("none"), if r.view_new { "NEW" } else { "NOT_NEW" }, if e.view_new { "NEW" } else { "NOT_NEW" }),
                    ctx("view state after the change differs from the DDS life cycle (NEW exactly on first appearance or rebirth)"),
                ));
            }
            if (r.dgc, r.nwgc) != (e.dgc, e.nwgc) {
                f.push((
                    format!("C22/generation-counts/{}/pre={}", kname(kind), if pst == 9 { "none" } else { sname(pst) }),
                    ctx(&format!("generation counts real=({},{}) spec=({},{})", r.dgc, r.nwgc, e.dgc, e.nwgc)),
                ));
            }
        }
    }
    for pi in &pre.insts {
        if pi.inst != inst && post.insts.iter().find(|x| x.inst == pi.inst) != Some(pi) {
            f.push(("C22/other-instance-record-changed".into(), ctx("a change of one instance modified the record of another instance")));
        }
    }
    // samples of the instance
    let mut exp = inst_samples.clone();
    if replace {
        if let Some(p) = exp.iter().position(|s| s.kind == 0) {
            exp.remove(p);
        }
    }
    let new = Smp { kind, w, inst, ts, read: false, dgc: e.dgc, nwgc: e.nwgc, payload_ok: true };
    let pos = if cfg.by_source { exp.iter().rposition(|s| s.ts <= ts).map(|p| p + 1).unwrap_or(0) } else { exp.len() };
    exp.insert(pos, new.clone());
    let got = per_inst(post, inst);
    if got != exp {
        // classify
        let mut g2 = got.clone();
        let mut e2 = exp.clone();
        g2.sort();
        e2.sort();
        if g2 == e2 {
            let p = if cfg.by_source { "C21" } else { "C18" };
            let where_ = if cfg.by_source {
                if exp.last() == Some(&new) { "newest-timestamp" } else if exp.first() == Some(&new) { "oldest-timestamp" } else { "middle-timestamp" }
            } else {
                "reception"
            };
            f.push((format!("{p}/sample-order/{where_}"), ctx(&format!("per-instance order differs: got {:?} expected {:?}", got.iter().map(|s| s.ts).collect::<Vec<_>>(), exp.iter().map(|s| s.ts).collect::<Vec<_>>()))));
        } else if got.len() != exp.len() {
            f.push((format!("C18/history-content/len-real={}-spec={}/depth={}", got.len(), exp.len(), cfg.depth), ctx(&format!("stored samples of the instance differ: got {got:?} expected {exp:?}"))));
        } else {
            // same length, different content: which field?
            let gi = got.iter().find(|s| !exp.contains(s));
            let what = match gi {
                Some(s) if s.kind == new.kind && s.w == new.w && s.ts == new.ts && (s.dgc, s.nwgc) != (new.dgc, new.nwgc) => "C22/sample-generation-counts".to_string(),
                Some(s) if !s.payload_ok => "C20/stored-payload-corrupt".to_string(),
                Some(s) if s.read => "C20/new-sample-not-NOT_READ".to_string(),
                _ => format!("C18/history-content/replaced-wrong-sample/depth={}", cfg.depth),
            };
            f.push((what, ctx(&format!("stored samples of the instance differ: got {got:?} expected {exp:?}"))));
        }
    }
    // other instances' samples untouched
    let mut others: Vec<u8> = pre.samples.iter().chain(post.samples.iter()).map(|s| s.inst).filter(|i| *i != inst).collect();
    others.sort();
    others.dedup();
    for o in others {
        if per_inst(pre, o) != per_inst(post, o) {
            f.push(("C18/other-instance-samples-changed".into(), ctx("storing a sample changed the samples of another instance")));
        }
    }
    // ownership table (exclusive only)
    if cfg.exclusive {
        let ow = post.owners.iter().find(|o| o.0 == inst).map(|o| o.1);
        let exp_owner = if kind == 0 || kind == 1 { Some(w) } else { None };
        // (a dispose is not an unregister: the owner stays the owner - property C24 lets ownership pass on unregister,
        // deletion or a missed deadline only)
        if ow != exp_owner {
            f.push((format!("C24/owner-after-{}/real={:?}/spec={:?}", kname(kind), ow, exp_owner), ctx("ownership table after an accepted change by the (new) owner")));
        }
    }
    // global invariants
    invariants(cfg, post, f, &ctx("post-state invariant"));
}

pub fn invariants(cfg: &Cfg, s: &Snap, f: &mut Findings, ctx: &str) {
    if cfg.max_samples >= 0 && s.samples.len() as i32 > cfg.max_samples {
        f.push(("C19/holds-more-than-max_samples".into(), ctx.to_string()));
    }
    let mut ids: Vec<u8> = s.samples.iter().map(|x| x.inst).collect();
    ids.sort();
    ids.dedup();
    if cfg.max_instances >= 0 && ids.len() as i32 > cfg.max_instances {
        f.push(("C19/holds-more-than-max_instances".into(), ctx.to_string()));
    }
    for i in &ids {
        let n = s.samples.iter().filter(|x| x.inst == *i).count() as i32;
        if cfg.max_spi >= 0 && n > cfg.max_spi {
            f.push(("C19/holds-more-than-max_samples_per_instance".into(), ctx.to_string()));
        }
        let na = s.samples.iter().filter(|x| x.inst == *i && x.kind == 0).count() as i32;
        if cfg.depth > 0 && na > cfg.depth {
            f.push(("C18/holds-more-than-depth".into(), ctx.to_string()));
        }
        if cfg.by_source {
            let ts: Vec<i32> = s.samples.iter().filter(|x| x.inst == *i).map(|x| x.ts).collect();
            if ts.windows(2).any(|w| w[0] > w[1]) {
                f.push(("C21/stored-order-not-by-source-timestamp".into(), format!("instance {i} stored timestamps {ts:?}; {ctx}")));
            }
        }
    }
}

// -------------------------------------------------------------------------------------------------------------
// read / take
// -------------------------------------------------------------------------------------------------------------
pub struct Expected {
    pub rets: Vec<Ret>,
    pub post: Snap,
}

pub fn select(pre: &Snap, take: bool, max: i32, sm: u8, vm: u8, im: u8, inst: Option<u8>) -> Expected {
    let mut chosen: Vec<usize> = vec![];
    for (k, s) in pre.samples.iter().enumerate() {
        if max >= 0 && chosen.len() as i32 == max {
            break;
        }
        if let Some(i) = inst {
            if s.inst != i {
                continue;
            }
        }
        let Some(ir) = pre.insts.iter().find(|x| x.inst == s.inst) else { continue };
        if sm_ok(sm, s.read) && vm_ok(vm, ir.view_new) && im_ok(im, ir.state) {
            chosen.push(k);
        }
    }
    let mut rets = vec![];
    for (pos, &k) in chosen.iter().enumerate() {
        let s = &pre.samples[k];
        let ir = pre.insts.iter().find(|x| x.inst == s.inst).unwrap();
        let later_same: Vec<&Smp> = chosen[pos + 1..].iter().map(|&j| &pre.samples[j]).filter(|x| x.inst == s.inst).collect();
        let mrsic = later_same.last().copied().unwrap_or(s);
        rets.push(Ret {
            payload: crate::real::payload(s.w, s.inst, s.kind, s.ts),
            read: s.read,
            view_new: ir.view_new,
            state: ir.state,
            dgc: s.dgc,
            nwgc: s.nwgc,
            sample_rank: later_same.len() as i32,
            generation_rank: (mrsic.dgc + mrsic.nwgc) - (s.dgc + s.nwgc),
            abs_generation_rank: (ir.dgc + ir.nwgc) - (s.dgc + s.nwgc),
            ts: s.ts,
            inst: s.inst,
            w: s.w,
            valid: s.kind == 0,
        });
    }
    let mut post = pre.clone();
    let touched: Vec<u8> = chosen.iter().map(|&k| pre.samples[k].inst).collect();
    if take {
        let mut k = 0;
        post.samples.retain(|_| {
            let keep = !chosen.contains(&k);
            k += 1;
            keep
        });
    } else {
        for &k in &chosen {
            post.samples[k].read = true;
        }
    }
    for i in post.insts.iter_mut() {
        if touched.contains(&i.inst) {
            i.view_new = false;
        }
    }
    Expected { rets, post }
}

pub fn compare_read(label: &str, cfg: &Cfg, pre: &Snap, op: &Op, exp_none_is_bad_param: bool, e: &Expected, out: &Outcome, post: &Snap, f: &mut Findings) {
    let ctx = |s: &str| format!("{s}; cfg={} op={op:?}\n real={out:?}\n expected={:?}\n pre={pre:?}\n post={post:?}", cfg.name, e.rets);
    let p = label; // "C20" or "C23"
    match out {
        Outcome::Panic(m) => {
            f.push((format!("ANY/panic/{}", m.chars().take(60).collect::<String>()), ctx("panic in read/take")));
            return;
        }
        Outcome::BadParameter => {
            if !exp_none_is_bad_param {
                f.push((format!("{p}/unexpected-BadParameter"), ctx("BadParameter for a known instance")));
            } else if post != pre {
                f.push((format!("{p}/failed-call-changed-cache"), ctx("failed call changed the cache")));
            }
            return;
        }
        _ if exp_none_is_bad_param => {
            f.push((format!("{p}/unknown-instance-not-BadParameter"), ctx("unknown instance handle accepted")));
            return;
        }
        Outcome::NoData => {
            if !e.rets.is_empty() {
                f.push((format!("{p}/NoData-although-samples-match/{}", e.rets.len()), ctx("NoData returned although stored samples match the masks")));
            }
            if post != pre {
                f.push((format!("{p}/failed-call-changed-cache"), ctx("NoData call changed the cache")));
            }
            return;
        }
        Outcome::Samples(v) => {
            if e.rets.is_empty() {
                f.push((format!("{p}/samples-returned-although-none-match"), ctx("samples returned although none matches")));
                return;
            }
            if v.len() != e.rets.len() {
                f.push((format!("{p}/wrong-number-of-samples/real={}/spec={}", v.len(), e.rets.len()), ctx("number of returned samples")));
            } else {
                for (a, b) in v.iter().zip(e.rets.iter()) {
                    if a == b {
                        continue;
                    }
                    let field = if (a.inst, a.w, a.ts, &a.payload, a.valid) != (b.inst, b.w, b.ts, &b.payload, b.valid) {
                        "wrong-sample-or-order"
                    } else if a.read != b.read {
                        "sample_state"
                    } else if a.view_new != b.view_new {
                        "view_state"
                    } else if a.state != b.state {
                        "instance_state"
                    } else if (a.dgc, a.nwgc) != (b.dgc, b.nwgc) {
                        "generation_counts"
                    } else if a.sample_rank != b.sample_rank {
                        "sample_rank"
                    } else if a.generation_rank != b.generation_rank {
                        "generation_rank"
                    } else {
                        "absolute_generation_rank"
                    };
                    f.push((format!("{p}/sample-info/{field}"), ctx(&format!("returned {a:?} expected {b:?}"))));
                    break;
                }
            }
            if *post != e.post {
                let what = if post.samples != e.post.samples { "samples" } else if post.insts != e.post.insts { "instances" } else { "owners" };
                f.push((format!("{p}/post-state/{what}/{}", if matches!(op, Op::Read{take:true,..}|Op::Next{take:true,..}) { "take" } else { "read" }), ctx(&format!("cache after the call differs: expected {:?}", e.post))));
            }
        }
        o => f.push((format!("{p}/unexpected-result/{o:?}"), ctx("unexpected result"))),
    }
}

pub fn spec_read(cfg: &Cfg, pre: &Snap, op: &Op, out: &Outcome, post: &Snap, f: &mut Findings) {
    match *op {
        Op::Read { take, max, sm, vm, im, inst } => {
            let i = if inst == 0xff { None } else { Some(inst) };
            let unknown = i.map(|x| !pre.insts.iter().any(|r| r.inst == x)).unwrap_or(false);
            let e = if unknown { Expected { rets: vec![], post: pre.clone() } } else { select(pre, take, max, sm, vm, im, i) };
            compare_read("C20", cfg, pre, op, unknown, &e, out, post, f);
        }
        Op::Next { take, max, sm, vm, im, prev } => {
            // first instance (in handle order) greater than prev that has samples matching the masks
            let mut cands: Vec<u8> = pre.insts.iter().map(|x| x.inst).filter(|x| prev == 0xff || *x > prev).collect();
            cands.sort();
            let mut e = Expected { rets: vec![], post: pre.clone() };
            for c in cands {
                let s = select(pre, take, max, sm, vm, im, Some(c));
                if !s.rets.is_empty() {
                    e = s;
                    break;
                }
            }
            compare_read("C23", cfg, pre, op, false, &e, out, post, f);
        }
        _ => {}
    }
}
