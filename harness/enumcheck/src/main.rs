//! E3 enumcheck: bounded-exhaustive input enumeration against the real dust_dds code.
use vutil::{Args, Report};

mod c08;
mod c14;
mod c38;

fn main() {
    let args = Args::parse();
    let mut rep = Report::new();
    if let Some(path) = &args.replay {
        let v = vutil::read_replay(path);
        let ok = match args.id.as_str() {
            "C08" => c08::replay(&v),
            "C14" => c14::replay(&v),
            "C38" => c38::replay(&v),
            _ => {
                eprintln!("no replay for {}", args.id);
                std::process::exit(2)
            }
        };
        std::process::exit(if ok { 0 } else { 1 });
    }
    match args.id.as_str() {
        "C08" => c08::run(&args, &mut rep),
        "C14" => c14::run(&args, &mut rep),
        "C38" => c38::run(&args, &mut rep),
        other => {
            rep.machinery_error = Some(format!("enumcheck: unknown check {other}"));
        }
    }
    rep.write(&args);
}
