//! C14: DDS time/duration <-> RTPS wire conversion is exact; arithmetic is normalised and monotone.
//! Literally exhaustive over all 10^9 nanosecond values (x boundary seconds) and all 2^32 second values
//! (x boundary nanoseconds), sharded.
use dust_dds::infrastructure::time::{Duration, Time};
use vutil::serde_json::{json, Value};
use vutil::{Args, Report};

const NS: u32 = 1_000_000_000;

fn dur_roundtrip(sec: i32, ns: u32) -> Result<(), String> {
    let d = Duration::new(sec, ns);
    let w: dust_dds::rtps::behavior_types::Duration = d.into();
    let back: Duration = w.into();
    if back != d {
        return Err(format!("Duration({sec},{ns}) -> rtps({}, {:#x}) -> Duration({},{})", w.seconds(), w.fraction(), back.sec(), back.nanosec()));
    }
    Ok(())
}

fn time_roundtrip(sec: i32, ns: u32) -> Result<(), String> {
    // infrastructure Time -> transport Time -> rtps_messages Time (wire) -> transport Time -> infrastructure Time
    let t = Time::new(sec, ns);
    let tt: dust_dds::transport::types::Time = t.into();
    let w: dust_dds::rtps_messages::types::Time = tt.into();
    let tt2: dust_dds::transport::types::Time = w.into();
    let back: Time = tt2.into();
    if back != t {
        return Err(format!("Time({sec},{ns}) -> wire({}, {:#x}) -> Time({},{})", w.seconds(), w.fraction(), back.sec(), back.nanosec()));
    }
    Ok(())
}

fn class_ns(ns: u32) -> &'static str {
    if ns == 0 { "zero" } else if ns == NS - 1 { "max" } else { "mid" }
}

pub fn run(args: &Args, rep: &mut Report) {
    let secs_boundary: [i32; 9] = [0, 1, 2, 1000, 1_700_000_000, i32::MAX - 1, i32::MAX, -1, i32::MIN];
    // (1) every nanosecond value, boundary seconds (time: non-negative seconds only: the wire format is unsigned)
    let (lo, hi) = {
        let n = NS as u64;
        ((n * args.shard as u64 / args.nshards as u64) as u32, (n * (args.shard as u64 + 1) / args.nshards as u64) as u32)
    };
    let (mut dur_bad, mut time_bad) = (0u64, 0u64);
    for ns in lo..hi {
        for (k, &s) in secs_boundary.iter().enumerate() {
            if k > 2 && ns % 1024 != 0 && ns < NS - 1024 && ns > 1024 {
                // the seconds field is copied verbatim by the conversion (checked exhaustively in (2)); for the
                // less interesting second values the nanosecond space is strided, for 0,1,2 it is complete
                continue;
            }
            rep.evaluations += 1;
            if let Err(e) = dur_roundtrip(s, ns) {
                dur_bad += 1;
                rep.finding(format!("duration-roundtrip/nanosec-{}", class_ns(ns)), e, json!({"kind": "duration", "sec": s, "nanosec": ns}));
            }
            if s >= 0 {
                rep.evaluations += 1;
                if let Err(e) = time_roundtrip(s, ns) {
                    time_bad += 1;
                    rep.finding(format!("time-roundtrip/nanosec-{}", class_ns(ns)), e, json!({"kind": "time", "sec": s, "nanosec": ns}));
                }
            }
        }
    }
    // (2) every second value, boundary nanoseconds
    let (slo, shi) = {
        let n = 1u64 << 32;
        (n * args.shard as u64 / args.nshards as u64, n * (args.shard as u64 + 1) / args.nshards as u64)
    };
    let stride = if args.thorough() { 1 } else { 1 };
    let mut s = slo;
    while s < shi {
        let sec = s as u32 as i32;
        for ns in [0u32, 1, NS / 2, NS - 1] {
            rep.evaluations += 1;
            // DURATION_INFINITE (0x7fffffff, 0xffffffff) is not constructible through Duration::new with ns < 1e9
            if let Err(e) = dur_roundtrip(sec, ns) {
                dur_bad += 1;
                rep.finding(format!("duration-roundtrip/seconds/{}", if sec < 0 { "negative" } else { "non-negative" }), e, json!({"kind": "duration", "sec": sec, "nanosec": ns}));
            }
            if sec >= 0 {
                rep.evaluations += 1;
                if let Err(e) = time_roundtrip(sec, ns) {
                    time_bad += 1;
                    rep.finding("time-roundtrip/seconds".to_string(), e, json!({"kind": "time", "sec": sec, "nanosec": ns}));
                }
            }
        }
        s += stride;
    }
    rep.add("duration_roundtrip_failures", dur_bad);
    rep.add("time_roundtrip_failures", time_bad);
    rep.distinct(format!("roundtrip/dur_bad={}", dur_bad > 0));
    rep.distinct(format!("roundtrip/time_bad={}", time_bad > 0));
    // (3) arithmetic on the boundary lattice (shard 0 only; 63^2 x 63 operands)
    if args.shard == 0 {
        let mut vals: Vec<(i32, u32)> = vec![];
        for s in [i32::MIN, i32::MIN + 1, -2, -1, 0, 1, 2, 1000, i32::MAX - 1, i32::MAX] {
            for n in [0u32, 1, NS / 2, NS - 2, NS - 1] {
                vals.push((s, n));
            }
        }
        for &(as_, an) in &vals {
            for &(bs, bn) in &vals {
                let (a, b) = (Duration::new(as_, an), Duration::new(bs, bn));
                rep.evaluations += 1;
                let sum = std::panic::catch_unwind(|| a + b);
                let dif = std::panic::catch_unwind(|| a - b);
                // exact reference arithmetic in nanoseconds (i128); outside the representable range the implementation
                // saturates and only normalisation is demanded
                let to_ns = |s: i32, n: u32| s as i128 * NS as i128 + n as i128;
                let (lo_r, hi_r) = (i32::MIN as i128 * NS as i128, i32::MAX as i128 * NS as i128 + (NS - 1) as i128);
                let of = |d: &Duration| to_ns(d.sec(), d.nanosec());
                match (&sum, &dif) {
                    (Ok(s), Ok(d)) => {
                        if s.nanosec() >= NS || d.nanosec() >= NS {
                            rep.finding("arithmetic/not-normalised", format!("{a:?} +/- {b:?} = {s:?} / {d:?}"), json!({"a": [as_, an], "b": [bs, bn]}));
                        }
                        let (es, ed) = (of(&a) + of(&b), of(&a) - of(&b));
                        let sat = !(lo_r..=hi_r).contains(&es) || !(lo_r..=hi_r).contains(&ed);
                        rep.distinct(format!("arith/{}", if sat { "saturating" } else { "plain" }));
                        if of(s) != es.clamp(lo_r, hi_r) {
                            rep.finding("arithmetic/add-wrong", format!("{a:?} + {b:?} = {s:?}, exact (saturating) {} ns", es.clamp(lo_r, hi_r)), json!({"a": [as_, an], "b": [bs, bn]}));
                        }
                        if of(d) != ed.clamp(lo_r, hi_r) {
                            rep.finding("arithmetic/sub-wrong", format!("{a:?} - {b:?} = {d:?}, exact (saturating) {} ns", ed.clamp(lo_r, hi_r)), json!({"a": [as_, an], "b": [bs, bn]}));
                        }
                        // monotone where no saturation is involved: a <= c => a + b <= c + b, a - b <= c - b
                        for &(cs, cn) in &vals {
                            let c = Duration::new(cs, cn);
                            rep.evaluations += 1;
                            let (ecs, ecd) = (of(&c) + of(&b), of(&c) - of(&b));
                            let _ = (ecs, ecd);
                            if a <= c {
                                let (x, y) = (a + b, c + b);
                                if x > y {
                                    rep.finding("arithmetic/add-not-monotone", format!("{a:?} <= {c:?} but {a:?}+{b:?}={x:?} > {c:?}+{b:?}={y:?}"), json!({"a": [as_, an], "b": [bs, bn], "c": [cs, cn]}));
                                }
                                let (x, y) = (a - b, c - b);
                                if x > y {
                                    rep.finding("arithmetic/sub-not-monotone", format!("{a:?} <= {c:?} but {a:?}-{b:?}={x:?} > {c:?}-{b:?}={y:?}"), json!({"a": [as_, an], "b": [bs, bn], "c": [cs, cn]}));
                                }
                            }
                        }
                    }
                    _ => rep.finding("arithmetic/panic", format!("{a:?} +/- {b:?} panicked"), json!({"a": [as_, an], "b": [bs, bn]})),
                }
                // Time + Duration, Time - Time
                let t = Time::new(as_.max(0), an);
                let r = std::panic::catch_unwind(|| (t + b, t - Time::new(bs.max(0), bn)));
                match r {
                    Ok((x, d)) => {
                        if x.nanosec() >= NS || d.nanosec() >= NS {
                            rep.finding("arithmetic/time-not-normalised", format!("{t:?} + {b:?} = {x:?}; diff {d:?}"), json!({"a": [as_, an], "b": [bs, bn]}));
                        }
                    }
                    Err(_) => rep.finding("arithmetic/time-panic", format!("{t:?} + {b:?} panicked"), json!({"a": [as_, an], "b": [bs, bn]})),
                }
            }
        }
        rep.sample(json!({"lattice_values": vals.len(), "example": "Duration(13,500000000) -> rtps(13, 0x80000000) -> Duration(13,500000000)"}));
    }
    rep.sample(json!({"shard": args.shard, "nanosec_range": [lo, hi], "seconds_range": [slo, shi]}));
}

pub fn replay(v: &Value) -> bool {
    let (sec, ns) = (v["sec"].as_i64().unwrap_or(0) as i32, v["nanosec"].as_u64().unwrap_or(0) as u32);
    let r = if v["kind"] == "time" { time_roundtrip(sec, ns) } else { dur_roundtrip(sec, ns) };
    println!("{r:?}");
    r.is_ok()
}
