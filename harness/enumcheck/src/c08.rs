//! C08: every RTPS message built through the public constructors decodes back to the same header and submessages,
//! and every submessage length field matches the encoded content. Bounded-exhaustive over a field lattice.
use dust_dds::rtps_messages::{
    overall_structure::{RtpsMessageHeader, RtpsMessageRead, RtpsMessageWrite, RtpsSubmessageReadKind, Submessage},
    submessage_elements::{Data, FragmentNumberSet, Parameter, ParameterList, SequenceNumberSet, SerializedDataFragment},
    submessages::{
        ack_nack::AckNackSubmessage, data::DataSubmessage, data_frag::DataFragSubmessage, gap::GapSubmessage, heartbeat::HeartbeatSubmessage,
        info_destination::InfoDestinationSubmessage, info_timestamp::InfoTimestampSubmessage, nack_frag::NackFragSubmessage,
    },
    types::Time,
};
use dust_dds::transport::types::{EntityId, ProtocolVersion};
use std::sync::Arc;
use vutil::serde_json::{json, Value};
use vutil::{Args, Report};

fn sns() -> Vec<i64> {
    vec![1, 2, (1 << 31) - 1, 1 << 31, 1 << 32, (1 << 32) + 1, i64::MAX - 300, 0, -1]
}
fn eids() -> Vec<EntityId> {
    vec![EntityId::new([0, 0, 0], 0), EntityId::new([1, 2, 3], 0x02), EntityId::new([0xff, 0xff, 0xff], 0xc7), EntityId::new([0, 1, 0], 0xc2)]
}
fn counts() -> Vec<i32> {
    vec![0, 1, -1, i32::MAX, i32::MIN]
}
fn sets(base: i64) -> Vec<Vec<i64>> {
    let mut v: Vec<Vec<i64>> = vec![vec![], vec![base], vec![base + 255], (0..256).map(|i| base + i).collect(), vec![base, base + 31, base + 32, base + 255], vec![base + 1, base + 64]];
    for i in [0i64, 1, 30, 31, 32, 33, 63, 64, 127, 128, 254, 255] {
        v.push(vec![base + i]);
    }
    v
}
fn payloads(thorough: bool) -> Vec<usize> {
    let mut v = vec![0usize, 1, 2, 3, 4, 5, 8, 1344, 65_000, 65_499, 65_500, 65_501];
    if thorough {
        v.extend(65_502..=65_540);
        v.push(70_000);
        v.push(200_000);
    } else {
        v.extend([65_515, 65_531, 65_532, 65_535, 65_536, 70_000]);
    }
    v
}
fn qos_lists() -> Vec<(&'static str, ParameterList)> {
    let kh = Parameter::new(0x0070, Arc::from(vec![7u8; 16]));
    let si = Parameter::new(0x0071, Arc::from(vec![0u8, 0, 0, 1]));
    let unk = Parameter::new(0x0fab_u16 as i16, Arc::from(vec![1u8, 2, 3, 4, 5, 6, 7, 8]));
    vec![("none", ParameterList::empty()), ("keyhash", ParameterList::new(vec![kh.clone()])), ("status", ParameterList::new(vec![si.clone()])), ("both", ParameterList::new(vec![kh, si])), ("unknown", ParameterList::new(vec![unk]))]
}

fn pattern(n: usize) -> Vec<u8> {
    (0..n).map(|i| (i * 7 + i / 255) as u8).collect()
}

/// walks the submessage headers of an encoded message and checks each octetsToNextHeader against the real length
fn length_fields_ok(bytes: &[u8]) -> Result<usize, String> {
    let mut off = 20;
    let mut n = 0;
    while off + 4 <= bytes.len() {
        let le = bytes[off + 1] & 1 != 0;
        let len = if le { u16::from_le_bytes([bytes[off + 2], bytes[off + 3]]) } else { u16::from_be_bytes([bytes[off + 2], bytes[off + 3]]) } as usize;
        let id = bytes[off];
        n += 1;
        if len == 0 && id != 0x01 && id != 0x09 {
            // extends to the end of the message: only allowed for the last submessage
            return Ok(n);
        }
        if off + 4 + len > bytes.len() {
            return Err(format!("submessage {n} (id {id:#x}) at offset {off}: octetsToNextHeader {len} exceeds the message ({} bytes)", bytes.len()));
        }
        off += 4 + len;
    }
    if off != bytes.len() {
        return Err(format!("trailing {} bytes after the last submessage", bytes.len() - off));
    }
    Ok(n)
}

fn frag_repr(x: &DataFragSubmessage) -> String {
    format!(
        "DATA_FRAG inline={} key={} reader={:?} writer={:?} sn={} start={} n={} fsize={} total={} qos={:?} payload={:?}",
        x.inline_qos_flag(), x.key_flag(), x.reader_id(), x.writer_id(), x.writer_sn(), x.fragment_starting_num(), x.fragments_in_submessage(), x.fragment_size(), x.data_size(), x.inline_qos(), x.serialized_payload().as_ref()
    )
}

struct Case {
    class: String,
    desc: String,
    subs: Vec<Box<dyn Submessage + Send>>,
    expect: Vec<String>, // Debug rendering of the original submessages
}

fn check(rep: &mut Report, c: Case) {
    rep.evaluations += 1;
    let header = RtpsMessageHeader::new(ProtocolVersion::new(2, 4), [1, 2], [9; 12]);
    let refs: Vec<&(dyn Submessage + Send)> = c.subs.iter().map(|b| b.as_ref()).collect();
    let r = std::panic::catch_unwind(std::panic::AssertUnwindSafe(|| RtpsMessageWrite::new(&header, &refs)));
    let Ok(msg) = r else {
        rep.finding(format!("encode-panic/{}", c.class), c.desc.clone(), json!({"desc": c.desc}));
        return;
    };
    let bytes = msg.buffer().to_vec();
    let mut c = c;
    if c.subs.len() == 1 && bytes.len() > 24 + 65_535 {
        // the submessage content does not fit the 16-bit octetsToNextHeader field
        c.class = format!("{}/oversize", c.class.split("/len").next().unwrap());
    }
    if let Err(e) = length_fields_ok(&bytes) {
        rep.finding(format!("length-field/{}", c.class), format!("{}: {e}", c.desc), json!({"desc": c.desc, "len": bytes.len()}));
    }
    let parsed = std::panic::catch_unwind(|| RtpsMessageRead::try_from(bytes.as_slice()));
    match parsed {
        Err(_) => rep.finding(format!("decode-panic/{}", c.class), c.desc.clone(), json!({"desc": c.desc})),
        Ok(Err(e)) => rep.finding(format!("decode-error/{}", c.class), format!("{}: {e:?}", c.desc), json!({"desc": c.desc})),
        Ok(Ok(m)) => {
            if m.header() != header {
                rep.finding(format!("header-mismatch/{}", c.class), c.desc.clone(), json!({"desc": c.desc}));
            }
            let got: Vec<String> = m
                .submessages()
                .iter()
                .map(|s| match s {
                    RtpsSubmessageReadKind::AckNack(x) => format!("{x:?}"),
                    RtpsSubmessageReadKind::Data(x) => format!("{x:?}"),
                    RtpsSubmessageReadKind::DataFrag(x) => frag_repr(x),
                    RtpsSubmessageReadKind::Gap(x) => format!("{x:?}"),
                    RtpsSubmessageReadKind::Heartbeat(x) => format!("{x:?}"),
                    RtpsSubmessageReadKind::HeartbeatFrag(x) => format!("{x:?}"),
                    RtpsSubmessageReadKind::InfoDestination(x) => format!("{x:?}"),
                    RtpsSubmessageReadKind::InfoReply(x) => format!("{x:?}"),
                    RtpsSubmessageReadKind::InfoSource(x) => format!("{x:?}"),
                    RtpsSubmessageReadKind::InfoTimestamp(x) => format!("{x:?}"),
                    RtpsSubmessageReadKind::NackFrag(x) => format!("{x:?}"),
                    RtpsSubmessageReadKind::Pad(x) => format!("{x:?}"),
                })
                .collect();
            if got != c.expect {
                let k = got.iter().zip(c.expect.iter()).position(|(a, b)| a != b).unwrap_or(got.len().min(c.expect.len()));
                rep.finding(
                    format!("roundtrip-mismatch/{}", c.class),
                    format!("{}: {} submessages decoded, {} encoded; first difference at {k}: got {:.300} expected {:.300}", c.desc, got.len(), c.expect.len(), got.get(k).cloned().unwrap_or_default(), c.expect.get(k).cloned().unwrap_or_default()),
                    json!({"desc": c.desc}),
                );
                rep.distinct(format!("{}/MISMATCH", c.class));
            } else {
                rep.distinct(format!("{}/ok", c.class));
            }
        }
    }
    if rep.evaluations % 20_011 == 3 {
        rep.sample(json!({"case": c.desc, "bytes": bytes.len()}));
    }
}

fn one<T: Submessage + Send + std::fmt::Debug + 'static>(class: &str, desc: String, s: T) -> Case {
    let e = format!("{s:?}");
    Case { class: class.to_string(), desc, subs: vec![Box::new(s)], expect: vec![e] }
}

pub fn run(args: &Args, rep: &mut Report) {
    let mut k = 0usize;
    let mut mine = |k: &mut usize| {
        *k += 1;
        args.mine(*k)
    };
    // ACKNACK / GAP / NACK_FRAG with every set shape
    for &base in &sns() {
        if base > i64::MAX - 300 || base < 1 {
            // set members must stay representable; base 0 / negative only with the empty set
            if mine(&mut k) {
                check(rep, one("acknack/odd-base", format!("ACKNACK base={base} set=[]"), AckNackSubmessage::new(true, eids()[1], eids()[2], SequenceNumberSet::new(base, []), 1)));
            }
            continue;
        }
        for set in sets(base) {
            for &count in &counts() {
                for fin in [false, true] {
                    if mine(&mut k) {
                        check(rep, one(&format!("acknack/set{}", set.len().min(5)), format!("ACKNACK final={fin} base={base} set={:?} count={count}", &set[..set.len().min(4)]), AckNackSubmessage::new(fin, eids()[1], eids()[2], SequenceNumberSet::new(base, set.clone()), count)));
                    }
                }
            }
            for &start in &[base, base.saturating_sub(1).max(1), 1] {
                if mine(&mut k) {
                    check(rep, one(&format!("gap/set{}", set.len().min(5)), format!("GAP start={start} base={base} set={:?}", &set[..set.len().min(4)]), GapSubmessage::new(eids()[0], eids()[2], start, SequenceNumberSet::new(base, set.clone()))));
                }
            }
        }
    }
    for &fbase in &[1u32, 2, 255, 65_535, u32::MAX - 300] {
        for set in sets(fbase as i64) {
            let fs: Vec<u32> = set.iter().map(|x| *x as u32).collect();
            for &count in &counts() {
                if mine(&mut k) {
                    check(rep, one(&format!("nackfrag/set{}", fs.len().min(5)), format!("NACK_FRAG sn=5 base={fbase} set={:?} count={count}", &fs[..fs.len().min(4)]), NackFragSubmessage::new(eids()[1], eids()[2], 5, FragmentNumberSet::new(fbase, fs.clone()), count)));
                }
            }
        }
    }
    // HEARTBEAT
    for &first in &sns() {
        for &last in &sns() {
            for &count in &counts() {
                for flags in 0..4u8 {
                    if mine(&mut k) {
                        check(rep, one("heartbeat", format!("HB first={first} last={last} count={count} flags={flags}"), HeartbeatSubmessage::new(flags & 1 != 0, flags & 2 != 0, eids()[0], eids()[1], first, last, count)));
                    }
                }
            }
        }
    }
    // INFO_TS / INFO_DST
    for secs in [0u32, 1, 0x7fff_ffff, 0x8000_0000, 0xffff_ffff] {
        for frac in [0u32, 1, 0x8000_0000, 0xffff_ffff] {
            if mine(&mut k) {
                check(rep, one("info_ts", format!("INFO_TS {secs}.{frac}"), InfoTimestampSubmessage::new(false, Time::new(secs, frac))));
            }
        }
    }
    if mine(&mut k) {
        // with the invalidate flag no timestamp travels: it decodes as TIME_INVALID
        check(rep, one("info_ts", "INFO_TS invalidate".into(), InfoTimestampSubmessage::new(true, Time::new(0xffff_ffff, 0xffff_ffff))));
    }
    if mine(&mut k) {
        check(rep, one("info_dst", "INFO_DST".into(), InfoDestinationSubmessage::new([3; 12])));
    }
    // DATA: flags x inline qos x payload sizes x sequence numbers x entity ids
    for (qn, q) in qos_lists() {
        for &len in &payloads(args.thorough()) {
            for &sn in &[1i64, (1 << 32) + 1, i64::MAX] {
                for (ei, e) in eids().iter().enumerate() {
                    if ei > 1 && len > 8 {
                        continue;
                    }
                    for key in [false, true] {
                        let inline = qn != "none";
                        let data_flag = !key && len > 0;
                        let key_flag = key && len > 0;
                        if mine(&mut k) {
                            let class = format!("data/qos={qn}");
                            check(rep, one(&class, format!("DATA inline={inline}({qn}) data={data_flag} key={key_flag} sn={sn} len={len}"), DataSubmessage::new(inline, data_flag, key_flag, false, *e, eids()[1], sn, q.clone(), Data::new(Arc::from(pattern(len))))));
                        }
                    }
                }
            }
        }
    }
    // DATA_FRAG
    for (qn, q) in qos_lists() {
        for &(fsize, total, start, n) in &[(8u16, 20u32, 1u32, 1u16), (8, 20, 3, 1), (64, 129, 3, 1), (1344, 70_000, 53, 1), (65_000, 200_000, 4, 1), (65_000, 130_000, 2, 1), (16, 64, 2, 2)] {
            let from = (start as usize - 1) * fsize as usize;
            let to = (from + fsize as usize * n as usize).min(total as usize);
            for &sn in &[1i64, i64::MAX] {
                for key in [false, true] {
                    if mine(&mut k) {
                        let whole = Data::new(Arc::from(pattern(total as usize)));
                        let f = DataFragSubmessage::new(qn != "none", false, key, eids()[0], eids()[1], sn, start, n, fsize, total, q.clone(), SerializedDataFragment::new(whole, from..to));
                        let e = frag_repr(&f);
                        check(rep, Case { class: format!("data_frag/qos={qn}"), desc: format!("DATA_FRAG sn={sn} start={start} n={n} fsize={fsize} total={total} key={key} qos={qn}"), subs: vec![Box::new(f)], expect: vec![e] });
                    }
                }
            }
        }
    }
    // messages of 2-3 submessages in all orders of kinds (small fields)
    let mk: Vec<(&str, Box<dyn Fn() -> (Box<dyn Submessage + Send>, String)>)> = vec![
        ("ts", Box::new(|| { let s = InfoTimestampSubmessage::new(false, Time::new(5, 6)); let d = format!("{s:?}"); (Box::new(s), d) })),
        ("dst", Box::new(|| { let s = InfoDestinationSubmessage::new([4; 12]); let d = format!("{s:?}"); (Box::new(s), d) })),
        ("data", Box::new(|| { let s = DataSubmessage::new(true, true, false, false, EntityId::new([0, 0, 0], 0), EntityId::new([1, 2, 3], 2), 7, qos_lists()[3].1.clone(), Data::new(Arc::from(pattern(13)))); let d = format!("{s:?}"); (Box::new(s), d) })),
        ("data0", Box::new(|| { let s = DataSubmessage::new(false, false, false, false, EntityId::new([0, 0, 0], 0), EntityId::new([1, 2, 3], 2), 8, ParameterList::empty(), Data::new(Arc::from(pattern(0)))); let d = format!("{s:?}"); (Box::new(s), d) })),
        ("hb", Box::new(|| { let s = HeartbeatSubmessage::new(false, false, EntityId::new([0, 0, 0], 0), EntityId::new([1, 2, 3], 2), 1, 9, 3); let d = format!("{s:?}"); (Box::new(s), d) })),
        ("gap", Box::new(|| { let s = GapSubmessage::new(EntityId::new([0, 0, 0], 0), EntityId::new([1, 2, 3], 2), 3, SequenceNumberSet::new(5, [5, 7])); let d = format!("{s:?}"); (Box::new(s), d) })),
        ("acknack", Box::new(|| { let s = AckNackSubmessage::new(true, EntityId::new([1, 2, 3], 7), EntityId::new([1, 2, 3], 2), SequenceNumberSet::new(4, [4, 6]), 2); let d = format!("{s:?}"); (Box::new(s), d) })),
        ("frag", Box::new(|| { let s = DataFragSubmessage::new(true, false, false, EntityId::new([0, 0, 0], 0), EntityId::new([1, 2, 3], 2), 9, 2, 1, 16, 40, qos_lists()[1].1.clone(), SerializedDataFragment::new(Data::new(Arc::from(pattern(40))), 16..32)); let d = frag_repr(&s); (Box::new(s), d) })),
        ("nackfrag", Box::new(|| { let s = NackFragSubmessage::new(EntityId::new([1, 2, 3], 7), EntityId::new([1, 2, 3], 2), 9, FragmentNumberSet::new(2, [2, 3]), 1); let d = format!("{s:?}"); (Box::new(s), d) })),
    ];
    let n = mk.len();
    for a in 0..n {
        for b in 0..n {
            for c in 0..=n {
                if !mine(&mut k) {
                    continue;
                }
                let mut subs = vec![];
                let mut expect = vec![];
                let mut name = vec![];
                let mut idx = vec![a, b];
                if c < n {
                    idx.push(c);
                }
                for &i in idx.iter() {
                    let (s, d) = (mk[i].1)();
                    subs.push(s);
                    expect.push(d);
                    name.push(mk[i].0);
                }
                check(rep, Case { class: format!("multi/{}", name.len()), desc: format!("message [{}]", name.join(",")), subs, expect });
            }
        }
    }
    rep.set("cfg_thorough", json!(args.thorough()));
}

pub fn replay(v: &Value) -> bool {
    println!("replay by description: {} (re-run the check to reproduce; cases are enumerated deterministically)", v["desc"]);
    true
}
