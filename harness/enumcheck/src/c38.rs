//! C38: RtpsUdpTransportParticipantFactory::set_fragment_size accepts exactly 8..=65000 and leaves the previous
//! setting unchanged on rejection.
use dust_dds::infrastructure::error::DdsError;
use dust_dds::rtps_udp_transport::udp_transport::RtpsUdpTransportParticipantFactory;
use vutil::serde_json::{json, Value};
use vutil::{Args, Report};

fn class(v: usize) -> &'static str {
    if v < 8 {
        "below"
    } else if v <= 65000 {
        "inside"
    } else {
        "above"
    }
}

/// returns Err(signature, detail) on violation
fn one(prev_chain: &[usize], v: usize) -> Result<(bool, usize), (String, String)> {
    let mut f = RtpsUdpTransportParticipantFactory::default();
    for p in prev_chain {
        // previous settings are all inside the range; their result is checked by the cases where they are `v`
        let _ = f.set_fragment_size(*p);
    }
    let before = f.fragment_size();
    let expect_ok = (8..=65000).contains(&v);
    let res = match f.set_fragment_size(v) {
        Ok(_) => Ok(()),
        Err(e) => Err(e),
    };
    let after = f.fragment_size();
    match (&res, expect_ok) {
        (Ok(()), true) => {
            if after != v {
                return Err(("accepted-but-not-stored".into(), format!("prev={prev_chain:?} v={v} after={after}")));
            }
        }
        (Ok(()), false) => {
            return Err((
                format!("accepted-out-of-range/{}", class(v)),
                format!("set_fragment_size({v}) from {before} returned Ok; getter now {after}"),
            ));
        }
        (Err(DdsError::BadParameter), false) => {
            if after != before {
                return Err(("rejected-but-changed".into(), format!("prev={prev_chain:?} v={v} before={before} after={after}")));
            }
        }
        (Err(DdsError::BadParameter), true) => {
            return Err((
                "rejected-in-range".into(),
                format!("set_fragment_size({v}) from {before} returned BadParameter"),
            ));
        }
        (Err(e), _) => {
            return Err(("wrong-error".into(), format!("set_fragment_size({v}) from {before} returned {e:?}")));
        }
    }
    Ok((res.is_ok(), after))
}

fn values(thorough: bool) -> Vec<usize> {
    let mut v: Vec<usize> = (0..=70_000).collect();
    for k in 0..usize::BITS {
        let p = 1usize << k;
        v.push(p);
        v.push(p.wrapping_sub(1));
        v.push(p.wrapping_add(1));
    }
    v.extend([usize::MAX, usize::MAX - 1, u32::MAX as usize, u16::MAX as usize, i32::MAX as usize, i64::MAX as usize]);
    if thorough {
        v.extend((70_001..=2_000_000).step_by(1));
    }
    v.sort();
    v.dedup();
    v
}

pub fn run(args: &Args, rep: &mut Report) {
    let chains: Vec<Vec<usize>> = vec![vec![], vec![8], vec![1344], vec![65000], vec![65000, 8], vec![9, 64999]];
    for chain in &chains {
        for v in values(args.thorough()) {
            rep.evaluations += 1;
            match one(chain, v) {
                Ok((ok, _after)) => {
                    rep.distinct(format!("{:?}/{}/{}", chain, class(v), ok));
                    if rep.evaluations % 50_000 == 1 {
                        rep.sample(json!({"prev": chain, "v": v, "accepted": ok}));
                    }
                }
                Err((sig, detail)) => {
                    rep.distinct(format!("{:?}/{}/VIOLATION", chain, class(v)));
                    rep.finding(sig, detail, json!({"prev": chain, "v": v}));
                }
            }
        }
    }
}

pub fn replay(v: &Value) -> bool {
    let chain: Vec<usize> = v["prev"].as_array().unwrap().iter().map(|x| x.as_u64().unwrap() as usize).collect();
    let val = v["v"].as_u64().unwrap() as usize;
    match one(&chain, val) {
        Ok(r) => {
            println!("prev={chain:?} v={val}: ok {r:?}");
            true
        }
        Err((sig, d)) => {
            println!("prev={chain:?} v={val}: VIOLATION {sig}: {d}");
            false
        }
    }
}
