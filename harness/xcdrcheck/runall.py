#!/usr/bin/env python3
"""Runs one or more xcdrcheck ids as N parallel shards and prints the merged counts (debug helper; ./check does the same).
usage: runall.py [--tier quick|thorough] [--shards 16] [--out DIR] ID..."""
import json, subprocess, sys, time, os, collections

BIN = "/verif/target/harness/release/xcdrcheck"

def main():
    a = sys.argv[1:]
    tier, shards, out = "quick", 16, "/tmp/xcdrcheck-out"
    ids = []
    while a:
        x = a.pop(0)
        if x == "--tier": tier = a.pop(0)
        elif x == "--shards": shards = int(a.pop(0))
        elif x == "--out": out = a.pop(0)
        else: ids.append(x)
    os.makedirs(out, exist_ok=True)
    for cid in ids:
        t0 = time.time()
        procs = []
        for i in range(shards):
            f = f"{out}/{cid}-{tier}-{i}.json"
            cmd = f"ulimit -v 8000000; exec timeout 3000 {BIN} {cid} --tier {tier} --seed 0 --shard {i}/{shards} --out {f}"
            procs.append((subprocess.Popen(["bash", "-c", cmd]), f))
        rcs = [p.wait() for p, _ in procs]
        wall = time.time() - t0
        ev = st = 0
        distinct = set()
        findings = {}
        occ = collections.Counter()
        errs = []
        extra = collections.Counter()
        for (_, f), rc in zip(procs, rcs):
            if rc != 0:
                errs.append(f"shard exit {rc}")
                continue
            r = json.load(open(f))
            ev += r["evaluations"]; st += r["states"]
            distinct.update(r["distinct"])
            if r["machinery_error"]: errs.append(r["machinery_error"])
            for fd in r["findings"]:
                findings.setdefault(fd["sig"], fd)
            for k, v in r["extra"].get("finding_occurrences", {}).items():
                occ[k] += v
            for k, v in r["extra"].items():
                if isinstance(v, int) and k != "wall_ms":
                    if k.startswith("cfg_"): extra[k] = v
                    elif k.startswith("max_"): extra[k] = max(extra[k], v)
                    else: extra[k] += v
        merged = {"id": cid, "tier": tier, "shards": shards, "wall_s": round(wall, 1), "evaluations": ev, "states": st, "distinct": len(distinct),
                  "finding_signatures": len(findings), "machinery_errors": errs, "extra": dict(extra)}
        print(json.dumps(merged))
        json.dump({"summary": merged, "findings": [dict(findings[k], occurrences=occ.get(k, 0)) for k in sorted(findings)], "distinct": sorted(distinct)}, open(f"{out}/{cid}-{tier}-merged.json", "w"), indent=1)

main()
