//! C13: discovery data (participant / publication / subscription / topic announcements) through the parameter-list codec.
//!
//! The four `Discovered*Data` structs have crate-private fields and no constructor, so every value is obtained by decoding
//! bytes produced by an own parameter-list encoder (RTPS 2.x clause 9.6 / table 9.13, CDR per parameter). Oracle per case:
//!   (1) `from_bytes(B)` succeeds and holds the announced value of every field (checked through the Debug rendering of the
//!       public QoS types),
//!   (2) `from_bytes(into_bytes(x)) == x` for the decoded x,
//!   (3) unknown / vendor-specific parameters spliced at every parameter boundary do not change the decoded value.
use crate::bridge::{install_quiet_panic_hook, msg_class, panic_msg};
use dust_dds::builtin_topics::BuiltInTopicKey;
use dust_dds::infrastructure::qos_policy::*;
use dust_dds::infrastructure::time::{Duration, DurationKind};
use dust_dds::transport::types::{EntityId, Guid, Locator};
use dust_dds::verif_hooks::data_representation_builtin_endpoints::{
    discovered_reader_data::DiscoveredReaderData, discovered_topic_data::DiscoveredTopicData, discovered_writer_data::DiscoveredWriterData,
    spdp_discovered_participant_data::SpdpDiscoveredParticipantData,
};
use dust_dds::xtypes::type_support::_String;
use vutil::serde_json::{json, Value};
use vutil::{hex, unhex, Args, Report};

// ---------------------------------------------------------------------------------------------------------------
// field values

#[derive(Clone, Debug, PartialEq)]
pub enum FV {
    Guid([u8; 16]),
    Str(String),
    Kind(u32),
    /// None = infinite
    Dur(Option<(i32, u32)>),
    KindDur(u32, Option<(i32, u32)>),
    Bytes(Vec<u8>),
    I32(i32),
    U32(u32),
    OptU32(Option<u32>),
    Pres(u32, bool, bool),
    StrSeq(Vec<String>),
    I16Seq(Vec<i16>),
    Tce(u16, [bool; 5]),
    Hist(u32, i32),
    Rl(i32, i32, i32),
    Eid([u8; 4]),
    Locs(Vec<(i32, u32, [u8; 16])>),
    Bool(bool),
    Two([u8; 2]),
    /// TypeInformation of the n-th sample type (None = parameter absent). The XCDR2 body comes from dust-dds' own
    /// serializer (no independent TypeObject encoder exists here), so only decode + re-encode are checked for it.
    TypeInfo(Option<usize>),
}

fn type_information(n: usize) -> dust_dds::xtypes::type_object::TypeInformation {
    use crate::ast::*;
    let s = match n {
        0 => make_struct(Ext::Final, IdStyle::Sequential, &[(Ty::Prim(Prim::I32), Modif::Key), (Ty::Str(0), Modif::Plain)]),
        _ => make_struct(Ext::Mutable, IdStyle::Sparse, &[(Ty::Prim(Prim::U8), Modif::Plain), (Ty::Seq(Box::new(Ty::Prim(Prim::I32)), 0), Modif::Optional)]),
    };
    dust_dds::xtypes::type_object::TypeInformation::from(crate::xcdr::cached_type(&s))
}

impl FV {
    fn to_json(&self) -> Value {
        match self {
            FV::Bytes(b) if b.len() > 64 => json!({"Bytes": {"len": b.len(), "pattern": "i*7+i/255"}}),
            o => json!(format!("{o:?}")),
        }
    }
}

pub fn pattern(n: usize) -> Vec<u8> {
    (0..n).map(|i| (i * 7 + i / 255) as u8).collect()
}

struct Cdr {
    buf: Vec<u8>,
    be: bool,
}
impl Cdr {
    fn align(&mut self, a: usize) {
        while self.buf.len() % a != 0 {
            self.buf.push(0);
        }
    }
    fn u8(&mut self, x: u8) {
        self.buf.push(x);
    }
    fn u16(&mut self, x: u16) {
        self.align(2);
        self.buf.extend_from_slice(&if self.be { x.to_be_bytes() } else { x.to_le_bytes() });
    }
    fn u32(&mut self, x: u32) {
        self.align(4);
        self.buf.extend_from_slice(&if self.be { x.to_be_bytes() } else { x.to_le_bytes() });
    }
    fn string(&mut self, s: &str) {
        self.u32(s.len() as u32 + 1);
        self.buf.extend_from_slice(s.as_bytes());
        self.buf.push(0);
    }
    fn dur(&mut self, d: &Option<(i32, u32)>) {
        let (s, n) = d.unwrap_or((0x7fffffff, 0xffffffff));
        self.u32(s as u32);
        self.u32(n);
    }
}

/// CDR bodies of the parameter(s) of one field value (a locator list gives one parameter per locator)
fn bodies(v: &FV, be: bool) -> Vec<Vec<u8>> {
    let mut c = Cdr { buf: Vec::new(), be };
    match v {
        FV::Guid(g) => c.buf.extend_from_slice(g),
        FV::Str(s) => c.string(s),
        FV::Kind(k) | FV::U32(k) => c.u32(*k),
        FV::OptU32(k) => match k {
            Some(k) => c.u32(*k),
            None => return vec![],
        },
        FV::Dur(d) => c.dur(d),
        FV::KindDur(k, d) => {
            c.u32(*k);
            c.dur(d);
        }
        FV::Bytes(b) => {
            c.u32(b.len() as u32);
            c.buf.extend_from_slice(b);
        }
        FV::I32(x) => c.u32(*x as u32),
        FV::Pres(s, a, b) => {
            c.u32(*s);
            c.u8(*a as u8);
            c.u8(*b as u8);
        }
        FV::StrSeq(v) => {
            c.u32(v.len() as u32);
            for s in v {
                c.string(s);
            }
        }
        FV::I16Seq(v) => {
            c.u32(v.len() as u32);
            for x in v {
                c.u16(*x as u16);
            }
        }
        FV::Tce(k, b) => {
            c.u16(*k);
            for x in b {
                c.u8(*x as u8);
            }
        }
        FV::Hist(k, d) => {
            c.u32(*k);
            c.u32(*d as u32);
        }
        FV::Rl(a, b, d) => {
            c.u32(*a as u32);
            c.u32(*b as u32);
            c.u32(*d as u32);
        }
        FV::Eid(e) => c.buf.extend_from_slice(e),
        FV::Locs(l) => {
            return l
                .iter()
                .map(|(k, p, a)| {
                    let mut c = Cdr { buf: Vec::new(), be };
                    c.u32(*k as u32);
                    c.u32(*p);
                    c.buf.extend_from_slice(a);
                    c.buf
                })
                .collect()
        }
        FV::Bool(b) => c.u8(*b as u8),
        FV::Two(t) => c.buf.extend_from_slice(t),
        FV::TypeInfo(None) => return vec![],
        FV::TypeInfo(Some(n)) => {
            use dust_dds::xtypes::type_support::TypeSupport;
            assert!(!be, "TypeInformation bodies are only available little endian");
            let d = type_information(*n).create_dynamic_sample();
            c.buf = dust_dds::verif_hooks::xtypes_serializer::serialize_without_header_cdr2_le(Vec::new(), &d).expect("type information");
        }
    }
    vec![c.buf]
}

// ---------------------------------------------------------------------------------------------------------------
// expectations: Debug rendering of the public dust-dds value that corresponds to a field value

fn dk(d: &Option<(i32, u32)>) -> Option<DurationKind> {
    match d {
        None => Some(DurationKind::Infinite),
        Some((s, n)) if *n < 1_000_000_000 => Some(DurationKind::Finite(Duration::new(*s, *n))),
        _ => None, // not representable through the public constructor (it normalises); only the round trip is checked
    }
}
fn length(x: i32) -> Length {
    if x == -1 {
        Length::Unlimited
    } else {
        Length::Limited(x)
    }
}

/// `Some(fragment)`: this text must occur in the Debug rendering of the decoded data. `None`: no expectation on the value.
fn expect(field: &str, v: &FV) -> Option<String> {
    macro_rules! f {
        ($x:expr) => {
            Some(format!("{}: {:?}", field, $x))
        };
    }
    match (field, v) {
        ("key", FV::Guid(g)) => Some(format!("Data {{ key: {:?}", BuiltInTopicKey { value: *g })),
        ("participant_key", FV::Guid(g)) => f!(BuiltInTopicKey { value: *g }),
        ("topic_name" | "type_name" | "name", FV::Str(s)) => f!(_String::from(s.clone())),
        ("domain_tag", FV::Str(s)) => f!(s),
        ("durability", FV::Kind(k)) => f!(DurabilityQosPolicy {
            kind: match k {
                0 => DurabilityQosPolicyKind::Volatile,
                1 => DurabilityQosPolicyKind::TransientLocal,
                2 => DurabilityQosPolicyKind::Transient,
                3 => DurabilityQosPolicyKind::Persistent,
                _ => return Some(format!("durability kind {k} (not a DDS value: the announcement must be rejected)")),
            }
        }),
        ("deadline", FV::Dur(d)) => f!(DeadlineQosPolicy { period: dk(d)? }),
        ("latency_budget", FV::Dur(d)) => f!(LatencyBudgetQosPolicy { duration: dk(d)? }),
        ("lifespan", FV::Dur(d)) => f!(LifespanQosPolicy { duration: dk(d)? }),
        ("time_based_filter", FV::Dur(d)) => f!(TimeBasedFilterQosPolicy { minimum_separation: dk(d)? }),
        ("lease_duration", FV::Dur(Some((s, n)))) if *n < 1_000_000_000 => f!(Duration::new(*s, *n)),
        ("lease_duration", FV::Dur(_)) => None,
        ("liveliness", FV::KindDur(k, d)) => f!(LivelinessQosPolicy {
            kind: match k {
                0 => LivelinessQosPolicyKind::Automatic,
                1 => LivelinessQosPolicyKind::ManualByParticipant,
                _ => LivelinessQosPolicyKind::ManualByTopic,
            },
            lease_duration: dk(d)?
        }),
        ("reliability", FV::KindDur(k, d)) => f!(ReliabilityQosPolicy { kind: if *k == 1 { ReliabilityQosPolicyKind::BestEffort } else { ReliabilityQosPolicyKind::Reliable }, max_blocking_time: dk(d)? }),
        ("user_data", FV::Bytes(b)) => f!(UserDataQosPolicy { value: b.clone() }),
        ("topic_data", FV::Bytes(b)) => f!(TopicDataQosPolicy { value: b.clone() }),
        ("group_data", FV::Bytes(b)) => f!(GroupDataQosPolicy { value: b.clone() }),
        ("ownership", FV::Kind(k)) => f!(OwnershipQosPolicy { kind: if *k == 0 { OwnershipQosPolicyKind::Shared } else { OwnershipQosPolicyKind::Exclusive } }),
        ("ownership_strength", FV::I32(x)) => f!(OwnershipStrengthQosPolicy { value: *x }),
        ("transport_priority", FV::I32(x)) => f!(TransportPriorityQosPolicy { value: *x }),
        ("destination_order", FV::Kind(k)) => {
            f!(DestinationOrderQosPolicy { kind: if *k == 0 { DestinationOrderQosPolicyKind::ByReceptionTimestamp } else { DestinationOrderQosPolicyKind::BySourceTimestamp } })
        }
        ("presentation", FV::Pres(s, a, b)) => match s {
            0 => f!(PresentationQosPolicy { access_scope: PresentationQosPolicyAccessScopeKind::Instance, coherent_access: *a, ordered_access: *b }),
            1 => f!(PresentationQosPolicy { access_scope: PresentationQosPolicyAccessScopeKind::Topic, coherent_access: *a, ordered_access: *b }),
            // DDS 1.4 GROUP_PRESENTATION_QOS = 2: dust-dds has no such variant
            _ => Some(format!("presentation: PresentationQosPolicy {{ access_scope: Group, coherent_access: {a}, ordered_access: {b} }}")),
        },
        ("partition", FV::StrSeq(v)) => f!(PartitionQosPolicy { name: v.clone() }),
        ("representation", FV::I16Seq(v)) => f!(DataRepresentationQosPolicy { value: v.iter().map(|x| *x as _).collect() }),
        ("type_consistency", FV::Tce(k, b)) => f!(TypeConsistencyEnforcementQosPolicy {
            kind: if *k == 0 { TypeConsistencyKind::DisallowTypeCoercion } else { TypeConsistencyKind::AllowTypeCoercion },
            ignore_sequence_bounds: b[0],
            ignore_string_bounds: b[1],
            ignore_member_names: b[2],
            prevent_type_widening: b[3],
            force_type_validation: b[4]
        }),
        ("history", FV::Hist(k, d)) => f!(HistoryQosPolicy { kind: if *k == 0 { HistoryQosPolicyKind::KeepLast(*d as u32) } else { HistoryQosPolicyKind::KeepAll } }),
        ("resource_limits", FV::Rl(a, b, c)) => f!(ResourceLimitsQosPolicy { max_samples: length(*a), max_instances: length(*b), max_samples_per_instance: length(*c) }),
        ("remote_group_entity_id", FV::Eid(e)) => f!(EntityId::new([e[0], e[1], e[2]], e[3])),
        ("unicast_locator_list" | "multicast_locator_list" | "metatraffic_unicast_locator_list" | "metatraffic_multicast_locator_list" | "default_unicast_locator_list" | "default_multicast_locator_list", FV::Locs(l)) => {
            f!(l.iter().map(|(k, p, a)| Locator::new(*k, *p, *a)).collect::<Vec<_>>())
        }
        ("expects_inline_qos", FV::Bool(b)) => f!(b),
        ("domain_id", FV::OptU32(x)) => f!(x.map(|v| v as i32)),
        ("manual_liveliness_count", FV::I32(x)) => f!(x),
        ("available_builtin_endpoints", FV::U32(x)) => Some(format!("available_builtin_endpoints: BuiltinEndpointSet({x})")),
        ("builtin_endpoint_qos", FV::U32(x)) => Some(format!("builtin_endpoint_qos: BuiltinEndpointQos({x})")),
        ("vendor_id", FV::Two(t)) => f!(t),
        ("type_information", FV::TypeInfo(n)) => f!(n.map(type_information)),
        ("protocol_version", FV::Two(_)) => None,
        (f, v) => panic!("no expectation for {f} {v:?}"),
    }
}

// ---------------------------------------------------------------------------------------------------------------
// the four announcement kinds as field tables

#[derive(Clone)]
pub struct Field {
    pub name: &'static str,
    pub pid: u16,
    pub default: FV,
    /// lattice (non-default values)
    pub lattice: Vec<FV>,
    /// a parameter that must always be present
    pub mandatory: bool,
}

fn durs() -> Vec<FV> {
    vec![FV::Dur(Some((0, 0))), FV::Dur(Some((0, 1))), FV::Dur(Some((1, 0))), FV::Dur(Some((0x7ffffffe, 999_999_999))), FV::Dur(Some((-1, 0))), FV::Dur(Some((3, 0x8000_0000))), FV::Dur(None),
         // the neighbourhood of the infinite sentinel (0x7fffffff, 0xffffffff): only the exact pair means infinite
         FV::Dur(Some((0x7fffffff, 0))), FV::Dur(Some((0x7fffffff, 999_999_999))), FV::Dur(Some((0x7fffffff, 0xffff_fffe))), FV::Dur(Some((0x7ffffffe, 0xffff_ffff)))]
}
fn kdurs(kinds: &[u32]) -> Vec<FV> {
    let mut v = Vec::new();
    for k in kinds {
        for d in [Some((0, 0)), Some((0, 100_000_000)), Some((10, 500)), Some((0x7ffffffe, 999_999_999)), Some((0x7fffffff, 0)), Some((0x7fffffff, 0xffff_fffe)), None] {
            v.push(FV::KindDur(*k, d));
        }
    }
    v
}
fn datas(thorough: bool) -> Vec<FV> {
    // 65528 is the largest octet sequence whose parameter (4 byte length + data, padded) fits the 16 bit parameter length
    let mut s = vec![1usize, 3, 4, 5, 255, 65524, 65527, 65528];
    if thorough {
        s.extend([2, 7, 8, 1024, 65521, 65522, 65523, 65525, 65526]);
    }
    s.into_iter().map(|n| FV::Bytes(pattern(n))).collect()
}
fn locs() -> Vec<FV> {
    let a = (1, 7400, [0, 0, 0, 0, 0, 0, 0, 0, 0, 0, 0, 0, 127, 0, 0, 1]);
    let b = (2, 0xffff_ffff, [0xfe; 16]);
    let c = (-1, 0, [0; 16]);
    vec![FV::Locs(vec![a]), FV::Locs(vec![a, b, c]), FV::Locs(vec![b, a])]
}
fn parts() -> Vec<FV> {
    vec![FV::StrSeq(vec!["".into()]), FV::StrSeq(vec!["a".into(), "b*".into()]), FV::StrSeq(vec!["abc".into(), "".into(), "h\u{e9}".into()])]
}
fn g(n: u8) -> [u8; 16] {
    let mut x = [n; 16];
    x[12..].copy_from_slice(&[0, 0, n, 0xc2]);
    x
}

fn fld(name: &'static str, pid: u16, default: FV, lattice: Vec<FV>) -> Field {
    Field { name, pid, default, lattice, mandatory: false }
}

pub fn endpoint_fields(reader: bool, thorough: bool) -> Vec<Field> {
    let mut f = vec![
        Field { name: "key", pid: 0x5a, default: FV::Guid(g(1)), lattice: vec![FV::Guid([0; 16]), FV::Guid([0xff; 16])], mandatory: true },
        Field { name: "participant_key", pid: 0x50, default: FV::Guid(g(2)), lattice: vec![FV::Guid([0xff; 16])], mandatory: true },
        Field { name: "topic_name", pid: 0x05, default: FV::Str("ab".into()), lattice: vec![FV::Str("".into()), FV::Str("abc".into()), FV::Str("abcd".into()), FV::Str("t\u{e9}".into())], mandatory: true },
        Field { name: "type_name", pid: 0x07, default: FV::Str("cd".into()), lattice: vec![FV::Str("".into()), FV::Str("A::B".into())], mandatory: true },
        fld("type_information", 0x75, FV::TypeInfo(None), vec![FV::TypeInfo(Some(0)), FV::TypeInfo(Some(1))]),
        fld("durability", 0x1d, FV::Kind(0), vec![FV::Kind(1), FV::Kind(2), FV::Kind(3)]),
        fld("deadline", 0x23, FV::Dur(None), durs()),
        fld("latency_budget", 0x27, FV::Dur(Some((0, 0))), durs()),
        fld("liveliness", 0x1b, FV::KindDur(0, None), kdurs(&[0, 1, 2])),
        fld("reliability", 0x1a, FV::KindDur(if reader { 1 } else { 2 }, Some((0, 100_000_000))), kdurs(&[1, 2])),
        fld("user_data", 0x2c, FV::Bytes(vec![]), datas(thorough)),
        fld("ownership", 0x1f, FV::Kind(0), vec![FV::Kind(1)]),
        fld("destination_order", 0x25, FV::Kind(0), vec![FV::Kind(1)]),
        fld("presentation", 0x21, FV::Pres(0, false, false), vec![FV::Pres(1, false, false), FV::Pres(0, true, false), FV::Pres(0, false, true), FV::Pres(1, true, true), FV::Pres(2, false, false)]),
        fld("partition", 0x29, FV::StrSeq(vec![]), parts()),
        fld("topic_data", 0x2e, FV::Bytes(vec![]), datas(thorough)),
        fld("group_data", 0x2d, FV::Bytes(vec![]), datas(thorough)),
        fld("representation", 0x73, FV::I16Seq(vec![]), vec![FV::I16Seq(vec![0]), FV::I16Seq(vec![2]), FV::I16Seq(vec![2, 0]), FV::I16Seq(vec![0, 1, 2])]),
        fld("remote_group_entity_id", 0x53, FV::Eid([0, 0, 0, 0]), vec![FV::Eid([0, 0, 1, 0x08]), FV::Eid([0xff, 0xff, 0xff, 0x09])]),
        fld("unicast_locator_list", 0x2f, FV::Locs(vec![]), locs()),
        fld("multicast_locator_list", 0x30, FV::Locs(vec![]), locs()),
    ];
    if reader {
        f.push(fld("time_based_filter", 0x04, FV::Dur(Some((0, 0))), durs()));
        f.push(fld(
            "type_consistency",
            0x74,
            FV::Tce(1, [true, true, false, false, false]),
            vec![FV::Tce(0, [true, true, false, false, false]), FV::Tce(1, [false, false, false, false, false]), FV::Tce(1, [true, true, true, true, true]), FV::Tce(0, [false, true, false, true, false])],
        ));
        f.push(fld("expects_inline_qos", 0x43, FV::Bool(false), vec![FV::Bool(true)]));
    } else {
        f.push(fld("lifespan", 0x2b, FV::Dur(None), durs()));
        f.push(fld("ownership_strength", 0x06, FV::I32(0), vec![FV::I32(1), FV::I32(-1), FV::I32(i32::MAX), FV::I32(i32::MIN)]));
    }
    f
}

pub fn topic_fields(thorough: bool) -> Vec<Field> {
    vec![
        Field { name: "key", pid: 0x5a, default: FV::Guid(g(3)), lattice: vec![FV::Guid([0xff; 16])], mandatory: true },
        Field { name: "name", pid: 0x05, default: FV::Str("ab".into()), lattice: vec![FV::Str("".into()), FV::Str("abc".into())], mandatory: true },
        Field { name: "type_name", pid: 0x07, default: FV::Str("cd".into()), lattice: vec![FV::Str("".into()), FV::Str("A::B".into())], mandatory: true },
        fld("type_information", 0x75, FV::TypeInfo(None), vec![FV::TypeInfo(Some(0)), FV::TypeInfo(Some(1))]),
        fld("durability", 0x1d, FV::Kind(0), vec![FV::Kind(1), FV::Kind(2), FV::Kind(3)]),
        fld("deadline", 0x23, FV::Dur(None), durs()),
        fld("latency_budget", 0x27, FV::Dur(Some((0, 0))), durs()),
        fld("liveliness", 0x1b, FV::KindDur(0, None), kdurs(&[0, 1, 2])),
        fld("reliability", 0x1a, FV::KindDur(1, Some((0, 100_000_000))), kdurs(&[1, 2])),
        fld("transport_priority", 0x49, FV::I32(0), vec![FV::I32(1), FV::I32(-1), FV::I32(i32::MAX), FV::I32(i32::MIN)]),
        fld("lifespan", 0x2b, FV::Dur(None), durs()),
        fld("destination_order", 0x25, FV::Kind(0), vec![FV::Kind(1)]),
        fld("history", 0x40, FV::Hist(0, 1), vec![FV::Hist(0, 2), FV::Hist(0, i32::MAX), FV::Hist(1, 1), FV::Hist(1, -1), FV::Hist(1, 5)]),
        fld("resource_limits", 0x41, FV::Rl(-1, -1, -1), vec![FV::Rl(1, -1, -1), FV::Rl(-1, 1, -1), FV::Rl(-1, -1, 1), FV::Rl(i32::MAX, i32::MAX, i32::MAX), FV::Rl(0, 0, 0)]),
        fld("ownership", 0x1f, FV::Kind(0), vec![FV::Kind(1)]),
        fld("topic_data", 0x2e, FV::Bytes(vec![]), datas(thorough)),
        fld("representation", 0x73, FV::I16Seq(vec![]), vec![FV::I16Seq(vec![0]), FV::I16Seq(vec![2]), FV::I16Seq(vec![2, 0])]),
    ]
}

pub fn participant_fields(thorough: bool) -> Vec<Field> {
    vec![
        fld("user_data", 0x2c, FV::Bytes(vec![]), datas(thorough)),
        Field { name: "key", pid: 0x50, default: FV::Guid([8, 8, 8, 8, 8, 8, 8, 8, 8, 8, 8, 8, 0, 0, 1, 0xc1]), lattice: vec![FV::Guid([0xff; 16])], mandatory: true },
        fld("domain_id", 0x0f, FV::OptU32(None), vec![FV::OptU32(Some(0)), FV::OptU32(Some(1)), FV::OptU32(Some(232)), FV::OptU32(Some(0x7fff_ffff))]),
        fld("domain_tag", 0x4014, FV::Str("".into()), vec![FV::Str("a".into()), FV::Str("abc".into()), FV::Str("abcd".into())]),
        Field { name: "protocol_version", pid: 0x15, default: FV::Two([2, 4]), lattice: vec![FV::Two([2, 1]), FV::Two([2, 5]), FV::Two([0xff, 0xff])], mandatory: true },
        Field { name: "vendor_id", pid: 0x16, default: FV::Two([1, 0x14]), lattice: vec![FV::Two([0, 0]), FV::Two([0xff, 0xff])], mandatory: true },
        fld("expects_inline_qos", 0x43, FV::Bool(false), vec![FV::Bool(true)]),
        fld("metatraffic_unicast_locator_list", 0x32, FV::Locs(vec![]), locs()),
        fld("metatraffic_multicast_locator_list", 0x33, FV::Locs(vec![]), locs()),
        fld("default_unicast_locator_list", 0x31, FV::Locs(vec![]), locs()),
        fld("default_multicast_locator_list", 0x48, FV::Locs(vec![]), locs()),
        Field { name: "available_builtin_endpoints", pid: 0x58, default: FV::U32(0xc3f), lattice: vec![FV::U32(0), FV::U32(0xffff_ffff)], mandatory: true },
        fld("manual_liveliness_count", 0x34, FV::I32(0), vec![FV::I32(1), FV::I32(-1), FV::I32(i32::MAX)]),
        fld("builtin_endpoint_qos", 0x77, FV::U32(0), vec![FV::U32(1 << 29), FV::U32(0xffff_ffff)]),
        fld("lease_duration", 0x02, FV::Dur(Some((100, 0))), vec![FV::Dur(Some((0, 0))), FV::Dur(Some((0, 1))), FV::Dur(Some((10, 11))), FV::Dur(Some((0x7fff_ffff, 0xffff_ffff))), FV::Dur(Some((1, 0x8000_0000)))]),
    ]
}

#[derive(Clone, Copy, PartialEq, Eq, Debug)]
pub enum Kind {
    Writer,
    Reader,
    Topic,
    Participant,
}
impl Kind {
    pub fn all() -> [Kind; 4] {
        [Kind::Writer, Kind::Reader, Kind::Topic, Kind::Participant]
    }
    pub fn name(self) -> &'static str {
        match self {
            Kind::Writer => "publication",
            Kind::Reader => "subscription",
            Kind::Topic => "topic",
            Kind::Participant => "participant",
        }
    }
    pub fn from_name(s: &str) -> Kind {
        match s {
            "publication" => Kind::Writer,
            "subscription" => Kind::Reader,
            "topic" => Kind::Topic,
            _ => Kind::Participant,
        }
    }
    pub fn fields(self, thorough: bool) -> Vec<Field> {
        match self {
            Kind::Writer => endpoint_fields(false, thorough),
            Kind::Reader => endpoint_fields(true, thorough),
            Kind::Topic => topic_fields(thorough),
            Kind::Participant => participant_fields(thorough),
        }
    }
}

/// how the announcement is put on the wire
#[derive(Clone, Copy, Debug, PartialEq)]
pub struct Wire {
    pub be: bool,
    /// parameters holding the default value are sent too
    pub send_defaults: bool,
    pub reversed: bool,
    /// splice an unknown parameter before parameter index `at` (== number of parameters: before the sentinel)
    pub unknown: Option<(u16, usize)>,
}
impl Wire {
    fn name(&self) -> String {
        format!(
            "{}{}{}{}",
            if self.be { "be" } else { "le" },
            if self.send_defaults { "+defaults-sent" } else { "" },
            if self.reversed { "+reversed" } else { "" },
            match self.unknown {
                Some((p, _)) => format!("+unknown-pid-{p:#06x}"),
                None => String::new(),
            }
        )
    }
}

/// assignment: one value per field
pub fn encode(fields: &[Field], vals: &[FV], w: &Wire) -> (Vec<u8>, usize) {
    let mut params: Vec<(u16, Vec<u8>)> = Vec::new();
    for (f, v) in fields.iter().zip(vals) {
        if !w.send_defaults && !f.mandatory && *v == f.default {
            continue;
        }
        for b in bodies(v, w.be) {
            params.push((f.pid, b));
        }
    }
    if w.reversed {
        params.reverse();
    }
    let n = params.len();
    if let Some((pid, at)) = w.unknown {
        let at = at.min(n);
        params.insert(at, (pid, vec![0xde, 0xad, 0xbe, 0xef, 1, 2, 3]));
    }
    let mut out = vec![0, if w.be { 2 } else { 3 }, 0, 0];
    for (pid, mut body) in params {
        while body.len() % 4 != 0 {
            body.push(0);
        }
        assert!(body.len() <= 0xffff, "parameter too long for the 16 bit length");
        out.extend_from_slice(&if w.be { pid.to_be_bytes() } else { pid.to_le_bytes() });
        out.extend_from_slice(&if w.be { (body.len() as u16).to_be_bytes() } else { (body.len() as u16).to_le_bytes() });
        out.extend_from_slice(&body);
    }
    out.extend_from_slice(&if w.be { [0, 1, 0, 0] } else { [1, 0, 0, 0] });
    (out, n)
}

// ---------------------------------------------------------------------------------------------------------------
// calling dust-dds

/// Ok((debug rendering, re-encoded bytes, debug rendering of the re-decoded value, re-decoded == decoded))
fn roundtrip(kind: Kind, bytes: &[u8]) -> Result<(String, Vec<u8>, Result<String, String>, bool), String> {
    macro_rules! go {
        ($t:ty) => {{
            let x = <$t>::from_bytes(bytes).map_err(|e| format!("from_bytes: {e:?}"))?;
            let d = format!("{:?}", x);
            let b2 = x.clone().into_bytes();
            match <$t>::from_bytes(&b2) {
                Ok(x2) => {
                    let eq = x2 == x;
                    Ok((d, b2, Ok(format!("{:?}", x2)), eq))
                }
                Err(e) => Ok((d, b2, Err(format!("{e:?}")), false)),
            }
        }};
    }
    let r = std::panic::catch_unwind(std::panic::AssertUnwindSafe(|| -> Result<(String, Vec<u8>, Result<String, String>, bool), String> {
        match kind {
            Kind::Writer => go!(DiscoveredWriterData),
            Kind::Reader => go!(DiscoveredReaderData),
            Kind::Topic => go!(DiscoveredTopicData),
            Kind::Participant => go!(SpdpDiscoveredParticipantData),
        }
    }));
    match r {
        Ok(x) => x,
        Err(p) => Err(format!("panic: {}", panic_msg(p))),
    }
}

/// failure categories + detail of one case
pub fn eval(kind: Kind, fields: &[Field], vals: &[FV], w: &Wire, baseline: Option<&str>) -> (Vec<(String, String)>, Option<String>) {
    let (bytes, _) = encode(fields, vals, w);
    let mut fails = Vec::new();
    let shown = if bytes.len() > 200 { format!("{}..({} bytes)", hex(&bytes[..120]), bytes.len()) } else { hex(&bytes) };
    match roundtrip(kind, &bytes) {
        Err(e) => {
            let cat = if e.starts_with("panic") { format!("panic/from-bytes/{}", msg_class(&e)) } else { "announcement-rejected".to_string() };
            fails.push((cat, format!("{e}; bytes {shown}")));
            (fails, None)
        }
        Ok((dbg, b2, dbg2, eq)) => {
            for (f, v) in fields.iter().zip(vals) {
                // the order of a locator list is the order of its parameters on the wire
                let v = &match v {
                    FV::Locs(l) if w.reversed => FV::Locs(l.iter().rev().cloned().collect()),
                    o => o.clone(),
                };
                if let Some(e) = expect(f.name, v) {
                    if !dbg.contains(&e) {
                        // what did it decode to? show the text following the field name
                        let got = dbg.find(&format!("{}: ", f.name)).map(|i| dbg[i..].chars().take(140).collect::<String>()).unwrap_or_default();
                        fails.push((format!("decoded-value/{}", f.name), format!("announced `{}` but decoded `{}..`; bytes {shown}", if e.len() > 200 { &e[..200] } else { &e }, got)));
                    }
                }
            }
            if !eq {
                let d2 = match &dbg2 {
                    Ok(d) => first_difference(&dbg, d),
                    Err(e) => format!("from_bytes(into_bytes(x)) failed: {e}"),
                };
                fails.push(("reencode-roundtrip".into(), format!("from_bytes(into_bytes(x)) != x: {d2}; first encoding {shown}; re-encoding {}", if b2.len() > 200 { format!("{}..({} bytes)", hex(&b2[..120]), b2.len()) } else { hex(&b2) })));
            }
            if let Some(base) = baseline {
                if base != dbg {
                    fails.push(("unknown-parameter-not-ignored".into(), format!("decoded value changes when the unknown parameter is present: {}; bytes {shown}", first_difference(base, &dbg))));
                }
            }
            (fails, Some(dbg))
        }
    }
}

fn first_difference(a: &str, b: &str) -> String {
    let i = a.bytes().zip(b.bytes()).position(|(x, y)| x != y).unwrap_or(a.len().min(b.len()));
    let s = i.saturating_sub(60);
    let cut = |x: &str| {
        let mut s2 = s;
        while !x.is_char_boundary(s2) {
            s2 -= 1;
        }
        x[s2..].chars().take(160).collect::<String>()
    };
    format!("`..{}` vs `..{}`", cut(a), cut(b))
}

fn replay_json(kind: Kind, fields: &[Field], vals: &[FV], w: &Wire) -> Value {
    let (bytes, _) = encode(fields, vals, w);
    let changed: Vec<Value> = fields.iter().zip(vals).filter(|(f, v)| **v != f.default).map(|(f, v)| json!({"field": f.name, "value": v.to_json()})).collect();
    let expects: Vec<String> = fields
        .iter()
        .zip(vals)
        .filter_map(|(f, v)| match v {
            FV::Locs(l) if w.reversed => expect(f.name, &FV::Locs(l.iter().rev().cloned().collect())),
            o => expect(f.name, o),
        })
        .filter(|e| e.len() < 400)
        .collect();
    let mut j = json!({"check": "C13", "kind": kind.name(), "wire": w.name(), "changed": changed, "expects": expects});
    if w.unknown.is_some() {
        let (b0, _) = encode(fields, vals, &Wire { unknown: None, ..*w });
        if b0.len() <= 4096 {
            j["baseline_bytes"] = json!(hex(&b0));
        }
    }
    // the bytes are the replayable artefact (truncated encodings are re-generated from the description when too long)
    if bytes.len() <= 4096 {
        j["bytes"] = json!(hex(&bytes));
    } else {
        j["bytes_len"] = json!(bytes.len());
        j["regen"] = json!({"vals": vals.iter().map(|v| match v { FV::Bytes(b) => json!({"Bytes": b.len()}), o => json!(format!("{o:?}")) }).collect::<Vec<_>>()});
    }
    j
}

fn value_class(v: &FV) -> String {
    match v {
        FV::Bytes(b) => format!("{}-bytes", b.len()),
        FV::Dur(None) | FV::KindDur(_, None) => "infinite".into(),
        FV::Dur(Some((_, n))) if *n >= 1_000_000_000 => "nanosec-above-1e9".into(),
        FV::Dur(Some((s, _))) if *s < 0 => "negative".into(),
        FV::Pres(2, _, _) => "group-scope".into(),
        FV::Locs(l) => format!("{}-locators", l.len()),
        FV::StrSeq(s) => format!("{}-names", s.len()),
        FV::TypeInfo(Some(n)) => format!("type-{n}"),
        _ => "value".into(),
    }
}

pub fn run(args: &Args, rep: &mut Report) {
    install_quiet_panic_hook();
    let thorough = args.thorough();
    let mut k = 0usize;
    let unknown_pids: [u16; 5] = [0x8001, 0x8000 | 0x3abc, 0x0f00, 0x4f00, 0xc001];
    for kind in Kind::all() {
        let fields = kind.fields(thorough);
        let defaults: Vec<FV> = fields.iter().map(|f| f.default.clone()).collect();
        // assignments: base, every single-field variation, (thorough) every pair of variations of two different fields
        let mut assignments: Vec<(Vec<FV>, String)> = vec![(defaults.clone(), "all-default".into())];
        for (i, f) in fields.iter().enumerate() {
            for v in &f.lattice {
                let mut a = defaults.clone();
                a[i] = v.clone();
                assignments.push((a, format!("{}={}", f.name, value_class(v))));
            }
        }
        if thorough {
            for i in 0..fields.len() {
                for j in i + 1..fields.len() {
                    for (vi, a) in fields[i].lattice.iter().enumerate() {
                        for (vj, b) in fields[j].lattice.iter().enumerate() {
                            // the large octet sequences are only paired with the first value of the other field
                            let big = |v: &FV| matches!(v, FV::Bytes(x) if x.len() > 1024);
                            if (big(a) && vj > 0) || (big(b) && vi > 0) {
                                continue;
                            }
                            let mut x = defaults.clone();
                            x[i] = a.clone();
                            x[j] = b.clone();
                            assignments.push((x, format!("{}={}+{}={}", fields[i].name, value_class(a), fields[j].name, value_class(b))));
                        }
                    }
                }
            }
        }
        rep.set(&format!("cfg_assignments_{}", kind.name()), json!(assignments.len()));
        let mut base_fail_cats: std::collections::HashMap<String, Vec<String>> = std::collections::HashMap::new();
        for (vals, vname) in &assignments {
            let plain_wires = [
                Wire { be: false, send_defaults: false, reversed: false, unknown: None },
                Wire { be: false, send_defaults: true, reversed: false, unknown: None },
                Wire { be: false, send_defaults: true, reversed: true, unknown: None },
                Wire { be: true, send_defaults: false, reversed: false, unknown: None },
                Wire { be: true, send_defaults: true, reversed: false, unknown: None },
            ];
            for w in plain_wires {
                if w.be && vals.iter().any(|v| matches!(v, FV::TypeInfo(Some(_)))) {
                    continue; // no big endian TypeInformation body available (see FV::TypeInfo)
                }
                k += 1;
                if !args.mine(k) {
                    continue;
                }
                rep.evaluations += 1;
                let (fails, dbg) = eval(kind, &fields, vals, &w, None);
                // failures that the all-default announcement shows as well do not depend on the varied value
                let bcats = base_fail_cats.entry(w.name()).or_insert_with(|| eval(kind, &fields, &defaults, &w, None).0.into_iter().map(|(c, _)| c).collect()).clone();
                let fails: Vec<(String, String)> = fails.into_iter().map(|(c, d)| if bcats.contains(&c) && !c.starts_with("decoded-value/") { (format!("{c}@any"), d) } else { (c, d) }).collect();
                report(rep, kind, &fields, vals, vname, &w, &fails);
                if fails.is_empty() {
                    rep.distinct(format!("ok/{}/{}/{}", kind.name(), w.name(), vname.split('=').next().unwrap_or("")));
                    if rep.samples.len() < 3 {
                        rep.sample(json!({"kind": kind.name(), "wire": w.name(), "case": vname, "decoded": dbg.as_ref().map(|d| d.chars().take(300).collect::<String>())}));
                    }
                }
                // unknown / vendor parameters at every boundary; only for single-field variations (and the base)
                if vname.contains('+') || w.reversed || vals.iter().any(|v| matches!(v, FV::Bytes(b) if b.len() > 1024)) {
                    continue;
                }
                let Some(base) = dbg else { continue };
                let (_, n) = encode(&fields, vals, &w);
                for pid in unknown_pids {
                    for at in 0..=n {
                        rep.evaluations += 1;
                        let w2 = Wire { unknown: Some((pid, at)), ..w };
                        let (fails, _) = eval(kind, &fields, vals, &w2, Some(&base));
                        // only the failures caused by the unknown parameter
                        let fails: Vec<(String, String)> = fails.into_iter().filter(|(c, _)| c == "unknown-parameter-not-ignored" || c == "announcement-rejected" || c.starts_with("panic")).collect();
                        if fails.is_empty() {
                            rep.distinct(format!("ok/{}/unknown-pid-{:#06x}-ignored", kind.name(), pid));
                        }
                        report(rep, kind, &fields, vals, vname, &w2, &fails);
                    }
                }
            }
        }
    }
}

fn report(rep: &mut Report, kind: Kind, fields: &[Field], vals: &[FV], vname: &str, w: &Wire, fails: &[(String, String)]) {
    for (cat, detail) in fails {
        // signature: category / announcement kind / byte order (+ what was varied for value-independent categories)
        let wire_class = format!("{}{}", if w.be { "be" } else { "le" }, match w.unknown {
            Some((p, _)) => format!("/unknown-pid-{}{}", if p & 0x8000 != 0 { "vendor" } else { "standard-range" }, if p & 0x4000 != 0 { "-must-understand" } else { "" }),
            None => String::new(),
        });
        let sig = if cat.starts_with("decoded-value/") {
            // which value of that field
            let fname = &cat["decoded-value/".len()..];
            let vc = fields.iter().zip(vals).find(|(f, _)| f.name == fname).map(|(_, v)| value_class(v)).unwrap_or_default();
            format!("{}/{}/{}/{}", cat, vc, kind.name(), wire_class)
        } else if let Some(c) = cat.strip_suffix("@any") {
            format!("{}/{}/{}/any-value", c, kind.name(), wire_class)
        } else {
            format!("{}/{}/{}/{}", cat, kind.name(), wire_class, vname)
        };
        rep.distinct(format!("fail/{sig}"));
        rep.finding(sig, format!("{} announcement, {} [{}]: {}", kind.name(), vname, w.name(), detail), replay_json(kind, fields, vals, w));
    }
}

pub fn replay(v: &Value) -> bool {
    install_quiet_panic_hook();
    let kind = Kind::from_name(v["kind"].as_str().unwrap_or("publication"));
    let bytes = match v["bytes"].as_str() {
        Some(h) => unhex(h),
        None => {
            println!("the stored case is too long to be stored as bytes; it is described by: {}", v["changed"]);
            // regenerate: a single large octet sequence field
            let fields = kind.fields(true);
            let mut vals: Vec<FV> = fields.iter().map(|f| f.default.clone()).collect();
            for c in v["changed"].as_array().cloned().unwrap_or_default() {
                let name = c["field"].as_str().unwrap_or("");
                if let Some(i) = fields.iter().position(|f| f.name == name) {
                    if let Some(n) = c["value"]["Bytes"]["len"].as_u64() {
                        vals[i] = FV::Bytes(pattern(n as usize));
                    } else if let Some(lv) = fields[i].lattice.iter().find(|lv| lv.to_json() == c["value"]) {
                        vals[i] = lv.clone();
                    }
                }
            }
            let wn = v["wire"].as_str().unwrap_or("le");
            let w = Wire { be: wn.starts_with("be"), send_defaults: wn.contains("defaults-sent"), reversed: wn.contains("reversed"), unknown: None };
            encode(&fields, &vals, &w).0
        }
    };
    println!("{} announcement, {} bytes", kind.name(), bytes.len());
    match roundtrip(kind, &bytes) {
        Err(e) => {
            println!("{e}");
            false
        }
        Ok((d, b2, d2, eq)) => {
            println!("decoded   : {}", d.chars().take(3000).collect::<String>());
            println!("re-encoded: {} bytes", b2.len());
            println!("re-decoded equal: {eq} {}", d2.err().unwrap_or_default());
            let mut ok = eq;
            for e in v["expects"].as_array().cloned().unwrap_or_default() {
                let e = e.as_str().unwrap_or("").to_string();
                if !d.contains(&e) {
                    println!("announced value not found in the decoded data: {e}");
                    ok = false;
                }
            }
            if let Some(b0) = v["baseline_bytes"].as_str() {
                match roundtrip(kind, &unhex(b0)) {
                    Ok((d0, ..)) if d0 == d => {}
                    _ => {
                        println!("decoded value differs from the one without the unknown parameter");
                        ok = false;
                    }
                }
            }
            ok
        }
    }
}
