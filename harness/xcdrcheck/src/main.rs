//! E3 xcdrcheck: bounded-exhaustive type x value enumeration for the XCDR / key-hash / discovery-data properties.
use vutil::{Args, Report};

fn main() {
    let args = Args::parse();
    let mut rep = Report::new();
    rep.machinery_error = Some(format!("xcdrcheck: check {} not implemented yet", args.id));
    rep.write(&args);
}
