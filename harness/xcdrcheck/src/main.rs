//! E3 xcdrcheck: bounded-exhaustive type x value enumeration for the XCDR / key-hash / discovery-data properties.
use vutil::{Args, Report};

mod ast;
mod bridge;
mod disc;
mod evol;
mod keys;
mod refcodec;
mod xcdr;

fn main() {
    let args = Args::parse();
    let mut rep = Report::new();
    if let Some(path) = &args.replay {
        let v = vutil::read_replay(path);
        let id = if args.id.is_empty() { v["check"].as_str().unwrap_or("").to_string() } else { args.id.clone() };
        let ok = match id.as_str() {
            "C09" => xcdr::replay_c09(&v),
            "C10" => xcdr::replay_c10(&v),
            "C11" | "C12" => keys::replay(&v),
            "C13" => disc::replay(&v),
            "C39" => evol::replay(&v),
            _ => {
                eprintln!("no replay for {}", id);
                std::process::exit(2)
            }
        };
        println!("{}", if ok { "PASS" } else { "FAIL" });
        std::process::exit(if ok { 0 } else { 1 });
    }
    let t0 = std::time::Instant::now();
    match args.id.as_str() {
        "C09" => xcdr::run_c09(&args, &mut rep),
        "C10" => xcdr::run_c10(&args, &mut rep),
        "C11" => keys::run_c11(&args, &mut rep),
        "C12" => keys::run_c12(&args, &mut rep),
        "C13" => disc::run(&args, &mut rep),
        "C39" => evol::run(&args, &mut rep),
        other => {
            rep.machinery_error = Some(format!("xcdrcheck: unknown check {other}"));
        }
    }
    rep.set("wall_ms", vutil::serde_json::json!(t0.elapsed().as_millis() as u64));
    rep.write(&args);
}
