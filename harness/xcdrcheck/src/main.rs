//! E3 xcdrcheck: bounded-exhaustive type x value enumeration for the XCDR / key-hash / discovery-data properties.
use vutil::{Args, Report};

mod ast;
mod bridge;
mod disc;
mod evol;
mod keys;
mod refcodec;
mod xcdr;

fn main() {
    let args = Args::parse();
    let mut rep = Report::new();
    if let Some(path) = &args.replay {
        let v = vutil::read_replay(path);
        let id = if args.id.is_empty() { v["check"].as_str().unwrap_or("").to_string() } else { args.id.clone() };
        let ok = match id.as_str() {
            "C09" => xcdr::replay_c09(&v),
            "C10" => xcdr::replay_c10(&v),
            "C11" | "C12" => keys::replay(&v),
            "C13" => disc::replay(&v),
            "C39" => evol::replay(&v),
            _ => {
                eprintln!("no replay for {}", id);
                std::process::exit(2)
            }
        };
        println!("{}", if ok { "PASS" } else { "FAIL" });
        std::process::exit(if ok { 0 } else { 1 });
    }
    let t0 = std::time::Instant::now();
    match args.id.as_str() {
        "C09" => xcdr::run_c09(&args, &mut rep),
        "C10" => xcdr::run_c10(&args, &mut rep),
        "C11" => keys::run_c11(&args, &mut rep),
        "C12" => keys::run_c12(&args, &mut rep),
        "C13" => disc::run(&args, &mut rep),
        "C39" => evol::run(&args, &mut rep),
        other => {
            rep.machinery_error = Some(format!("xcdrcheck: unknown check {other}"));
        }
    }
    // Deviations from the REFERENCE that are not violations of the properties (the reference is one reading of the
    // standard; these points are read differently by different vendors or are not fixed by the property text):
    //  - wstring: length as UTF-16 unit count including a NUL unit + NUL terminator (dust-dds) vs byte length without
    //    NUL (reference); rule (4) is read both ways, the round trip (C09) holds either way;
    //  - key hash: property C12 says "big-endian XCDR serialization of the key members" without fixing the XCDR version
    //    or the member order; dust-dds consistently uses the version 1 alignment and declaration order.
    // Findings whose only named cause is one of these are recorded as accepted alternatives, not as findings.
    const ACCEPTED: [&str; 4] = ["wstring-unit-count-with-nul", "expects-wstring-unit-count-with-nul", "xcdr1-alignment", "declaration-order"];
    let mut accepted: std::collections::BTreeMap<String, u64> = Default::default();
    rep.findings.retain(|f| {
        let sig = f["sig"].as_str().unwrap_or("").to_string();
        let hit = sig.split('/').any(|part| !part.is_empty() && part.split('+').all(|n| ACCEPTED.contains(&n)));
        if hit {
            *accepted.entry(sig).or_insert(0) += 1;
        }
        !hit
    });
    for sig in accepted.keys() {
        rep.distinct(format!("accepted-alternative/{sig}"));
    }
    if !accepted.is_empty() {
        rep.set("accepted_alternatives", vutil::serde_json::json!(accepted));
    }
    rep.set("wall_ms", vutil::serde_json::json!(t0.elapsed().as_millis() as u64));
    rep.write(&args);
}
