//! Own small type / value AST (independent of dust-dds) + the finite value lattice L-val + JSON (replay) forms.
use std::rc::Rc;
use vutil::serde_json::{json, Value};

#[derive(Clone, Copy, PartialEq, Eq, Debug, Hash, PartialOrd, Ord)]
pub enum Ext {
    Final,
    Appendable,
    Mutable,
}
impl Ext {
    pub fn all() -> [Ext; 3] {
        [Ext::Final, Ext::Appendable, Ext::Mutable]
    }
    pub fn name(self) -> &'static str {
        match self {
            Ext::Final => "final",
            Ext::Appendable => "appendable",
            Ext::Mutable => "mutable",
        }
    }
    pub fn from_name(s: &str) -> Ext {
        match s {
            "final" => Ext::Final,
            "appendable" => Ext::Appendable,
            _ => Ext::Mutable,
        }
    }
}

#[derive(Clone, Copy, PartialEq, Eq, Debug, Hash, PartialOrd, Ord)]
pub enum Prim {
    Bool,
    U8,
    I8,
    I16,
    U16,
    I32,
    U32,
    I64,
    U64,
    F32,
    F64,
    Char8,
}
impl Prim {
    pub fn size(self) -> usize {
        match self {
            Prim::Bool | Prim::U8 | Prim::I8 | Prim::Char8 => 1,
            Prim::I16 | Prim::U16 => 2,
            Prim::I32 | Prim::U32 | Prim::F32 => 4,
            Prim::I64 | Prim::U64 | Prim::F64 => 8,
        }
    }
    pub fn name(self) -> &'static str {
        match self {
            Prim::Bool => "bool",
            Prim::U8 => "u8",
            Prim::I8 => "i8",
            Prim::I16 => "i16",
            Prim::U16 => "u16",
            Prim::I32 => "i32",
            Prim::U32 => "u32",
            Prim::I64 => "i64",
            Prim::U64 => "u64",
            Prim::F32 => "f32",
            Prim::F64 => "f64",
            Prim::Char8 => "char8",
        }
    }
    pub fn from_name(s: &str) -> Option<Prim> {
        Some(match s {
            "bool" => Prim::Bool,
            "u8" => Prim::U8,
            "i8" => Prim::I8,
            "i16" => Prim::I16,
            "u16" => Prim::U16,
            "i32" => Prim::I32,
            "u32" => Prim::U32,
            "i64" => Prim::I64,
            "u64" => Prim::U64,
            "f32" => Prim::F32,
            "f64" => Prim::F64,
            "char8" => Prim::Char8,
            _ => return None,
        })
    }
}

#[derive(Clone, PartialEq, Debug)]
pub struct EnumTy {
    pub name: String,
    pub lits: Vec<(String, i32)>,
}
#[derive(Clone, PartialEq, Debug)]
pub struct Member {
    pub name: String,
    pub id: u32,
    pub ty: Ty,
    pub key: bool,
    pub opt: bool,
}
#[derive(Clone, PartialEq, Debug)]
pub struct StructTy {
    pub name: String,
    pub ext: Ext,
    pub members: Vec<Member>,
}
#[derive(Clone, PartialEq, Debug)]
pub struct Case {
    pub name: String,
    pub id: u32,
    pub labels: Vec<i32>,
    pub default: bool,
    pub ty: Ty,
}
#[derive(Clone, PartialEq, Debug)]
pub struct UnionTy {
    pub name: String,
    pub ext: Ext,
    pub disc: Prim,
    pub cases: Vec<Case>,
}

#[derive(Clone, PartialEq, Debug)]
pub enum Ty {
    Prim(Prim),
    /// string8 with bound (0 = unbounded)
    Str(u32),
    WStr,
    Enum(Rc<EnumTy>),
    /// element, bound (0 = unbounded)
    Seq(Box<Ty>, u32),
    Arr(Box<Ty>, u32),
    Struct(Rc<StructTy>),
    Union(Rc<UnionTy>),
}

#[derive(Clone, Debug)]
pub enum Val {
    Bool(bool),
    U8(u8),
    I8(i8),
    I16(i16),
    U16(u16),
    I32(i32),
    U32(u32),
    I64(i64),
    U64(u64),
    /// bit pattern
    F32(u32),
    /// bit pattern
    F64(u64),
    /// unicode scalar (dust stores char8 as `char`); the wire form is one byte
    Char(u32),
    Str(String),
    WStr(String),
    Enum(i32),
    Seq(Vec<Val>),
    Arr(Vec<Val>),
    /// one entry per member, None = absent (optional, or missing after decoding with another type)
    Struct(Vec<Option<Val>>),
    /// discriminator, selected case index + value (None = no case selected)
    Union(i64, Option<(usize, Box<Val>)>),
}
impl PartialEq for Val {
    fn eq(&self, o: &Val) -> bool {
        use Val::*;
        match (self, o) {
            (Bool(a), Bool(b)) => a == b,
            (U8(a), U8(b)) => a == b,
            (I8(a), I8(b)) => a == b,
            (I16(a), I16(b)) => a == b,
            (U16(a), U16(b)) => a == b,
            (I32(a), I32(b)) => a == b,
            (U32(a), U32(b)) => a == b,
            (I64(a), I64(b)) => a == b,
            (U64(a), U64(b)) => a == b,
            (F32(a), F32(b)) => a == b,
            (F64(a), F64(b)) => a == b,
            (Char(a), Char(b)) => a == b,
            (Str(a), Str(b)) => a == b,
            (WStr(a), WStr(b)) => a == b,
            (Enum(a), Enum(b)) => a == b,
            (Seq(a), Seq(b)) => a == b,
            (Arr(a), Arr(b)) => a == b,
            (Struct(a), Struct(b)) => a == b,
            (Union(a, x), Union(b, y)) => a == b && x == y,
            _ => false,
        }
    }
}

impl Val {
    pub fn has_nan(&self) -> bool {
        match self {
            Val::F32(b) => f32::from_bits(*b).is_nan(),
            Val::F64(b) => f64::from_bits(*b).is_nan(),
            Val::Seq(v) | Val::Arr(v) => v.iter().any(|x| x.has_nan()),
            Val::Struct(v) => v.iter().flatten().any(|x| x.has_nan()),
            Val::Union(_, Some((_, x))) => x.has_nan(),
            _ => false,
        }
    }
}

// ---------------------------------------------------------------------------------------------------------------
// textual forms

impl Ty {
    /// short kind name used in shape classes
    pub fn kind_name(&self) -> String {
        match self {
            Ty::Prim(p) => p.name().into(),
            Ty::Str(0) => "string".into(),
            Ty::Str(b) => format!("string{b}"),
            Ty::WStr => "wstring".into(),
            Ty::Enum(_) => "enum".into(),
            Ty::Seq(e, _) => format!("seq-{}", e.kind_name()),
            Ty::Arr(e, n) => format!("arr{}-{}", n, e.kind_name()),
            Ty::Struct(s) => {
                if s.name.starts_with("In") {
                    format!("{}-struct", s.ext.name())
                } else {
                    format!("{}-struct-{}", s.ext.name(), s.name)
                }
            }
            Ty::Union(u) => format!("{}-union", u.ext.name()),
        }
    }
    pub fn idl(&self) -> String {
        match self {
            Ty::Prim(p) => p.name().into(),
            Ty::Str(0) => "string".into(),
            Ty::Str(b) => format!("string<{b}>"),
            Ty::WStr => "wstring".into(),
            Ty::Enum(e) => format!("enum {}{{{}}}", e.name, e.lits.iter().map(|(n, v)| format!("{n}={v}")).collect::<Vec<_>>().join(",")),
            Ty::Seq(e, 0) => format!("sequence<{}>", e.idl()),
            Ty::Seq(e, b) => format!("sequence<{},{}>", e.idl(), b),
            Ty::Arr(e, n) => format!("{}[{}]", e.idl(), n),
            Ty::Struct(s) => s.idl(),
            Ty::Union(u) => format!(
                "@{} union {} switch({}){{{}}}",
                u.ext.name(),
                u.name,
                u.disc.name(),
                u.cases
                    .iter()
                    .map(|c| format!(
                        "{}{} @id({}) {} {};",
                        c.labels.iter().map(|l| format!("case {l}: ")).collect::<String>(),
                        if c.default { "default: " } else { "" },
                        c.id,
                        c.ty.idl(),
                        c.name
                    ))
                    .collect::<Vec<_>>()
                    .join(" ")
            ),
        }
    }
}
impl StructTy {
    pub fn idl(&self) -> String {
        format!(
            "@{} struct {}{{{}}}",
            self.ext.name(),
            self.name,
            self.members
                .iter()
                .map(|m| format!("@id({}){}{} {} {};", m.id, if m.key { " @key" } else { "" }, if m.opt { " @optional" } else { "" }, m.ty.idl(), m.name))
                .collect::<Vec<_>>()
                .join(" ")
        )
    }
}
impl Member {
    pub fn desc(&self) -> String {
        format!("{}{}", if self.key { "key-" } else if self.opt { "optional-" } else { "" }, self.ty.kind_name())
    }
}

pub fn id_style(members: &[Member]) -> &'static str {
    if members.iter().any(|m| m.id > 16383) {
        "large-id"
    } else if members.iter().enumerate().all(|(i, m)| m.id == i as u32) {
        "seq-id"
    } else {
        "sparse-id"
    }
}

/// `final/u8+optional-string[/sparse-id]`
pub fn shape_class(s: &StructTy) -> String {
    let mut c = format!("{}/{}", s.ext.name(), s.members.iter().map(|m| m.desc()).collect::<Vec<_>>().join("+"));
    let st = id_style(&s.members);
    if st != "seq-id" {
        c.push('/');
        c.push_str(st);
    }
    c
}

// ---------------------------------------------------------------------------------------------------------------
// JSON

pub fn ty_to_json(t: &Ty) -> Value {
    match t {
        Ty::Prim(p) => json!(p.name()),
        Ty::Str(b) => json!({"k":"str","bound":b}),
        Ty::WStr => json!("wstring"),
        Ty::Enum(e) => json!({"k":"enum","name":e.name,"lits":e.lits.iter().map(|(n,v)| json!([n,v])).collect::<Vec<_>>()}),
        Ty::Seq(e, b) => json!({"k":"seq","elem":ty_to_json(e),"bound":b}),
        Ty::Arr(e, n) => json!({"k":"arr","elem":ty_to_json(e),"n":n}),
        Ty::Struct(s) => struct_to_json(s),
        Ty::Union(u) => json!({"k":"union","name":u.name,"ext":u.ext.name(),"disc":u.disc.name(),
            "cases":u.cases.iter().map(|c| json!({"name":c.name,"id":c.id,"labels":c.labels,"default":c.default,"ty":ty_to_json(&c.ty)})).collect::<Vec<_>>()}),
    }
}
pub fn struct_to_json(s: &StructTy) -> Value {
    json!({"k":"struct","name":s.name,"ext":s.ext.name(),
        "members":s.members.iter().map(|m| json!({"name":m.name,"id":m.id,"key":m.key,"opt":m.opt,"ty":ty_to_json(&m.ty)})).collect::<Vec<_>>()})
}
pub fn ty_from_json(v: &Value) -> Ty {
    if let Some(s) = v.as_str() {
        if s == "wstring" {
            return Ty::WStr;
        }
        return Ty::Prim(Prim::from_name(s).expect("prim name"));
    }
    match v["k"].as_str().unwrap() {
        "str" => Ty::Str(v["bound"].as_u64().unwrap() as u32),
        "enum" => Ty::Enum(Rc::new(EnumTy {
            name: v["name"].as_str().unwrap().into(),
            lits: v["lits"].as_array().unwrap().iter().map(|l| (l[0].as_str().unwrap().to_string(), l[1].as_i64().unwrap() as i32)).collect(),
        })),
        "seq" => Ty::Seq(Box::new(ty_from_json(&v["elem"])), v["bound"].as_u64().unwrap() as u32),
        "arr" => Ty::Arr(Box::new(ty_from_json(&v["elem"])), v["n"].as_u64().unwrap() as u32),
        "struct" => Ty::Struct(Rc::new(struct_from_json(v))),
        "union" => Ty::Union(Rc::new(UnionTy {
            name: v["name"].as_str().unwrap().into(),
            ext: Ext::from_name(v["ext"].as_str().unwrap()),
            disc: Prim::from_name(v["disc"].as_str().unwrap()).unwrap(),
            cases: v["cases"]
                .as_array()
                .unwrap()
                .iter()
                .map(|c| Case {
                    name: c["name"].as_str().unwrap().into(),
                    id: c["id"].as_u64().unwrap() as u32,
                    labels: c["labels"].as_array().unwrap().iter().map(|l| l.as_i64().unwrap() as i32).collect(),
                    default: c["default"].as_bool().unwrap(),
                    ty: ty_from_json(&c["ty"]),
                })
                .collect(),
        })),
        k => panic!("bad type json kind {k}"),
    }
}
pub fn struct_from_json(v: &Value) -> StructTy {
    StructTy {
        name: v["name"].as_str().unwrap().into(),
        ext: Ext::from_name(v["ext"].as_str().unwrap()),
        members: v["members"]
            .as_array()
            .unwrap()
            .iter()
            .map(|m| Member {
                name: m["name"].as_str().unwrap().into(),
                id: m["id"].as_u64().unwrap() as u32,
                key: m["key"].as_bool().unwrap(),
                opt: m["opt"].as_bool().unwrap(),
                ty: ty_from_json(&m["ty"]),
            })
            .collect(),
    }
}

pub fn val_to_json(v: &Val) -> Value {
    match v {
        Val::Bool(b) => json!({"bool":b}),
        Val::U8(x) => json!({"u8":x}),
        Val::I8(x) => json!({"i8":x}),
        Val::I16(x) => json!({"i16":x}),
        Val::U16(x) => json!({"u16":x}),
        Val::I32(x) => json!({"i32":x}),
        Val::U32(x) => json!({"u32":x}),
        Val::I64(x) => json!({"i64":x.to_string()}),
        Val::U64(x) => json!({"u64":x.to_string()}),
        Val::F32(b) => json!({"f32bits":b, "approx": format!("{:?}", f32::from_bits(*b))}),
        Val::F64(b) => json!({"f64bits":b.to_string(), "approx": format!("{:?}", f64::from_bits(*b))}),
        Val::Char(c) => json!({"char":c}),
        Val::Str(s) => json!({"str":s}),
        Val::WStr(s) => json!({"wstr":s}),
        Val::Enum(e) => json!({"enum":e}),
        Val::Seq(x) => json!({"seq":x.iter().map(val_to_json).collect::<Vec<_>>()}),
        Val::Arr(x) => json!({"arr":x.iter().map(val_to_json).collect::<Vec<_>>()}),
        Val::Struct(x) => json!({"struct":x.iter().map(|m| m.as_ref().map(val_to_json).unwrap_or(Value::Null)).collect::<Vec<_>>()}),
        Val::Union(d, c) => json!({"union":{"disc":d,"case":c.as_ref().map(|(i,v)| json!([i, val_to_json(v)])).unwrap_or(Value::Null)}}),
    }
}
pub fn val_from_json(v: &Value) -> Val {
    let o = v.as_object().expect("value object");
    let (k, x) = o.iter().find(|(k, _)| k.as_str() != "approx").unwrap();
    match k.as_str() {
        "bool" => Val::Bool(x.as_bool().unwrap()),
        "u8" => Val::U8(x.as_u64().unwrap() as u8),
        "i8" => Val::I8(x.as_i64().unwrap() as i8),
        "i16" => Val::I16(x.as_i64().unwrap() as i16),
        "u16" => Val::U16(x.as_u64().unwrap() as u16),
        "i32" => Val::I32(x.as_i64().unwrap() as i32),
        "u32" => Val::U32(x.as_u64().unwrap() as u32),
        "i64" => Val::I64(x.as_str().unwrap().parse().unwrap()),
        "u64" => Val::U64(x.as_str().unwrap().parse().unwrap()),
        "f32bits" => Val::F32(x.as_u64().unwrap() as u32),
        "f64bits" => Val::F64(x.as_str().unwrap().parse().unwrap()),
        "char" => Val::Char(x.as_u64().unwrap() as u32),
        "str" => Val::Str(x.as_str().unwrap().into()),
        "wstr" => Val::WStr(x.as_str().unwrap().into()),
        "enum" => Val::Enum(x.as_i64().unwrap() as i32),
        "seq" => Val::Seq(x.as_array().unwrap().iter().map(val_from_json).collect()),
        "arr" => Val::Arr(x.as_array().unwrap().iter().map(val_from_json).collect()),
        "struct" => Val::Struct(x.as_array().unwrap().iter().map(|m| if m.is_null() { None } else { Some(val_from_json(m)) }).collect()),
        "union" => Val::Union(
            x["disc"].as_i64().unwrap(),
            if x["case"].is_null() { None } else { Some((x["case"][0].as_u64().unwrap() as usize, Box::new(val_from_json(&x["case"][1])))) },
        ),
        k => panic!("bad value json {k}"),
    }
}

// ---------------------------------------------------------------------------------------------------------------
// L-val: the value lattice. `depth` 0 = member of the top-level struct (full lattice), >=1 = inside an aggregate or
// collection (reduced lattice, so that products stay bounded). `small` = reduced lattice also at the top (3-member types).

pub fn prim_vals(p: Prim, reduced: bool) -> Vec<Val> {
    let full: Vec<Val> = match p {
        Prim::Bool => vec![Val::Bool(false), Val::Bool(true)],
        Prim::U8 => [0u8, 1, 0x7f, 0x80, 0xff].iter().map(|x| Val::U8(*x)).collect(),
        Prim::I8 => [i8::MIN, -1, 0, 1, 0x55, i8::MAX].iter().map(|x| Val::I8(*x)).collect(),
        Prim::I16 => [i16::MIN, -1, 0, 1, 0x1234, i16::MAX].iter().map(|x| Val::I16(*x)).collect(),
        Prim::U16 => [0u16, 1, 0x1234, 0x8000, u16::MAX].iter().map(|x| Val::U16(*x)).collect(),
        Prim::I32 => [i32::MIN, -1, 0, 1, 0x12345678, i32::MAX].iter().map(|x| Val::I32(*x)).collect(),
        Prim::U32 => [0u32, 1, 0x12345678, 0x80000000, u32::MAX].iter().map(|x| Val::U32(*x)).collect(),
        Prim::I64 => [i64::MIN, -1, 0, 1, 0x0123456789abcdef, i64::MAX].iter().map(|x| Val::I64(*x)).collect(),
        Prim::U64 => [0u64, 1, 0x0123456789abcdef, 1 << 63, u64::MAX].iter().map(|x| Val::U64(*x)).collect(),
        Prim::F32 => [0.0f32, -0.0, 1.0, -1.5, f32::MIN, f32::MAX, f32::MIN_POSITIVE, f32::INFINITY, f32::NEG_INFINITY, f32::NAN]
            .iter()
            .map(|x| Val::F32(x.to_bits()))
            .chain([Val::F32(0x7fa00001)]) // signalling NaN with payload
            .collect(),
        Prim::F64 => [0.0f64, -0.0, 1.0, -1.5, f64::MIN, f64::MAX, f64::MIN_POSITIVE, f64::INFINITY, f64::NEG_INFINITY, f64::NAN]
            .iter()
            .map(|x| Val::F64(x.to_bits()))
            .chain([Val::F64(0x7ff4000000000001)])
            .collect(),
        Prim::Char8 => [0x61u32, 0x00, 0x7f, 0xe9].iter().map(|x| Val::Char(*x)).collect(),
    };
    if !reduced {
        return full;
    }
    match p {
        Prim::Bool => full,
        Prim::F32 => vec![Val::F32((-1.5f32).to_bits()), Val::F32(f32::NAN.to_bits()), Val::F32(f32::MAX.to_bits())],
        Prim::F64 => vec![Val::F64((-1.5f64).to_bits()), Val::F64(f64::NAN.to_bits()), Val::F64(f64::MAX.to_bits())],
        Prim::Char8 => vec![Val::Char(0x61), Val::Char(0x7f)],
        _ => vec![full[0].clone(), full[full.len() / 2].clone(), full[full.len() - 1].clone()],
    }
}

pub fn str_vals(reduced: bool) -> Vec<String> {
    if reduced {
        vec!["".into(), "abc".into(), "abcd".into()]
    } else {
        vec!["".into(), "a".into(), "abc".into(), "abcd".into(), "abcde".into(), "h\u{e9}\u{20ac}\u{1f600}".into()]
    }
}

fn collection_vals(elem: &Ty, lens: &[usize], depth: u32) -> Vec<Vec<Val>> {
    let ev = vals(elem, depth + 1, true);
    let mut out = Vec::new();
    for (k, &l) in lens.iter().enumerate() {
        out.push((0..l).map(|i| ev[(i + k) % ev.len()].clone()).collect());
    }
    out
}

/// all lattice values of a type
pub fn vals(t: &Ty, depth: u32, small: bool) -> Vec<Val> {
    let reduced = depth > 0 || small;
    match t {
        Ty::Prim(p) => prim_vals(*p, reduced),
        Ty::Str(_) => str_vals(reduced).into_iter().map(Val::Str).collect(),
        Ty::WStr => str_vals(reduced).into_iter().map(Val::WStr).collect(),
        Ty::Enum(e) => e.lits.iter().map(|(_, v)| Val::Enum(*v)).collect(),
        Ty::Seq(e, _) => {
            let mut out: Vec<Val> = collection_vals(e, if reduced { &[0, 1, 3] } else { &[0, 1, 2, 3] }, depth).into_iter().map(Val::Seq).collect();
            if !reduced {
                // every element lattice value appears in a length-1 collection
                for v in vals(e, depth + 1, false).into_iter().skip(1) {
                    out.push(Val::Seq(vec![v]));
                }
            }
            out
        }
        Ty::Arr(e, n) => {
            let ev = vals(e, depth + 1, !matches!(**e, Ty::Prim(_)) || reduced);
            let k = if reduced { 2.min(ev.len()) } else { ev.len() };
            (0..k).map(|s| Val::Arr((0..*n as usize).map(|i| ev[(s + i) % ev.len()].clone()).collect())).collect()
        }
        Ty::Struct(s) => struct_vals(s, depth + 1, true),
        Ty::Union(u) => {
            let mut out = Vec::new();
            for (i, c) in u.cases.iter().enumerate() {
                let d = if c.default { 99 } else { c.labels[0] as i64 };
                for v in vals(&c.ty, depth + 1, true) {
                    out.push(Val::Union(d, Some((i, Box::new(v)))));
                }
            }
            if !u.cases.iter().any(|c| c.default) {
                out.push(Val::Union(77, None)); // discriminator that selects no member
            }
            out
        }
    }
}

/// cartesian product over the members (optional members: absent + every present value)
pub fn struct_vals(s: &StructTy, depth: u32, small: bool) -> Vec<Val> {
    let mut acc: Vec<Vec<Option<Val>>> = vec![vec![]];
    for m in &s.members {
        let mut mv: Vec<Option<Val>> = Vec::new();
        if m.opt {
            mv.push(None);
        }
        mv.extend(vals(&m.ty, depth, small).into_iter().map(Some));
        let mut next = Vec::with_capacity(acc.len() * mv.len());
        for a in &acc {
            for v in &mv {
                let mut a2 = a.clone();
                a2.push(v.clone());
                next.push(a2);
            }
        }
        acc = next;
    }
    acc.into_iter().map(Val::Struct).collect()
}

/// the type's default value (XTypes: zero / empty / first literal / absent optional)
pub fn default_val(t: &Ty) -> Val {
    match t {
        Ty::Prim(p) => match p {
            Prim::Bool => Val::Bool(false),
            Prim::U8 => Val::U8(0),
            Prim::I8 => Val::I8(0),
            Prim::I16 => Val::I16(0),
            Prim::U16 => Val::U16(0),
            Prim::I32 => Val::I32(0),
            Prim::U32 => Val::U32(0),
            Prim::I64 => Val::I64(0),
            Prim::U64 => Val::U64(0),
            Prim::F32 => Val::F32(0),
            Prim::F64 => Val::F64(0),
            Prim::Char8 => Val::Char(0),
        },
        Ty::Str(_) => Val::Str(String::new()),
        Ty::WStr => Val::WStr(String::new()),
        Ty::Enum(e) => Val::Enum(e.lits[0].1),
        Ty::Seq(_, _) => Val::Seq(vec![]),
        Ty::Arr(e, n) => Val::Arr((0..*n).map(|_| default_val(e)).collect()),
        Ty::Struct(s) => Val::Struct(s.members.iter().map(|m| if m.opt { None } else { Some(default_val(&m.ty)) }).collect()),
        Ty::Union(u) => {
            let c = &u.cases[0];
            Val::Union(if c.default { 0 } else { c.labels[0] as i64 }, Some((0, Box::new(default_val(&c.ty)))))
        }
    }
}

// ---------------------------------------------------------------------------------------------------------------
// L-type building blocks

pub fn inner_struct(ext: Ext) -> Rc<StructTy> {
    // u8 followed by i64 exercises alignment inside nested types; the string exercises variable size
    Rc::new(StructTy {
        name: format!("In{}", &ext.name()[..1].to_uppercase()),
        ext,
        members: vec![
            Member { name: "a".into(), id: 0, ty: Ty::Prim(Prim::U8), key: false, opt: false },
            Member { name: "b".into(), id: 1, ty: Ty::Prim(Prim::I64), key: false, opt: false },
        ],
    })
}
pub fn elem_struct() -> Rc<StructTy> {
    Rc::new(StructTy {
        name: "InE".into(),
        ext: Ext::Final,
        members: vec![
            Member { name: "x".into(), id: 0, ty: Ty::Prim(Prim::I16), key: false, opt: false },
            Member { name: "s".into(), id: 1, ty: Ty::Str(0), key: false, opt: false },
        ],
    })
}
pub fn the_enum() -> Rc<EnumTy> {
    Rc::new(EnumTy { name: "Color".into(), lits: vec![("RED".into(), 0), ("GREEN".into(), 1), ("BLUE".into(), 7)] })
}
pub fn the_union(ext: Ext) -> Rc<UnionTy> {
    Rc::new(UnionTy {
        name: format!("U{}", &ext.name()[..1].to_uppercase()),
        ext,
        disc: Prim::I32,
        cases: vec![
            Case { name: "a".into(), id: 1, labels: vec![1], default: false, ty: Ty::Prim(Prim::U8) },
            Case { name: "b".into(), id: 2, labels: vec![2, 5], default: false, ty: Ty::Prim(Prim::I64) },
            Case { name: "c".into(), id: 3, labels: vec![3], default: false, ty: Ty::Str(0) },
        ],
    })
}

/// member kinds of L-type
pub fn member_kinds(thorough: bool) -> Vec<Ty> {
    let mut v = vec![
        Ty::Prim(Prim::U8),
        Ty::Prim(Prim::I16),
        Ty::Prim(Prim::I32),
        Ty::Prim(Prim::I64),
        Ty::Prim(Prim::F32),
        Ty::Prim(Prim::F64),
        Ty::Prim(Prim::Bool),
        Ty::Prim(Prim::Char8),
        Ty::Str(0),
        Ty::WStr,
        Ty::Enum(the_enum()),
        Ty::Seq(Box::new(Ty::Prim(Prim::U8)), 0),
        Ty::Seq(Box::new(Ty::Prim(Prim::I32)), 0),
        Ty::Seq(Box::new(Ty::Str(0)), 0),
        Ty::Seq(Box::new(Ty::Struct(elem_struct())), 0),
        Ty::Arr(Box::new(Ty::Prim(Prim::I32)), 3),
        Ty::Arr(Box::new(Ty::Struct(elem_struct())), 2),
        Ty::Struct(inner_struct(Ext::Final)),
        Ty::Struct(inner_struct(Ext::Appendable)),
        Ty::Struct(inner_struct(Ext::Mutable)),
        Ty::Union(the_union(Ext::Final)),
    ];
    if thorough {
        v.extend([
            Ty::Prim(Prim::I8),
            Ty::Prim(Prim::U16),
            Ty::Prim(Prim::U32),
            Ty::Prim(Prim::U64),
            Ty::Seq(Box::new(Ty::Prim(Prim::I64)), 0),
            Ty::Seq(Box::new(Ty::Enum(the_enum())), 0),
            Ty::Seq(Box::new(Ty::Prim(Prim::Bool)), 0),
            Ty::Arr(Box::new(Ty::Prim(Prim::U8)), 3),
            Ty::Arr(Box::new(Ty::Str(0)), 2),
            Ty::Union(the_union(Ext::Appendable)),
            Ty::Union(the_union(Ext::Mutable)),
            Ty::Str(4),
        ]);
    }
    v
}

#[derive(Clone, Copy, PartialEq, Eq, Debug)]
pub enum Modif {
    Plain,
    Key,
    Optional,
}
#[derive(Clone, Copy, PartialEq, Eq, Debug)]
pub enum IdStyle {
    Sequential,
    Sparse,
    Large,
}
impl IdStyle {
    pub fn id(self, i: usize) -> u32 {
        match self {
            IdStyle::Sequential => i as u32,
            IdStyle::Sparse => [5, 100, 3][i],
            IdStyle::Large => [16384, 70000, 0x0fff_fffe][i],
        }
    }
}

pub fn make_struct(ext: Ext, ids: IdStyle, members: &[(Ty, Modif)]) -> StructTy {
    StructTy {
        name: "T".into(),
        ext,
        members: members
            .iter()
            .enumerate()
            .map(|(i, (ty, m))| Member { name: format!("m{i}"), id: ids.id(i), ty: ty.clone(), key: *m == Modif::Key, opt: *m == Modif::Optional })
            .collect(),
    }
}

/// Enumerates L-type in simplest-first order and calls `f(index, type)` for every type.
/// quick: 1..=2 members, all id styles. thorough: additionally the extra kinds and 3-member types (sequential ids).
pub fn for_each_type(thorough: bool, mut f: impl FnMut(usize, &dyn Fn() -> StructTy, usize)) {
    let kinds = member_kinds(thorough);
    let modifs = [Modif::Plain, Modif::Key, Modif::Optional];
    let mut descs: Vec<(Ty, Modif)> = Vec::new();
    for k in &kinds {
        for m in modifs {
            descs.push((k.clone(), m));
        }
    }
    let mut idx = 0usize;
    // 1 member
    for ids in [IdStyle::Sequential, IdStyle::Sparse, IdStyle::Large] {
        for ext in Ext::all() {
            for d in &descs {
                let mk = || make_struct(ext, ids, &[d.clone()]);
                f(idx, &mk, 1);
                idx += 1;
            }
        }
    }
    // 2 members
    for ids in [IdStyle::Sequential, IdStyle::Sparse, IdStyle::Large] {
        for ext in Ext::all() {
            for d0 in &descs {
                for d1 in &descs {
                    let mk = || make_struct(ext, ids, &[d0.clone(), d1.clone()]);
                    f(idx, &mk, 2);
                    idx += 1;
                }
            }
        }
    }
    if thorough {
        // 3 members: the quick kinds only (the extra kinds are covered by 1- and 2-member types), sequential ids
        let kinds3 = member_kinds(false);
        let mut descs3: Vec<(Ty, Modif)> = Vec::new();
        for k in &kinds3 {
            for m in modifs {
                descs3.push((k.clone(), m));
            }
        }
        for ext in Ext::all() {
            for d0 in &descs3 {
                for d1 in &descs3 {
                    for d2 in &descs3 {
                        let mk = || make_struct(ext, IdStyle::Sequential, &[d0.clone(), d1.clone(), d2.clone()]);
                        f(idx, &mk, 3);
                        idx += 1;
                    }
                }
            }
        }
    }
}
