//! AST <-> dust-dds dynamic types / dynamic data.
use crate::ast::*;
use dust_dds::xtypes::data_storage::DataStorage;
use dust_dds::xtypes::dynamic_type::{
    DynamicData, DynamicDataFactory, DynamicType, DynamicTypeBuilderFactory, ExtensibilityKind, MemberDescriptor, TryConstructKind, TypeDescriptor, TypeKind,
};
use std::cell::RefCell;
use std::collections::HashMap;

thread_local! {
    static PRIMS: RefCell<HashMap<u8, DynamicType<'static>>> = RefCell::new(HashMap::new());
    static SHARED: RefCell<HashMap<String, DynamicType<'static>>> = RefCell::new(HashMap::new());
    static NAMES: RefCell<HashMap<String, &'static str>> = RefCell::new(HashMap::new());
    pub static BUILT: RefCell<u64> = RefCell::new(0);
}

fn intern(s: &str) -> &'static str {
    NAMES.with(|n| {
        let mut n = n.borrow_mut();
        if let Some(x) = n.get(s) {
            return *x;
        }
        let l: &'static str = Box::leak(s.to_string().into_boxed_str());
        n.insert(s.to_string(), l);
        l
    })
}

fn prim_kind(p: Prim) -> TypeKind {
    match p {
        Prim::Bool => TypeKind::BOOLEAN,
        Prim::U8 => TypeKind::UINT8,
        Prim::I8 => TypeKind::INT8,
        Prim::I16 => TypeKind::INT16,
        Prim::U16 => TypeKind::UINT16,
        Prim::I32 => TypeKind::INT32,
        Prim::U32 => TypeKind::UINT32,
        Prim::I64 => TypeKind::INT64,
        Prim::U64 => TypeKind::UINT64,
        Prim::F32 => TypeKind::FLOAT32,
        Prim::F64 => TypeKind::FLOAT64,
        Prim::Char8 => TypeKind::CHAR8,
    }
}

fn prim_type(p: Prim) -> DynamicType<'static> {
    let k = prim_kind(p);
    PRIMS.with(|m| *m.borrow_mut().entry(k as u8).or_insert_with(|| DynamicTypeBuilderFactory::get_primitive_type(k)))
}

fn ext_kind(e: Ext) -> ExtensibilityKind {
    match e {
        Ext::Final => ExtensibilityKind::Final,
        Ext::Appendable => ExtensibilityKind::Appendable,
        Ext::Mutable => ExtensibilityKind::Mutable,
    }
}

fn descriptor(kind: TypeKind, name: &str, ext: Ext, disc: Option<DynamicType<'static>>) -> TypeDescriptor {
    TypeDescriptor {
        kind,
        name: intern(name),
        base_type: None,
        discriminator_type: disc,
        bound: &[],
        element_type: None,
        key_element_type: None,
        extensibility_kind: ext_kind(ext),
        is_nested: false,
    }
}

fn member_desc(name: &str, id: u32, index: u32, ty: DynamicType<'static>, key: bool, opt: bool, mu: bool, label: &'static [i32], default: bool) -> MemberDescriptor {
    MemberDescriptor {
        name: intern(name),
        id,
        r#type: ty,
        default_value: None,
        index,
        label,
        try_construct_kind: TryConstructKind::Discard,
        is_key: key,
        is_optional: opt,
        is_must_understand: mu,
        is_shared: false,
        is_default_label: default,
        is_external: false,
    }
}

/// Builds (and leaks) the dust-dds type of a struct. Not cached: top-level types are built once per enumeration step.
pub fn build_struct(s: &StructTy) -> DynamicType<'static> {
    let mut b = DynamicTypeBuilderFactory::create_type(descriptor(TypeKind::STRUCTURE, &s.name, s.ext, None));
    for (i, m) in s.members.iter().enumerate() {
        // key members are must-understand (XTypes 7.4.3.5.3: M_FLAG is set for key members)
        b.add_member(member_desc(&m.name, m.id, i as u32, build_type(&m.ty), m.key, m.opt, m.key, &[], false)).expect("add_member");
    }
    BUILT.with(|c| *c.borrow_mut() += 1);
    b.build()
}

/// Builds the dust-dds type for any AST type; non top-level types are cached by their IDL text.
pub fn build_type(t: &Ty) -> DynamicType<'static> {
    if let Ty::Prim(p) = t {
        return prim_type(*p);
    }
    let key = t.idl();
    if let Some(x) = SHARED.with(|m| m.borrow().get(&key).copied()) {
        return x;
    }
    let built = match t {
        Ty::Prim(_) => unreachable!(),
        Ty::Str(b) => DynamicTypeBuilderFactory::create_string_type(*b).build(),
        Ty::WStr => DynamicTypeBuilderFactory::create_wstring_type(0).build(),
        Ty::Enum(e) => {
            let mut b = DynamicTypeBuilderFactory::create_type(descriptor(TypeKind::ENUM, &e.name, Ext::Final, Some(prim_type(Prim::I32))));
            for (i, (n, v)) in e.lits.iter().enumerate() {
                let label: &'static [i32] = Vec::leak(vec![*v]);
                b.add_member(member_desc(n, i as u32, i as u32, prim_type(Prim::I32), false, false, false, label, false)).unwrap();
            }
            b.build()
        }
        Ty::Seq(e, bound) => DynamicTypeBuilderFactory::create_sequence_type(build_type(e), *bound).build(),
        Ty::Arr(e, n) => DynamicTypeBuilderFactory::create_array_type(build_type(e), Vec::leak(vec![*n])).build(),
        Ty::Struct(s) => build_struct(s),
        Ty::Union(u) => {
            let disc = prim_type(u.disc);
            let mut b = DynamicTypeBuilderFactory::create_type(descriptor(TypeKind::UNION, &u.name, u.ext, Some(disc)));
            b.add_member(member_desc("discriminator", 0, 0, disc, false, false, true, &[], false)).unwrap();
            for (i, c) in u.cases.iter().enumerate() {
                let label: &'static [i32] = Vec::leak(c.labels.clone());
                b.add_member(member_desc(&c.name, c.id, i as u32 + 1, build_type(&c.ty), false, false, false, label, c.default)).unwrap();
            }
            b.build()
        }
    };
    SHARED.with(|m| m.borrow_mut().insert(key, built));
    built
}

fn ch(c: u32) -> char {
    char::from_u32(c).unwrap_or('?')
}

fn prim_storage(v: &Val) -> DataStorage {
    match v {
        Val::Bool(x) => DataStorage::Boolean(*x),
        Val::U8(x) => DataStorage::UInt8(*x),
        Val::I8(x) => DataStorage::Int8(*x),
        Val::I16(x) => DataStorage::Int16(*x),
        Val::U16(x) => DataStorage::UInt16(*x),
        Val::I32(x) => DataStorage::Int32(*x),
        Val::U32(x) => DataStorage::UInt32(*x),
        Val::I64(x) => DataStorage::Int64(*x),
        Val::U64(x) => DataStorage::UInt64(*x),
        Val::F32(x) => DataStorage::Float32(f32::from_bits(*x)),
        Val::F64(x) => DataStorage::Float64(f64::from_bits(*x)),
        Val::Char(x) => DataStorage::Char8(ch(*x)),
        _ => panic!("not a primitive value {v:?}"),
    }
}

fn collection_storage(elem: &Ty, items: &[Val]) -> DataStorage {
    macro_rules! coll {
        ($variant:ident, $pat:ident, $conv:expr) => {
            DataStorage::$variant(
                items
                    .iter()
                    .map(|v| match v {
                        Val::$pat(x) => $conv(x),
                        o => panic!("element mismatch {o:?}"),
                    })
                    .collect(),
            )
        };
    }
    match elem {
        Ty::Prim(Prim::Bool) => coll!(SequenceBoolean, Bool, |x: &bool| *x),
        Ty::Prim(Prim::U8) => coll!(SequenceUInt8, U8, |x: &u8| *x),
        Ty::Prim(Prim::I8) => coll!(SequenceInt8, I8, |x: &i8| *x),
        Ty::Prim(Prim::I16) => coll!(SequenceInt16, I16, |x: &i16| *x),
        Ty::Prim(Prim::U16) => coll!(SequenceUInt16, U16, |x: &u16| *x),
        Ty::Prim(Prim::I32) => coll!(SequenceInt32, I32, |x: &i32| *x),
        Ty::Prim(Prim::U32) => coll!(SequenceUInt32, U32, |x: &u32| *x),
        Ty::Prim(Prim::I64) => coll!(SequenceInt64, I64, |x: &i64| *x),
        Ty::Prim(Prim::U64) => coll!(SequenceUInt64, U64, |x: &u64| *x),
        Ty::Prim(Prim::F32) => coll!(SequenceFloat32, F32, |x: &u32| f32::from_bits(*x)),
        Ty::Prim(Prim::F64) => coll!(SequenceFloat64, F64, |x: &u64| f64::from_bits(*x)),
        Ty::Prim(Prim::Char8) => coll!(SequenceChar8, Char, |x: &u32| ch(*x)),
        Ty::Str(_) => coll!(SequenceString, Str, |x: &String| x.clone()),
        Ty::WStr => coll!(SequenceString, WStr, |x: &String| x.clone()),
        Ty::Enum(_) | Ty::Struct(_) | Ty::Union(_) => DataStorage::SequenceComplexValue(items.iter().map(|v| complex(elem, v)).collect()),
        Ty::Seq(..) | Ty::Arr(..) => panic!("nested collections are not part of the lattice"),
    }
}

fn complex(t: &Ty, v: &Val) -> DynamicData<'static> {
    let dt = build_type(t);
    match (t, v) {
        (Ty::Enum(_), Val::Enum(x)) => {
            let mut d = DynamicDataFactory::create_data(dt);
            d.set_int32_value(0, *x).unwrap();
            d
        }
        (Ty::Struct(s), v) => to_dynamic(s, dt, v),
        (Ty::Union(u), Val::Union(disc, sel)) => {
            let mut d = DynamicDataFactory::create_data(dt);
            d.set_value(
                0,
                match u.disc {
                    Prim::I32 => DataStorage::Int32(*disc as i32),
                    Prim::U8 => DataStorage::UInt8(*disc as u8),
                    Prim::I16 => DataStorage::Int16(*disc as i16),
                    Prim::U32 => DataStorage::UInt32(*disc as u32),
                    p => panic!("unsupported discriminator {p:?}"),
                },
            );
            if let Some((i, cv)) = sel {
                let c = &u.cases[*i];
                d.set_value(c.id, storage(&c.ty, cv));
            }
            d
        }
        (t, v) => panic!("complex(): mismatch {t:?} {v:?}"),
    }
}

fn storage(t: &Ty, v: &Val) -> DataStorage {
    match (t, v) {
        (Ty::Prim(_), v) => prim_storage(v),
        (Ty::Str(_), Val::Str(s)) => DataStorage::String(s.clone()),
        (Ty::WStr, Val::WStr(s)) => DataStorage::String(s.clone()),
        (Ty::Enum(_), _) | (Ty::Struct(_), _) | (Ty::Union(_), _) => DataStorage::ComplexValue(complex(t, v)),
        (Ty::Seq(e, _), Val::Seq(items)) => collection_storage(e, items),
        (Ty::Arr(e, _), Val::Arr(items)) => collection_storage(e, items),
        (t, v) => panic!("storage(): mismatch {t:?} {v:?}"),
    }
}

/// AST value of struct type `s` -> DynamicData of the (already built) dust type `dt`
pub fn to_dynamic(s: &StructTy, dt: DynamicType<'static>, v: &Val) -> DynamicData<'static> {
    let Val::Struct(ms) = v else { panic!("struct value expected") };
    let mut d = DynamicDataFactory::create_data(dt);
    for (m, mv) in s.members.iter().zip(ms.iter()) {
        if let Some(mv) = mv {
            d.set_value(m.id, storage(&m.ty, mv));
        }
    }
    d
}

// ---------------------------------------------------------------------------------------------------------------
// DynamicData -> AST

fn from_storage(t: &Ty, st: &DataStorage) -> Result<Val, String> {
    macro_rules! coll {
        ($items:expr, $wrap:expr) => {
            $items.iter().map($wrap).collect::<Vec<Val>>()
        };
    }
    let wrap = |items: Vec<Val>| if matches!(t, Ty::Arr(..)) { Val::Arr(items) } else { Val::Seq(items) };
    Ok(match (t, st) {
        (Ty::Prim(Prim::Bool), DataStorage::Boolean(x)) => Val::Bool(*x),
        (Ty::Prim(Prim::U8), DataStorage::UInt8(x)) => Val::U8(*x),
        (Ty::Prim(Prim::I8), DataStorage::Int8(x)) => Val::I8(*x),
        (Ty::Prim(Prim::I16), DataStorage::Int16(x)) => Val::I16(*x),
        (Ty::Prim(Prim::U16), DataStorage::UInt16(x)) => Val::U16(*x),
        (Ty::Prim(Prim::I32), DataStorage::Int32(x)) => Val::I32(*x),
        (Ty::Prim(Prim::U32), DataStorage::UInt32(x)) => Val::U32(*x),
        (Ty::Prim(Prim::I64), DataStorage::Int64(x)) => Val::I64(*x),
        (Ty::Prim(Prim::U64), DataStorage::UInt64(x)) => Val::U64(*x),
        (Ty::Prim(Prim::F32), DataStorage::Float32(x)) => Val::F32(x.to_bits()),
        (Ty::Prim(Prim::F64), DataStorage::Float64(x)) => Val::F64(x.to_bits()),
        (Ty::Prim(Prim::Char8), DataStorage::Char8(x)) => Val::Char(*x as u32),
        (Ty::Str(_), DataStorage::String(s)) => Val::Str(s.clone()),
        (Ty::WStr, DataStorage::String(s)) => Val::WStr(s.clone()),
        (Ty::Enum(_), DataStorage::ComplexValue(d)) => match d.get_value(0) {
            Ok(DataStorage::Int32(x)) => Val::Enum(*x),
            o => return Err(format!("enum holder {o:?}")),
        },
        (Ty::Struct(s), DataStorage::ComplexValue(d)) => from_dynamic(s, d)?,
        (Ty::Union(u), DataStorage::ComplexValue(d)) => union_from_dynamic(u, d)?,
        (Ty::Seq(e, _), st) | (Ty::Arr(e, _), st) => match (&**e, st) {
            (Ty::Prim(Prim::Bool), DataStorage::SequenceBoolean(v)) => wrap(coll!(v, |x| Val::Bool(*x))),
            (Ty::Prim(Prim::U8), DataStorage::SequenceUInt8(v)) => wrap(coll!(v, |x| Val::U8(*x))),
            (Ty::Prim(Prim::I8), DataStorage::SequenceInt8(v)) => wrap(coll!(v, |x| Val::I8(*x))),
            (Ty::Prim(Prim::I16), DataStorage::SequenceInt16(v)) => wrap(coll!(v, |x| Val::I16(*x))),
            (Ty::Prim(Prim::U16), DataStorage::SequenceUInt16(v)) => wrap(coll!(v, |x| Val::U16(*x))),
            (Ty::Prim(Prim::I32), DataStorage::SequenceInt32(v)) => wrap(coll!(v, |x| Val::I32(*x))),
            (Ty::Prim(Prim::U32), DataStorage::SequenceUInt32(v)) => wrap(coll!(v, |x| Val::U32(*x))),
            (Ty::Prim(Prim::I64), DataStorage::SequenceInt64(v)) => wrap(coll!(v, |x| Val::I64(*x))),
            (Ty::Prim(Prim::U64), DataStorage::SequenceUInt64(v)) => wrap(coll!(v, |x| Val::U64(*x))),
            (Ty::Prim(Prim::F32), DataStorage::SequenceFloat32(v)) => wrap(coll!(v, |x| Val::F32(x.to_bits()))),
            (Ty::Prim(Prim::F64), DataStorage::SequenceFloat64(v)) => wrap(coll!(v, |x| Val::F64(x.to_bits()))),
            (Ty::Prim(Prim::Char8), DataStorage::SequenceChar8(v)) => wrap(coll!(v, |x| Val::Char(*x as u32))),
            (Ty::Str(_), DataStorage::SequenceString(v)) => wrap(coll!(v, |x| Val::Str(x.clone()))),
            (Ty::WStr, DataStorage::SequenceString(v)) => wrap(coll!(v, |x| Val::WStr(x.clone()))),
            (et @ (Ty::Enum(_) | Ty::Struct(_) | Ty::Union(_)), DataStorage::SequenceComplexValue(v)) => {
                let mut out = Vec::new();
                for d in v {
                    out.push(from_storage(et, &DataStorage::ComplexValue(d.clone()))?);
                }
                wrap(out)
            }
            (et, st) => return Err(format!("collection storage mismatch: element {} stored as {}", et.kind_name(), storage_name(st))),
        },
        (t, st) => return Err(format!("storage mismatch: {} stored as {}", t.kind_name(), storage_name(st))),
    })
}

fn storage_name(st: &DataStorage) -> String {
    let s = format!("{st:?}");
    s.split('(').next().unwrap_or("?").to_string()
}

fn union_from_dynamic(u: &UnionTy, d: &DynamicData) -> Result<Val, String> {
    let disc = match d.get_value(0) {
        Ok(DataStorage::Int32(x)) => *x as i64,
        Ok(DataStorage::UInt8(x)) => *x as i64,
        Ok(DataStorage::Int16(x)) => *x as i64,
        Ok(DataStorage::UInt32(x)) => *x as i64,
        o => return Err(format!("union discriminator {o:?}")),
    };
    let mut sel = None;
    for (i, c) in u.cases.iter().enumerate() {
        if let Ok(st) = d.get_value(c.id) {
            if sel.is_some() {
                return Err("union with two selected members".into());
            }
            sel = Some((i, Box::new(from_storage(&c.ty, st)?)));
        }
    }
    Ok(Val::Union(disc, sel))
}

/// DynamicData -> AST value of struct `s`. Members that are not present become None.
pub fn from_dynamic(s: &StructTy, d: &DynamicData) -> Result<Val, String> {
    let mut ms = Vec::new();
    for m in &s.members {
        match d.get_value(m.id) {
            Ok(st) => ms.push(Some(from_storage(&m.ty, st).map_err(|e| format!("member {}: {e}", m.name))?)),
            Err(_) => ms.push(None),
        }
    }
    let known = s.members.len();
    let present = ms.iter().filter(|m| m.is_some()).count();
    if d.get_item_count() as usize != present {
        return Err(format!("decoded data holds {} items but only {} belong to the {} declared members", d.get_item_count(), present, known));
    }
    Ok(Val::Struct(ms))
}

// ---------------------------------------------------------------------------------------------------------------
// calling the code under test with panic isolation

#[derive(Clone, Copy, PartialEq, Eq, Debug, Hash, PartialOrd, Ord)]
pub enum Rep {
    X1Le,
    X1Be,
    X2Le,
    X2Be,
}
impl Rep {
    pub fn all() -> [Rep; 4] {
        [Rep::X1Le, Rep::X1Be, Rep::X2Le, Rep::X2Be]
    }
    pub fn name(self) -> &'static str {
        match self {
            Rep::X1Le => "xcdr1-le",
            Rep::X1Be => "xcdr1-be",
            Rep::X2Le => "xcdr2-le",
            Rep::X2Be => "xcdr2-be",
        }
    }
    pub fn from_name(s: &str) -> Rep {
        match s {
            "xcdr1-le" => Rep::X1Le,
            "xcdr1-be" => Rep::X1Be,
            "xcdr2-le" => Rep::X2Le,
            _ => Rep::X2Be,
        }
    }
    pub fn v2(self) -> bool {
        matches!(self, Rep::X2Le | Rep::X2Be)
    }
    pub fn be(self) -> bool {
        matches!(self, Rep::X1Be | Rep::X2Be)
    }
}

pub enum Outcome<T> {
    Ok(T),
    Err(String),
    Panic(String),
}

pub fn panic_msg(e: Box<dyn std::any::Any + Send>) -> String {
    if let Some(s) = e.downcast_ref::<&str>() {
        s.to_string()
    } else if let Some(s) = e.downcast_ref::<String>() {
        s.clone()
    } else {
        "<non-string panic>".into()
    }
}

/// strips numbers so that panic messages form stable classes
pub fn msg_class(m: &str) -> String {
    let mut out = String::new();
    let mut last_hash = false;
    for c in m.chars().take(80) {
        if c.is_ascii_digit() {
            if !last_hash {
                out.push('#');
            }
            last_hash = true;
        } else {
            last_hash = false;
            out.push(if c.is_ascii_alphanumeric() || c == '_' || c == '#' { c } else { '-' });
        }
    }
    while out.contains("--") {
        out = out.replace("--", "-");
    }
    out.trim_matches('-').to_string()
}

pub fn install_quiet_panic_hook() {
    std::panic::set_hook(Box::new(|_| {}));
}

pub fn dust_serialize(d: &DynamicData<'static>, rep: Rep) -> Outcome<Vec<u8>> {
    use dust_dds::verif_hooks::xtypes_serializer::*;
    let r = std::panic::catch_unwind(std::panic::AssertUnwindSafe(|| match rep {
        Rep::X1Le => serialize_cdr1_le(d),
        Rep::X1Be => serialize_cdr1_be(d),
        Rep::X2Le => serialize_cdr2_le(d),
        Rep::X2Be => serialize_cdr2_be(d),
    }));
    match r {
        Ok(Ok(b)) => Outcome::Ok(b),
        Ok(Err(e)) => Outcome::Err(format!("{e:?}")),
        Err(p) => Outcome::Panic(panic_msg(p)),
    }
}

pub fn dust_deserialize(dt: DynamicType<'static>, bytes: &[u8]) -> Outcome<DynamicData<'static>> {
    use dust_dds::verif_hooks::xtypes_deserializer::deserialize_top_level_type;
    let r = std::panic::catch_unwind(std::panic::AssertUnwindSafe(|| deserialize_top_level_type(dt, bytes)));
    match r {
        Ok(Ok(b)) => Outcome::Ok(b),
        Ok(Err(e)) => Outcome::Err(format!("{e:?}")),
        Err(p) => Outcome::Panic(panic_msg(p)),
    }
}
