//! C39: type evolution. Pairs (writer type, reader type) where the reader type derives from a base struct by one or two
//! edits; assignability (dust-dds TypeObject rules vs. an own reading of XTypes 7.2.4.4) and the result of decoding the
//! writer's bytes with the reader's type.
use crate::ast::*;
use crate::bridge::*;
use crate::xcdr::cached_type;
use dust_dds::infrastructure::qos_policy::{TypeConsistencyEnforcementQosPolicy, TypeConsistencyKind};
use dust_dds::xtypes::type_object::CompleteTypeObject;
use std::rc::Rc;
use vutil::serde_json::{json, Value};
use vutil::{hex, Args, Report};

fn mem(name: &str, id: u32, ty: Ty) -> Member {
    Member { name: name.into(), id, ty, key: false, opt: false }
}

fn nested(ext: Ext, extra: bool) -> Ty {
    let mut members = vec![mem("x", 0, Ty::Prim(Prim::I32))];
    if extra {
        members.push(mem("y", 1, Ty::Prim(Prim::I16)));
    }
    Ty::Struct(Rc::new(StructTy { name: format!("In{}", &ext.name()[..1].to_uppercase()), ext, members }))
}

pub fn bases() -> Vec<(&'static str, Vec<Member>)> {
    vec![
        ("i32-string", vec![mem("a", 0, Ty::Prim(Prim::I32)), mem("b", 1, Ty::Str(0))]),
        ("u8-i64-seq", vec![mem("a", 0, Ty::Prim(Prim::U8)), mem("b", 1, Ty::Prim(Prim::I64)), mem("c", 2, Ty::Seq(Box::new(Ty::Prim(Prim::I32)), 0))]),
        ("u8-nested-appendable-i32", vec![mem("a", 0, Ty::Prim(Prim::U8)), mem("n", 1, nested(Ext::Appendable, false)), mem("z", 2, Ty::Prim(Prim::I32))]),
        ("u8-nested-mutable-i32", vec![mem("a", 0, Ty::Prim(Prim::U8)), mem("n", 1, nested(Ext::Mutable, false)), mem("z", 2, Ty::Prim(Prim::I32))]),
        ("key-i32-enum", vec![Member { name: "k".into(), id: 0, ty: Ty::Prim(Prim::I32), key: true, opt: false }, mem("e", 1, Ty::Enum(the_enum()))]),
    ]
}

#[derive(Clone, Debug, PartialEq)]
pub enum Edit {
    Append(&'static str, Ty, bool),
    RemoveLast,
    InsertFront,
    InsertMiddle,
    RemoveFirst,
    Swap,
    Ext(Ext),
    TypeChange(usize, &'static str, Ty),
    Rename(usize),
    Reid(usize),
    NestedAppend,
    MakeOptional(usize),
}
impl Edit {
    pub fn name(&self) -> String {
        match self {
            Edit::Append(n, _, opt) => format!("append-{}{}", if *opt { "optional-" } else { "" }, n),
            Edit::RemoveLast => "remove-last".into(),
            Edit::InsertFront => "insert-front".into(),
            Edit::InsertMiddle => "insert-middle".into(),
            Edit::RemoveFirst => "remove-first".into(),
            Edit::Swap => "reorder".into(),
            Edit::Ext(e) => format!("extensibility-to-{}", e.name()),
            Edit::TypeChange(_, n, _) => format!("member-type-to-{n}"),
            Edit::Rename(_) => "rename-member".into(),
            Edit::Reid(_) => "change-member-id".into(),
            Edit::NestedAppend => "append-to-nested-type".into(),
            Edit::MakeOptional(_) => "make-member-optional".into(),
        }
    }
    /// None = not applicable to this type
    pub fn apply(&self, s: &StructTy) -> Option<StructTy> {
        let mut r = s.clone();
        let next_id = s.members.iter().map(|m| m.id).max().unwrap_or(0) + 1;
        match self {
            Edit::Append(_, ty, opt) => r.members.push(Member { name: format!("n{next_id}"), id: next_id, ty: ty.clone(), key: false, opt: *opt }),
            Edit::RemoveLast => {
                if r.members.len() < 2 {
                    return None;
                }
                r.members.pop();
            }
            Edit::InsertFront => {
                if s.ext != Ext::Mutable {
                    return None;
                }
                r.members.insert(0, mem(&format!("n{next_id}"), next_id, Ty::Prim(Prim::I16)));
            }
            Edit::InsertMiddle => {
                if s.ext != Ext::Mutable {
                    return None;
                }
                r.members.insert(1, mem(&format!("n{next_id}"), next_id, Ty::Str(0)));
            }
            Edit::RemoveFirst => {
                if s.ext != Ext::Mutable || r.members.len() < 2 {
                    return None;
                }
                r.members.remove(0);
            }
            Edit::Swap => {
                if s.ext != Ext::Mutable || r.members.len() < 2 {
                    return None;
                }
                let n = r.members.len();
                r.members.swap(0, n - 1);
            }
            Edit::Ext(e) => {
                if *e == s.ext {
                    return None;
                }
                r.ext = *e;
            }
            Edit::TypeChange(i, _, ty) => {
                let i = (*i).min(r.members.len() - 1);
                if r.members[i].ty == *ty {
                    return None;
                }
                r.members[i].ty = ty.clone();
            }
            Edit::Rename(i) => {
                let i = (*i).min(r.members.len() - 1);
                r.members[i].name = format!("{}_renamed", r.members[i].name);
            }
            Edit::Reid(i) => {
                if s.ext != Ext::Mutable {
                    return None;
                }
                let i = (*i).min(r.members.len() - 1);
                r.members[i].id = next_id + 10;
            }
            Edit::NestedAppend => {
                let i = r.members.iter().position(|m| matches!(&m.ty, Ty::Struct(n) if n.ext != Ext::Final && n.members.len() == 1))?;
                let Ty::Struct(n) = &r.members[i].ty else { unreachable!() };
                r.members[i].ty = nested(n.ext, true);
            }
            Edit::MakeOptional(i) => {
                let i = (*i).min(r.members.len() - 1);
                if r.members[i].opt || r.members[i].key {
                    return None;
                }
                r.members[i].opt = true;
            }
        }
        Some(r)
    }
}

pub fn edits() -> Vec<Edit> {
    vec![
        Edit::Append("i32", Ty::Prim(Prim::I32), false),
        Edit::Append("i32", Ty::Prim(Prim::I32), true),
        Edit::Append("string", Ty::Str(0), false),
        Edit::Append("i64", Ty::Prim(Prim::I64), false),
        Edit::RemoveLast,
        Edit::InsertFront,
        Edit::InsertMiddle,
        Edit::RemoveFirst,
        Edit::Swap,
        Edit::Ext(Ext::Final),
        Edit::Ext(Ext::Appendable),
        Edit::Ext(Ext::Mutable),
        Edit::TypeChange(0, "i64", Ty::Prim(Prim::I64)),
        Edit::TypeChange(0, "u8", Ty::Prim(Prim::U8)),
        Edit::TypeChange(1, "i32", Ty::Prim(Prim::I32)),
        Edit::TypeChange(1, "nested-struct", nested(Ext::Final, false)),
        Edit::TypeChange(1, "seq-u8", Ty::Seq(Box::new(Ty::Prim(Prim::U8)), 0)),
        Edit::Rename(0),
        Edit::Rename(1),
        Edit::Reid(1),
        Edit::NestedAppend,
        Edit::MakeOptional(1),
    ]
}

// ---------------------------------------------------------------------------------------------------------------
// own reading of the XTypes assignability rules, restricted to the shapes of this lattice

#[derive(Clone, Copy, PartialEq, Debug)]
pub struct Tce {
    pub allow_coercion: bool,
    pub ignore_member_names: bool,
}
impl Tce {
    pub fn all() -> [Tce; 3] {
        [Tce { allow_coercion: true, ignore_member_names: false }, Tce { allow_coercion: true, ignore_member_names: true }, Tce { allow_coercion: false, ignore_member_names: false }]
    }
    pub fn name(&self) -> &'static str {
        match (self.allow_coercion, self.ignore_member_names) {
            (true, false) => "allow-coercion",
            (true, true) => "allow-coercion+ignore-member-names",
            _ => "disallow-coercion",
        }
    }
    fn dust(&self) -> TypeConsistencyEnforcementQosPolicy {
        TypeConsistencyEnforcementQosPolicy {
            kind: if self.allow_coercion { TypeConsistencyKind::AllowTypeCoercion } else { TypeConsistencyKind::DisallowTypeCoercion },
            ignore_sequence_bounds: true,
            ignore_string_bounds: true,
            ignore_member_names: self.ignore_member_names,
            prevent_type_widening: false,
            force_type_validation: false,
        }
    }
}

fn ty_assignable(t1: &Ty, t2: &Ty, tce: &Tce) -> bool {
    match (t1, t2) {
        (Ty::Prim(a), Ty::Prim(b)) => a == b,
        (Ty::Str(_), Ty::Str(_)) => true, // bounds ignored (ignore_string_bounds)
        (Ty::WStr, Ty::WStr) => true,
        (Ty::Enum(a), Ty::Enum(b)) => a == b,
        (Ty::Seq(a, _), Ty::Seq(b, _)) => ty_assignable(a, b, tce),
        (Ty::Arr(a, n), Ty::Arr(b, k)) => n == k && ty_assignable(a, b, tce),
        (Ty::Struct(a), Ty::Struct(b)) => ref_assignable(a, b, tce),
        _ => false,
    }
}

/// T1 (reader) is-assignable-from T2 (writer), XTypes 1.3 7.2.4.4.8 (structure types)
pub fn ref_assignable(t1: &StructTy, t2: &StructTy, tce: &Tce) -> bool {
    if t1 == t2 {
        return true;
    }
    if !tce.allow_coercion {
        return false;
    }
    if t1.ext != t2.ext {
        return false;
    }
    // same id <=> same name (unless member names are ignored)
    if !tce.ignore_member_names {
        for m1 in &t1.members {
            for m2 in &t2.members {
                if (m1.id == m2.id) != (m1.name == m2.name) {
                    return false;
                }
            }
        }
    }
    let common: Vec<(&Member, &Member)> = t1.members.iter().filter_map(|m1| t2.members.iter().find(|m2| m2.id == m1.id).map(|m2| (m1, m2))).collect();
    if common.is_empty() {
        return false;
    }
    if !common.iter().all(|(m1, m2)| ty_assignable(&m1.ty, &m2.ty, tce)) {
        return false;
    }
    // key members and non-optional must-understand members (= key members here) of either type appear in both
    for (a, b) in [(t1, t2), (t2, t1)] {
        for m in &a.members {
            if m.key && !b.members.iter().any(|x| x.id == m.id) {
                return false;
            }
        }
    }
    // common members agree on being key
    if common.iter().any(|(m1, m2)| m1.key != m2.key) {
        return false;
    }
    // non-mutable types: an optional and a non-optional member have incompatible encodings (see NOTES.md, doubt)
    if t1.ext != Ext::Mutable && common.iter().any(|(m1, m2)| m1.opt != m2.opt) {
        return false;
    }
    match t1.ext {
        // final: the same set of members
        Ext::Final => t1.members.len() == t2.members.len() && common.len() == t1.members.len() && t1.members.iter().zip(&t2.members).all(|(a, b)| a.id == b.id),
        // appendable: members at the same index have the same id (one type is a prefix of the other)
        Ext::Appendable => t1.members.iter().zip(&t2.members).all(|(a, b)| a.id == b.id),
        Ext::Mutable => true,
    }
}

fn dust_assignable(t1: &StructTy, t2: &StructTy, tce: &Tce) -> Outcome<bool> {
    let d1 = cached_type(t1);
    let d2 = cached_type(t2);
    let q = tce.dust();
    match std::panic::catch_unwind(std::panic::AssertUnwindSafe(|| {
        let o1 = CompleteTypeObject::from(d1);
        let o2 = CompleteTypeObject::from(d2);
        o1.is_assignable_from_w_type_consistency(&o2, &q)
    })) {
        Ok(b) => Outcome::Ok(b),
        Err(p) => Outcome::Panic(panic_msg(p)),
    }
}

// ---------------------------------------------------------------------------------------------------------------

/// what the reader must see: per reader member either the writer's value (common member) or default/absent
fn check_decoded(tw: &StructTy, tr: &StructTy, v: &Val, got: &Val) -> Result<(), (String, String)> {
    let (Val::Struct(wv), Val::Struct(rv)) = (v, got) else { panic!() };
    for (i, mr) in tr.members.iter().enumerate() {
        match tw.members.iter().position(|mw| mw.id == mr.id) {
            Some(j) => {
                let expect = expected_common(&tw.members[j].ty, &mr.ty, wv[j].as_ref());
                let ok = match (&expect, &rv[i]) {
                    (None, None) => true,
                    (Some(e), Some(g)) => e == g,
                    // an absent optional may also be presented as the default value... no: absent must stay absent
                    _ => false,
                };
                if !ok {
                    return Err(("common-member-differs".into(), format!("member {} (id {}): writer sent {:?}, reader sees {:?}", mr.name, mr.id, expect.map(|e| val_to_json(&e).to_string()), rv[i].as_ref().map(|g| val_to_json(g).to_string()))));
                }
            }
            None => {
                let ok = match &rv[i] {
                    None => true,
                    Some(g) => *g == default_val(&mr.ty),
                };
                if !ok {
                    return Err(("new-member-not-default".into(), format!("member {} (id {}) is unknown to the writer but the reader sees {}", mr.name, mr.id, val_to_json(rv[i].as_ref().unwrap()))));
                }
            }
        }
    }
    Ok(())
}

/// value of a common member as seen through the reader's member type (nested types may have evolved too)
fn expected_common(tw: &Ty, tr: &Ty, v: Option<&Val>) -> Option<Val> {
    let v = v?;
    Some(match (tw, tr, v) {
        (Ty::Struct(sw), Ty::Struct(sr), Val::Struct(wv)) => Val::Struct(
            sr.members
                .iter()
                .map(|mr| match sw.members.iter().position(|mw| mw.id == mr.id) {
                    Some(j) => expected_common(&sw.members[j].ty, &mr.ty, wv[j].as_ref()),
                    None => None,
                })
                .collect(),
        ),
        _ => v.clone(),
    })
}

/// nested members unknown to the writer may be absent or default: normalise defaults of such members to absent
fn normalise(tw: &Ty, tr: &Ty, got: Option<Val>) -> Option<Val> {
    let g = got?;
    Some(match (tw, tr, g) {
        (Ty::Struct(sw), Ty::Struct(sr), Val::Struct(rv)) => Val::Struct(
            sr.members
                .iter()
                .zip(rv)
                .map(|(mr, x)| match sw.members.iter().find(|mw| mw.id == mr.id) {
                    Some(mw) => normalise(&mw.ty, &mr.ty, x),
                    None => match x {
                        Some(d) if d == default_val(&mr.ty) => None,
                        o => o,
                    },
                })
                .collect(),
        ),
        (_, _, g) => g,
    })
}

pub struct PairResult {
    pub fails: Vec<(String, String)>,
    pub info: Vec<String>,
}

pub fn eval_pair(tw: &StructTy, tr: &StructTy, tce: &Tce, thorough: bool) -> PairResult {
    let mut fails: Vec<(String, String)> = Vec::new();
    let mut info = Vec::new();
    let refa = ref_assignable(tr, tw, tce);
    let dusta = match dust_assignable(tr, tw, tce) {
        Outcome::Ok(b) => b,
        Outcome::Panic(m) => {
            fails.push((format!("panic/is-assignable-from/{}", msg_class(&m)), m));
            return PairResult { fails, info };
        }
        Outcome::Err(_) => unreachable!(),
    };
    match (dusta, refa) {
        (true, false) => fails.push(("dust-assignable-but-xtypes-rules-say-no".into(), String::new())),
        (false, true) => fails.push(("dust-not-assignable-but-xtypes-rules-say-yes".into(), String::new())),
        _ => {}
    }
    info.push(format!("assignable={dusta}"));
    // decoding the writer's bytes with the reader's type
    let dw = cached_type(tw);
    let dr = cached_type(tr);
    let reps: &[Rep] = if thorough { &[Rep::X1Le, Rep::X1Be, Rep::X2Le, Rep::X2Be] } else { &[Rep::X1Le, Rep::X2Le] };
    let mut decode_ok_all = true;
    for r in reps {
        let ver = if r.v2() { "xcdr2" } else { "xcdr1" };
        for v in struct_vals(tw, 0, true) {
            let data = to_dynamic(tw, dw, &v);
            let bytes = match dust_serialize(&data, *r) {
                Outcome::Ok(b) => b,
                _ => continue,
            };
            // only meaningful when the writer's own type reads the bytes back (C09 covers the rest)
            let self_ok = matches!(dust_deserialize(dw, &bytes), Outcome::Ok(d) if matches!(from_dynamic(tw, &d), Ok(b) if b == v));
            if !self_ok {
                info.push(format!("{ver}: writer type does not round trip (see C09)"));
                continue;
            }
            let res: Result<(), (String, String)> = match dust_deserialize(dr, &bytes) {
                Outcome::Ok(d) => match from_dynamic(tr, &d) {
                    Ok(Val::Struct(ms)) => {
                        let got = Val::Struct(tr.members.iter().zip(ms).map(|(mr, x)| match tw.members.iter().find(|mw| mw.id == mr.id) { Some(mw) => normalise(&mw.ty, &mr.ty, x), None => x }).collect());
                        check_decoded(tw, tr, &v, &got)
                    }
                    Ok(_) => unreachable!(),
                    Err(e) => Err(("decode-fails".into(), format!("decoded data does not fit the reader type: {e}"))),
                },
                Outcome::Err(e) => Err(("decode-fails".into(), format!("deserialize returned {e}"))),
                Outcome::Panic(m) => Err((format!("panic/deserialize/{}", msg_class(&m)), m)),
            };
            if let Err((cat, detail)) = res {
                decode_ok_all = false;
                // the property speaks about pairs that are assignable under the XTypes rules; where only dust-dds calls a
                // pair assignable the wrong decision is the finding and the decoding failure its consequence
                if refa || cat.starts_with("panic") {
                    let cat = if cat.starts_with("panic") { cat } else { format!("assignable-but-{cat}") };
                    if !fails.iter().any(|(c, _)| *c == format!("{cat}/{ver}")) {
                        fails.push((format!("{cat}/{ver}"), format!("writer value {} ({}) bytes {}: {}", val_to_json(&v), r.name(), hex(&bytes), detail)));
                    }
                }
            }
        }
    }
    if !dusta && decode_ok_all {
        info.push("not-assignable-but-decoding-preserves-common-members".into());
    }
    if dusta && !refa {
        let consequence = if decode_ok_all { "decoding happens to preserve the common members" } else { "decoding the writer's samples with the reader's type fails or changes the common members" };
        for f in fails.iter_mut() {
            if f.0 == "dust-assignable-but-xtypes-rules-say-no" {
                f.1 = consequence.to_string();
            }
        }
    }
    PairResult { fails, info }
}

fn pair_json(tw: &StructTy, tr: &StructTy, tce: &Tce, edit: &str) -> Value {
    json!({"check": "C39", "writer": struct_to_json(tw), "reader": struct_to_json(tr), "writer_idl": tw.idl(), "reader_idl": tr.idl(), "tce": tce.name(), "edit": edit})
}

/// evaluates one (writer, reader) pair under the three type consistency settings: signature parts per failure
/// (category, type-consistency class, first detail, index of the first setting)
fn eval_all_tce(tw: &StructTy, tr: &StructTy, thorough: bool, rep: Option<&mut Report>, label: &str) -> Vec<(String, String, String, usize)> {
    let mut by_cat: std::collections::BTreeMap<String, (Vec<usize>, String)> = std::collections::BTreeMap::new();
    let tces = Tce::all();
    let mut rep = rep;
    for (ti, tce) in tces.iter().enumerate() {
        let res = eval_pair(tw, tr, tce, thorough);
        if let Some(rep) = rep.as_deref_mut() {
            rep.evaluations += 1;
            rep.states += struct_vals(tw, 0, true).len() as u64;
            // reflexivity
            for x in [tw, tr] {
                match dust_assignable(x, x, tce) {
                    Outcome::Ok(true) => {}
                    Outcome::Ok(false) => rep.finding(format!("not-reflexive/{}/{}", x.ext.name(), tce.name()), format!("{} is not assignable from itself", x.idl()), pair_json(x, x, tce, "identical")),
                    Outcome::Panic(m) => rep.finding(format!("panic/is-assignable-from/{}/reflexive/{}", msg_class(&m), x.ext.name()), format!("{}: {m}", x.idl()), pair_json(x, x, tce, "identical")),
                    Outcome::Err(_) => {}
                }
            }
            if res.fails.is_empty() {
                rep.distinct(format!("ok/{}/{}/{}", label, tce.name(), res.info.join(",")));
                if rep.samples.len() < 3 {
                    rep.sample(json!({"writer": tw.idl(), "reader": tr.idl(), "tce": tce.name(), "info": res.info}));
                }
            }
        }
        for (cat, detail) in res.fails {
            let e = by_cat.entry(cat).or_insert((vec![], detail));
            e.0.push(ti);
        }
    }
    by_cat
        .into_iter()
        .map(|(cat, (tis, detail))| {
            let tclass = if tis.len() == tces.len() {
                "any-type-consistency".to_string()
            } else if tis == vec![0, 1] {
                "when-coercion-allowed".to_string()
            } else {
                format!("only-{}", tis.iter().map(|i| tces[*i].name()).collect::<Vec<_>>().join("+"))
            };
            (cat, tclass, detail, tis[0])
        })
        .collect()
}

fn signature(cat: &str, tclass: &str, ename: &str, dir: &str, ext: Ext, reader_ext: Ext) -> String {
    if cat == "dust-assignable-but-xtypes-rules-say-no" && tclass == "only-disallow-coercion" {
        // one root cause: TypeConsistencyKind (DISALLOW_TYPE_COERCION) is not looked at
        format!("{}/disallow-type-coercion-ignored/{}", cat, ext.name())
    } else if cat.starts_with("panic/") {
        // the panic message names the root cause; which edit produced the unreadable bytes does not matter
        let _ = ename;
        format!("{}/reader-{}", cat, reader_ext.name())
    } else {
        format!("{}/{}/{}/{}/{}", cat, ename, dir, ext.name(), tclass)
    }
}

pub fn run(args: &Args, rep: &mut Report) {
    install_quiet_panic_hook();
    let thorough = args.thorough();
    let eds = edits();
    let tces = Tce::all();
    let mut k = 0usize;
    for (bname, members) in bases() {
        for ext in Ext::all() {
            let base = StructTy { name: "T".into(), ext, members: members.clone() };
            // (a) one edit. In the thorough tier every shard evaluates all of them (they are few) because their signatures
            // are needed to attribute the failures of two-edit pairs; only the shard's own items are counted and reported.
            let mut single_sigs: std::collections::HashMap<String, String> = std::collections::HashMap::new();
            let mut singles: Vec<(String, StructTy)> = vec![("identical".into(), base.clone())];
            for e in &eds {
                if let Some(t) = e.apply(&base) {
                    singles.push((e.name(), t));
                }
            }
            for (ename, t) in &singles {
                for (dir, tw, tr) in [("reader-evolved", &base, t), ("writer-evolved", t, &base)] {
                    if dir == "writer-evolved" && ename == "identical" {
                        continue;
                    }
                    k += 1;
                    let mine = args.mine(k);
                    if !mine && !thorough {
                        continue;
                    }
                    let label = format!("{}/{}/{}/{}", ext.name(), bname, ename, dir);
                    let fails = eval_all_tce(tw, tr, thorough, if mine { Some(&mut *rep) } else { None }, &label);
                    for (cat, tclass, detail, ti) in fails {
                        let sig = signature(&cat, &tclass, ename, dir, ext, tr.ext);
                        single_sigs.entry(format!("{cat}|{ename}|{dir}")).or_insert(sig.clone());
                        if mine {
                            rep.distinct(format!("fail/{sig}/{bname}"));
                            rep.finding(sig, format!("writer {} reader {} [{}]: {}", tw.idl(), tr.idl(), tces[ti].name(), detail), pair_json(tw, tr, &tces[ti], ename));
                        }
                    }
                }
            }
            if !thorough {
                continue;
            }
            // (b) two edits: a failure that one of the two edits shows on its own is reported under that edit's signature
            for (i, e1) in eds.iter().enumerate() {
                for e2 in eds.iter().skip(i + 1) {
                    let Some(t) = e1.apply(&base).and_then(|t| e2.apply(&t)) else { continue };
                    let ename = format!("{}+{}", e1.name(), e2.name());
                    for (dir, tw, tr) in [("reader-evolved", &base, &t), ("writer-evolved", &t, &base)] {
                        k += 1;
                        if !args.mine(k) {
                            continue;
                        }
                        let label = format!("{}/{}/two-edits/{}", ext.name(), bname, dir);
                        let fails = eval_all_tce(tw, tr, thorough, Some(&mut *rep), &label);
                        for (cat, tclass, detail, ti) in fails {
                            let own = signature(&cat, &tclass, &ename, dir, ext, tr.ext);
                            let sig = if cat.starts_with("panic/") {
                                own
                            } else if let Some(s1) = single_sigs.get(&format!("{cat}|{}|{dir}", e1.name())) {
                                s1.clone()
                            } else if let Some(s2) = single_sigs.get(&format!("{cat}|{}|{dir}", e2.name())) {
                                s2.clone()
                            } else {
                                own
                            };
                            rep.distinct(format!("fail/{sig}/{bname}"));
                            rep.finding(sig, format!("writer {} reader {} [{}] (edits {}): {}", tw.idl(), tr.idl(), tces[ti].name(), ename, detail), pair_json(tw, tr, &tces[ti], &ename));
                        }
                    }
                }
            }
        }
    }
}

pub fn replay(v: &Value) -> bool {
    install_quiet_panic_hook();
    let tw = struct_from_json(&v["writer"]);
    let tr = struct_from_json(&v["reader"]);
    let tce = Tce::all().into_iter().find(|t| Some(t.name()) == v["tce"].as_str()).unwrap_or(Tce::all()[0]);
    println!("writer: {}", tw.idl());
    println!("reader: {}", tr.idl());
    println!("type consistency: {}", tce.name());
    println!("dust-dds assignable: {:?}", match dust_assignable(&tr, &tw, &tce) { Outcome::Ok(b) => format!("{b}"), Outcome::Panic(m) => format!("panic {m}"), Outcome::Err(e) => e });
    println!("XTypes rules (own reading): {}", ref_assignable(&tr, &tw, &tce));
    let res = eval_pair(&tw, &tr, &tce, true);
    for (c, d) in &res.fails {
        println!("VIOLATION {c}: {d}");
    }
    println!("info: {:?}", res.info);
    res.fails.is_empty()
}
