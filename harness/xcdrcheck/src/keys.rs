//! C11 (instance identity) and C12 (key hash per DDS-XTypes 7.6.8) over a lattice of keyed types x all ordered value pairs.
use crate::ast::*;
use crate::bridge::*;
use crate::refcodec;
use std::rc::Rc;
use vutil::serde_json::{json, Value};
use vutil::{hex, Args, Report};

fn m(name: &str, id: u32, ty: Ty, key: bool) -> Member {
    Member { name: name.into(), id, ty, key, opt: false }
}
fn st(name: &str, ext: Ext, members: Vec<Member>) -> StructTy {
    StructTy { name: name.into(), ext, members }
}
fn p(x: Prim) -> Ty {
    Ty::Prim(x)
}

/// (shape name, type). The shape name is part of the finding signatures.
pub fn keyed_types(thorough: bool) -> Vec<(String, StructTy)> {
    let mut base: Vec<(&str, Vec<Member>)> = vec![
        ("u8-key", vec![m("k", 0, p(Prim::U8), true), m("v", 1, p(Prim::I32), false)]),
        ("i32-key", vec![m("k", 0, p(Prim::I32), true), m("v", 1, p(Prim::U8), false)]),
        ("i64-key", vec![m("k", 0, p(Prim::I64), true), m("v", 1, p(Prim::U8), false)]),
        ("unbounded-string-key", vec![m("k", 0, Ty::Str(0), true), m("v", 1, p(Prim::I32), false)]),
        ("string4-key", vec![m("k", 0, Ty::Str(4), true), m("v", 1, p(Prim::I32), false)]),
        ("string11-key", vec![m("k", 0, Ty::Str(11), true), m("v", 1, p(Prim::I32), false)]),
        ("string12-key", vec![m("k", 0, Ty::Str(12), true), m("v", 1, p(Prim::I32), false)]),
        ("enum-key", vec![m("k", 0, Ty::Enum(the_enum()), true), m("v", 1, p(Prim::I32), false)]),
        ("key-after-non-key", vec![m("v", 0, p(Prim::I32), false), m("k", 1, p(Prim::I32), true)]),
        ("two-keys-u8-i64", vec![m("k1", 0, p(Prim::U8), true), m("k2", 1, p(Prim::I64), true), m("v", 2, p(Prim::U8), false)]),
        ("two-keys-i32-i32", vec![m("k1", 0, p(Prim::I32), true), m("v", 1, p(Prim::U8), false), m("k2", 2, p(Prim::I32), true)]),
        ("two-keys-i64-i64", vec![m("k1", 0, p(Prim::I64), true), m("k2", 1, p(Prim::I64), true), m("v", 2, p(Prim::U8), false)]),
        ("three-keys-i64-i64-u8", vec![m("k1", 0, p(Prim::I64), true), m("k2", 1, p(Prim::I64), true), m("k3", 2, p(Prim::U8), true), m("v", 3, p(Prim::U8), false)]),
        ("two-keys-u8-i64-ids-descending", vec![m("k1", 7, p(Prim::U8), true), m("k2", 3, p(Prim::I64), true), m("v", 9, p(Prim::U8), false)]),
        ("two-keys-i32-u8-ids-descending", vec![m("k1", 5, p(Prim::I32), true), m("k2", 2, p(Prim::U8), true), m("v", 1, p(Prim::U8), false)]),
        ("string4-and-u8-keys", vec![m("k1", 0, Ty::Str(4), true), m("k2", 1, p(Prim::U8), true), m("v", 2, p(Prim::U8), false)]),
        ("seq-u8-bounded3-key", vec![m("k", 0, Ty::Seq(Box::new(p(Prim::U8)), 3), true), m("v", 1, p(Prim::U8), false)]),
        ("arr3-i32-key", vec![m("k", 0, Ty::Arr(Box::new(p(Prim::I32)), 3), true), m("v", 1, p(Prim::U8), false)]),
    ];
    // nested struct keys
    let plain_inner = |ext| Rc::new(st("PlainIn", ext, vec![m("a", 0, p(Prim::U8), false), m("b", 1, p(Prim::I64), false)]));
    let keyed_inner = |ext| Rc::new(st("KeyedIn", ext, vec![m("a", 0, p(Prim::U8), true), m("b", 1, p(Prim::I32), false)]));
    base.push(("nested-struct-key", vec![m("k", 0, Ty::Struct(plain_inner(Ext::Final)), true), m("v", 1, p(Prim::U8), false)]));
    base.push(("nested-appendable-struct-key", vec![m("k", 0, Ty::Struct(plain_inner(Ext::Appendable)), true), m("v", 1, p(Prim::U8), false)]));
    base.push(("nested-mutable-struct-key", vec![m("k", 0, Ty::Struct(plain_inner(Ext::Mutable)), true), m("v", 1, p(Prim::U8), false)]));
    base.push(("nested-keyed-struct-key", vec![m("k", 0, Ty::Struct(keyed_inner(Ext::Final)), true), m("v", 1, p(Prim::U8), false)]));
    // a nested struct member that is NOT a key, of a type that has key members: contributes nothing (XTypes 7.6.8 / DDS 1.4)
    base.push(("non-key-nested-keyed-struct", vec![m("k", 0, p(Prim::U8), true), m("n", 1, Ty::Struct(keyed_inner(Ext::Final)), false)]));
    base.push(("non-key-nested-keyed-struct-same-id", vec![m("n", 0, Ty::Struct(keyed_inner(Ext::Final)), false), m("k", 1, p(Prim::I32), true)]));
    let exts: Vec<Ext> = if thorough { Ext::all().to_vec() } else { vec![Ext::Final, Ext::Mutable] };
    let mut out = Vec::new();
    for (name, members) in base {
        for e in &exts {
            out.push((format!("{}/{}", e.name(), name), st("K", *e, members.clone())));
        }
    }
    out
}

/// values of a keyed type: key members take the full lattice, the others a reduced one (3 values)
fn keyed_vals(s: &StructTy) -> Vec<Val> {
    let mut acc: Vec<Vec<Option<Val>>> = vec![vec![]];
    for mem in &s.members {
        let mv: Vec<Val> = if mem.key || matches!(&mem.ty, Ty::Struct(t) if t.members.iter().any(|x| x.key)) { vals(&mem.ty, 0, false) } else { vals(&mem.ty, 1, true) };
        // keep the product bounded: at most 8 values per member
        let mv: Vec<Val> = if mv.len() > 8 { (0..8).map(|i| mv[i * mv.len() / 8].clone()).collect() } else { mv };
        let mut next = Vec::new();
        for a in &acc {
            for v in &mv {
                let mut a2 = a.clone();
                a2.push(Some(v.clone()));
                next.push(a2);
            }
        }
        acc = next;
    }
    // bounded strings: only values within the bound
    acc.into_iter()
        .filter(|ms| {
            s.members.iter().zip(ms).all(|(mem, v)| match (&mem.ty, v) {
                (Ty::Str(b), Some(Val::Str(x))) if *b > 0 => x.len() <= *b as usize,
                (Ty::Seq(_, b), Some(Val::Seq(x))) if *b > 0 => x.len() <= *b as usize,
                _ => true,
            })
        })
        .map(Val::Struct)
        .collect()
}

// ---------------------------------------------------------------------------------------------------------------
// reference key holder / key hash

#[derive(Clone, Copy, PartialEq, Debug)]
pub struct KeyOpts {
    /// serialize with XCDR2 rules (max alignment 4); false = XCDR1 (8)
    pub v2: bool,
    /// members in member id order; false = declaration order
    pub by_id: bool,
    /// padding-vs-MD5 decided by the maximum serialized size; false = by the actual size
    pub by_max: bool,
    /// key holder of a nested key struct holds only its key members; false = all members
    pub nested_keys_only: bool,
    /// (not XTypes) key members of a nested struct member that is itself NOT a key are part of the key, flattened into
    /// the enclosing key holder and stored by member id (a later member overwrites an earlier one with the same id)
    pub flatten_non_key_nested: bool,
}
impl KeyOpts {
    pub fn spec() -> Self {
        KeyOpts { v2: true, by_id: true, by_max: true, nested_keys_only: true, flatten_non_key_nested: false }
    }
    pub fn deviations(&self) -> Vec<&'static str> {
        let mut d = Vec::new();
        if !self.by_max {
            d.push("md5-vs-padding-by-actual-size");
        }
        if !self.v2 {
            d.push("xcdr1-alignment");
        }
        if !self.by_id {
            d.push("declaration-order");
        }
        if !self.nested_keys_only {
            d.push("nested-key-struct-all-members");
        }
        if self.flatten_non_key_nested {
            d.push("non-key-nested-struct-keys-included");
        }
        d
    }
}

/// KeyHolder(T) and the matching value (XTypes 7.6.8.3): key members only (all members when a nested type has none)
fn key_holder(s: &StructTy, v: &Val, o: &KeyOpts, top: bool) -> (StructTy, Val) {
    let Val::Struct(ms) = v else { panic!() };
    let any_key = s.members.iter().any(|x| x.key);
    let all = (!top && !any_key) || (!top && !o.nested_keys_only);
    let mut items: Vec<(Member, Val)> = Vec::new();
    for (mem, mv) in s.members.iter().zip(ms) {
        if mem.key || all {
            let mv = mv.clone().expect("key members are not optional");
            let (ty, mv) = match &mem.ty {
                Ty::Struct(inner) => {
                    let (hs, hv) = key_holder(inner, &mv, o, false);
                    (Ty::Struct(Rc::new(hs)), hv)
                }
                t => (t.clone(), mv),
            };
            items.push((Member { name: mem.name.clone(), id: mem.id, ty, key: false, opt: false }, mv));
        }
    }
    if o.by_id {
        items.sort_by_key(|(mem, _)| mem.id);
    }
    (StructTy { name: format!("KeyHolder_{}", s.name), ext: Ext::Final, members: items.iter().map(|(a, _)| a.clone()).collect() }, Val::Struct(items.into_iter().map(|(_, b)| Some(b)).collect()))
}

/// the flattening variant (see KeyOpts::flatten_non_key_nested)
fn key_holder_flat(s: &StructTy, v: &Val, o: &KeyOpts) -> (StructTy, Val) {
    fn collect(s: &StructTy, v: &Val, o: &KeyOpts, out: &mut Vec<(Member, Val)>) {
        let Val::Struct(ms) = v else { panic!() };
        for (mem, mv) in s.members.iter().zip(ms) {
            let Some(mv) = mv else { continue };
            if mem.key {
                let (ty, mv) = match &mem.ty {
                    Ty::Struct(inner) => {
                        let (hs, hv) = key_holder(inner, mv, o, false);
                        (Ty::Struct(Rc::new(hs)), hv)
                    }
                    t => (t.clone(), mv.clone()),
                };
                out.push((Member { name: mem.name.clone(), id: mem.id, ty, key: false, opt: false }, mv));
            } else if let (Ty::Struct(inner), false) = (&mem.ty, mem.opt) {
                collect(inner, mv, o, out);
            }
        }
    }
    let mut items = Vec::new();
    collect(s, v, o, &mut items);
    // storage by member id: the last value stored under an id wins
    let mut store: std::collections::BTreeMap<u32, Val> = std::collections::BTreeMap::new();
    for (mem, val) in &items {
        store.insert(mem.id, val.clone());
    }
    if o.by_id {
        items.sort_by_key(|(mem, _)| mem.id);
    }
    (
        StructTy { name: format!("KeyHolder_{}", s.name), ext: Ext::Final, members: items.iter().map(|(a, _)| a.clone()).collect() },
        Val::Struct(items.iter().map(|(mem, _)| Some(store[&mem.id].clone())).collect()),
    )
}

fn max_size(t: &Ty, pos: usize, maxalign: usize) -> Option<usize> {
    let al = |pos: usize, a: usize| (pos + a.min(maxalign) - 1) / a.min(maxalign) * a.min(maxalign);
    Some(match t {
        Ty::Prim(p) => al(pos, p.size()) + p.size(),
        Ty::Enum(_) => al(pos, 4) + 4,
        Ty::Str(0) | Ty::WStr => return None,
        Ty::Str(b) => al(pos, 4) + 4 + *b as usize + 1,
        Ty::Seq(_, 0) => return None,
        Ty::Seq(e, b) => {
            let mut q = al(pos, 4) + 4;
            if maxalign == 4 && !matches!(**e, Ty::Prim(_)) {
                q += 4;
            }
            for _ in 0..*b {
                q = max_size(e, q, maxalign)?;
            }
            q
        }
        Ty::Arr(e, n) => {
            let mut q = pos;
            if maxalign == 4 && !matches!(**e, Ty::Prim(_)) {
                q = al(q, 4) + 4;
            }
            for _ in 0..*n {
                q = max_size(e, q, maxalign)?;
            }
            q
        }
        Ty::Struct(s) => {
            let mut q = pos;
            for mem in &s.members {
                q = max_size(&mem.ty, q, maxalign)?;
            }
            q
        }
        Ty::Union(_) => return None,
    })
}

pub struct RefKey {
    pub hash: [u8; 16],
    pub stream: Vec<u8>,
    pub max: Option<usize>,
    pub md5: bool,
}

pub fn ref_key(s: &StructTy, v: &Val, o: &KeyOpts) -> RefKey {
    let (hs, hv) = if o.flatten_non_key_nested { key_holder_flat(s, v, o) } else { key_holder(s, v, o, true) };
    let t = Ty::Struct(Rc::new(hs));
    let stream = refcodec::encode_plain(&t, &hv, o.v2, true);
    let max = max_size(&t, 0, if o.v2 { 4 } else { 8 });
    let use_md5 = if o.by_max { max.map(|x| x > 16).unwrap_or(true) } else { stream.len() > 16 };
    let mut hash = [0u8; 16];
    if use_md5 {
        hash = md5::compute(&stream).0;
    } else {
        hash[..stream.len()].copy_from_slice(&stream);
    }
    RefKey { hash, stream, max, md5: use_md5 }
}

/// key equality per XTypes: the key holder values are equal
fn key_equal(s: &StructTy, a: &Val, b: &Val) -> bool {
    let o = KeyOpts::spec();
    key_holder(s, a, &o, true).1 == key_holder(s, b, &o, true).1
}

fn dust_handle(s: &StructTy, dt: dust_dds::xtypes::dynamic_type::DynamicType<'static>, v: &Val) -> Outcome<[u8; 16]> {
    use dust_dds::verif_hooks::xtypes_glue::key_and_instance_handle::get_instance_handle_from_dynamic_data;
    let d = to_dynamic(s, dt, v);
    match std::panic::catch_unwind(std::panic::AssertUnwindSafe(|| get_instance_handle_from_dynamic_data(&d))) {
        Ok(Ok(h)) => Outcome::Ok(*h.as_ref()),
        Ok(Err(e)) => Outcome::Err(format!("{e:?}")),
        Err(pn) => Outcome::Panic(panic_msg(pn)),
    }
}

fn replay_json(check: &str, shape: &str, s: &StructTy, a: &Val, b: Option<&Val>) -> Value {
    json!({"check": check, "shape": shape, "type": struct_to_json(s), "idl": s.idl(), "a": val_to_json(a), "b": b.map(val_to_json)})
}

pub fn run_c11(args: &Args, rep: &mut Report) {
    install_quiet_panic_hook();
    let mut k = 0usize;
    for (shape, s) in keyed_types(args.thorough()) {
        let dt = build_struct(&s);
        let vs = keyed_vals(&s);
        let handles: Vec<Outcome<[u8; 16]>> = vs.iter().map(|v| dust_handle(&s, dt, v)).collect();
        rep.max("max_values_per_type", vs.len() as u64);
        for (i, a) in vs.iter().enumerate() {
            k += 1;
            if !args.mine(k) {
                continue;
            }
            let ha = match &handles[i] {
                Outcome::Ok(h) => h,
                Outcome::Err(e) => {
                    rep.evaluations += 1;
                    rep.finding(format!("handle-error/{shape}"), format!("{} value {}: get_instance_handle returned {e}", s.idl(), val_to_json(a)), replay_json("C11", &shape, &s, a, None));
                    continue;
                }
                Outcome::Panic(pm) => {
                    rep.evaluations += 1;
                    rep.finding(format!("panic/instance-handle/{}/{shape}", msg_class(pm)), format!("{} value {}: {pm}", s.idl(), val_to_json(a)), replay_json("C11", &shape, &s, a, None));
                    continue;
                }
            };
            for (j, b) in vs.iter().enumerate() {
                let Outcome::Ok(hb) = &handles[j] else { continue };
                rep.evaluations += 1;
                let keq = key_equal(&s, a, b);
                let heq = ha == hb;
                if keq == heq {
                    rep.distinct(format!("ok/{}/{}", shape, if keq { "same-key-same-handle" } else { "different-key-different-handle" }));
                    if rep.samples.len() < 3 && i != j && keq {
                        rep.sample(json!({"idl": s.idl(), "a": val_to_json(a), "b": val_to_json(b), "handle": hex(ha)}));
                    }
                } else if keq {
                    rep.distinct(format!("fail/same-key-different-handle/{shape}"));
                    rep.finding(
                        format!("same-key-different-handle/{shape}"),
                        format!("{}: a={} b={} have equal key members but handles {} / {}", s.idl(), val_to_json(a), val_to_json(b), hex(ha), hex(hb)),
                        replay_json("C11", &shape, &s, a, Some(b)),
                    );
                } else {
                    rep.distinct(format!("fail/different-key-same-handle/{shape}"));
                    rep.finding(
                        format!("different-key-same-handle/{shape}"),
                        format!("{}: a={} b={} differ in a key member but share the handle {}", s.idl(), val_to_json(a), val_to_json(b), hex(ha)),
                        replay_json("C11", &shape, &s, a, Some(b)),
                    );
                }
            }
        }
        rep.set("cfg_types", json!(keyed_types(args.thorough()).len()));
    }
}

/// names the way in which a handle differs from the 7.6.8 key hash: the smallest set of deviations of the reference
/// that reproduces it
fn explain_key(s: &StructTy, v: &Val, h: &[u8; 16]) -> Option<Vec<&'static str>> {
    let mut best: Option<Vec<&'static str>> = None;
    for mask in 0..32u32 {
        let o = KeyOpts { by_max: mask & 1 == 0, v2: mask & 2 == 0, by_id: mask & 4 == 0, nested_keys_only: mask & 8 == 0, flatten_non_key_nested: mask & 16 != 0 };
        if &ref_key(s, v, &o).hash == h {
            let d = o.deviations();
            if best.as_ref().map(|b| d.len() < b.len()).unwrap_or(true) {
                best = Some(d);
            }
        }
    }
    best
}

pub fn c12_eval(s: &StructTy, dt: dust_dds::xtypes::dynamic_type::DynamicType<'static>, v: &Val) -> (Vec<String>, String) {
    let r = ref_key(s, v, &KeyOpts::spec());
    match dust_handle(s, dt, v) {
        Outcome::Ok(h) => {
            if h == r.hash {
                (vec![], format!("handle {} == reference (key stream {}, max size {:?}, md5 {})", hex(&h), hex(&r.stream), r.max, r.md5))
            } else {
                let why: Vec<String> = match explain_key(s, v, &h) {
                    Some(d) => d.into_iter().map(String::from).collect(),
                    None => vec!["other-deviation".into()],
                };
                (
                    why.clone(),
                    format!(
                        "dust-dds handle {} != reference key hash {} (XCDR2 BE key stream {}, maximum key size {}, {}); dust-dds value is reproduced by: {}",
                        hex(&h),
                        hex(&r.hash),
                        hex(&r.stream),
                        r.max.map(|x| x.to_string()).unwrap_or("unbounded".into()),
                        if r.md5 { "MD5" } else { "zero padded" },
                        why.join(" + ")
                    ),
                )
            }
        }
        Outcome::Err(e) => (vec!["handle-error".into()], format!("get_instance_handle returned {e}")),
        Outcome::Panic(pm) => (vec![format!("panic/instance-handle/{}", msg_class(&pm))], pm),
    }
}

fn value_class(s: &StructTy, v: &Val) -> &'static str {
    // short / long relative to the 16 byte limit, for the signatures
    let r = ref_key(s, v, &KeyOpts::spec());
    if r.stream.len() <= 16 {
        "short-value"
    } else {
        "long-value"
    }
}

pub fn run_c12(args: &Args, rep: &mut Report) {
    install_quiet_panic_hook();
    let mut k = 0usize;
    for (shape, s) in keyed_types(args.thorough()) {
        let dt = build_struct(&s);
        let vs = keyed_vals(&s);
        rep.set("cfg_types", json!(keyed_types(args.thorough()).len()));
        for v in &vs {
            k += 1;
            if !args.mine(k) {
                continue;
            }
            rep.evaluations += 1;
            let (cats, detail) = c12_eval(&s, dt, v);
            if cats.is_empty() {
                rep.distinct(format!("ok/{}/{}", shape, value_class(&s, v)));
                if rep.samples.len() < 3 {
                    rep.sample(json!({"idl": s.idl(), "value": val_to_json(v), "detail": detail}));
                }
            }
            for c in cats {
                let sig = format!("{}/{}-{}", c, shape, value_class(&s, v));
                rep.distinct(format!("fail/{sig}"));
                rep.finding(sig, format!("{} value {}: {}", s.idl(), val_to_json(v), detail), replay_json("C12", &shape, &s, v, None));
            }
        }
    }
}

pub fn replay(v: &Value) -> bool {
    install_quiet_panic_hook();
    let s = struct_from_json(&v["type"]);
    let a = val_from_json(&v["a"]);
    let dt = build_struct(&s);
    println!("type: {}", s.idl());
    println!("a   : {}", val_to_json(&a));
    if v["check"].as_str() == Some("C12") {
        let (cats, detail) = c12_eval(&s, dt, &a);
        println!("{detail}");
        println!("deviations: {cats:?}");
        cats.is_empty()
    } else {
        let ha = dust_handle(&s, dt, &a);
        let show = |h: &Outcome<[u8; 16]>| match h {
            Outcome::Ok(h) => hex(h),
            Outcome::Err(e) => format!("Err({e})"),
            Outcome::Panic(pm) => format!("panic({pm})"),
        };
        println!("handle(a) = {}", show(&ha));
        if v["b"].is_null() {
            return matches!(ha, Outcome::Ok(_));
        }
        let b = val_from_json(&v["b"]);
        let hb = dust_handle(&s, dt, &b);
        println!("b   : {}", val_to_json(&b));
        println!("handle(b) = {}", show(&hb));
        let keq = key_equal(&s, &a, &b);
        println!("key members equal: {keq}");
        match (ha, hb) {
            (Outcome::Ok(x), Outcome::Ok(y)) => (x == y) == keq,
            _ => false,
        }
    }
}
