//! C09 (round trip) and C10 (conformance with the reference codec) over L-type x L-val.
use crate::ast::*;
use crate::bridge::*;
use crate::refcodec::{self, EncOpts, Extra, LcPolicy, Order, Quirks};
use dust_dds::xtypes::dynamic_type::DynamicType;
use std::collections::{BTreeMap, HashMap};
use vutil::serde_json::{json, Value};
use vutil::{hex, Args, Report};

// ---------------------------------------------------------------------------------------------------------------
// reduction of a failing case to the smallest type that still fails in the same way. The reduced type gives the shape
// class of the signature, its first failing lattice value is the stored (smallest) input.

thread_local! {
    static TYPE_CACHE: std::cell::RefCell<HashMap<String, DynamicType<'static>>> = std::cell::RefCell::new(HashMap::new());
}

/// dust type of a (small, derived) struct, cached by IDL text so that reductions do not leak a type per call
pub fn cached_type(s: &StructTy) -> DynamicType<'static> {
    let k = s.idl();
    if let Some(t) = TYPE_CACHE.with(|c| c.borrow().get(&k).copied()) {
        return t;
    }
    let t = build_struct(s);
    TYPE_CACHE.with(|c| c.borrow_mut().insert(k, t));
    t
}

/// evaluates one case, returns the failure categories (empty = pass)
pub type Oracle<'a> = &'a dyn Fn(&StructTy, DynamicType<'static>, &Val) -> Vec<String>;

#[derive(Default)]
pub struct Reducer {
    cache: HashMap<String, Option<Val>>,
    pub oracle_calls: u64,
}

impl Reducer {
    /// first lattice value of type `s` for which the oracle reports category `cat`
    pub fn first_fail(&mut self, okey: &str, s: &StructTy, cat: &str, oracle: Oracle) -> Option<Val> {
        let key = format!("{okey}|{cat}|{}", s.idl());
        if let Some(r) = self.cache.get(&key) {
            return r.clone();
        }
        let dt = cached_type(s);
        let mut found = None;
        for v in struct_vals(s, 0, s.members.len() >= 3) {
            self.oracle_calls += 1;
            if oracle(s, dt, &v).iter().any(|c| cat == "*" || c == cat) {
                found = Some(v);
                break;
            }
        }
        self.cache.insert(key, found.clone());
        found
    }

    pub fn reduce(&mut self, okey: &str, s: &StructTy, v: &Val, cat: &str, oracle: Oracle) -> (StructTy, Val) {
        self.reduce_guarded(okey, s, v, cat, oracle, None)
    }

    /// first failing value of candidate type `c`, provided the guard oracle (if any) passes for every value of `c`
    fn candidate(&mut self, okey: &str, c: &StructTy, cat: &str, oracle: Oracle, guard: Option<(&str, Oracle)>) -> Option<Val> {
        if let Some((gkey, goracle)) = guard {
            if self.first_fail(gkey, c, "*", goracle).is_some() {
                return None;
            }
        }
        self.first_fail(okey, c, cat, oracle)
    }

    pub fn reduce_guarded(&mut self, okey: &str, s: &StructTy, v: &Val, cat: &str, oracle: Oracle, guard: Option<(&str, Oracle)>) -> (StructTy, Val) {
        let n = s.members.len();
        let mut cur = (s.clone(), v.clone());
        let sub = |keep: &[usize]| StructTy { name: s.name.clone(), ext: s.ext, members: keep.iter().map(|&i| s.members[i].clone()).collect() };
        let mut found = false;
        if n >= 2 {
            for i in 0..n {
                let c = sub(&[i]);
                if let Some(v2) = self.candidate(okey, &c, cat, oracle, guard) {
                    cur = (c, v2);
                    found = true;
                    break;
                }
            }
        }
        if !found && n == 3 {
            for (i, j) in [(0, 1), (0, 2), (1, 2)] {
                let c = sub(&[i, j]);
                if let Some(v2) = self.candidate(okey, &c, cat, oracle, guard) {
                    cur = (c, v2);
                    break;
                }
            }
        }
        // member ids: sequential if the failure does not depend on them
        if id_style(&cur.0.members) != "seq-id" {
            let mut c = cur.0.clone();
            for (i, m) in c.members.iter_mut().enumerate() {
                m.id = i as u32;
            }
            if let Some(v2) = self.candidate(okey, &c, cat, oracle, guard) {
                cur = (c, v2);
            }
        }
        // key -> plain, member type -> u8, optional -> plain: whenever the failure does not depend on it
        for i in 0..cur.0.members.len() {
            if cur.0.members[i].key {
                let mut c = cur.0.clone();
                c.members[i].key = false;
                if let Some(v2) = self.candidate(okey, &c, cat, oracle, guard) {
                    cur = (c, v2);
                }
            }
        }
        for i in 0..cur.0.members.len() {
            if cur.0.members[i].ty != Ty::Prim(Prim::U8) {
                let mut c = cur.0.clone();
                c.members[i].ty = Ty::Prim(Prim::U8);
                if let Some(v2) = self.candidate(okey, &c, cat, oracle, guard) {
                    cur = (c, v2);
                }
            }
        }
        for i in 0..cur.0.members.len() {
            if cur.0.members[i].opt {
                let mut c = cur.0.clone();
                c.members[i].opt = false;
                if let Some(v2) = self.candidate(okey, &c, cat, oracle, guard) {
                    cur = (c, v2);
                }
            }
        }
        // the smallest failing value of the reduced type (the loop above may have kept the original value)
        if let Some(v2) = self.candidate(okey, &cur.0, cat, oracle, guard) {
            cur.1 = v2;
        }
        cur
    }
}

/// Shape class of a panic. A panic is a consequence of reading from a wrong position, and what the smallest panicking type
/// needs around the defect (say, an 8 byte member between two nested structs) says little about the defect: members of a
/// fixed-size or final kind are abstracted to `x`, only the kinds with a length / header of their own are kept.
pub fn panic_class(s: &StructTy) -> String {
    let ms: Vec<String> = s
        .members
        .iter()
        .map(|m| {
            let keep = match &m.ty {
                Ty::Seq(..) | Ty::WStr => true,
                Ty::Struct(t) => t.ext != Ext::Final,
                Ty::Union(u) => u.ext != Ext::Final,
                _ => false,
            };
            format!("{}{}", if m.opt { "optional-" } else { "" }, if keep { m.ty.kind_name() } else { "x".to_string() })
        })
        .collect();
    format!("{}/{}", s.ext.name(), ms.join("+"))
}

fn case_json(check: &str, s: &StructTy, v: &Val, rep: Rep, extra: Value) -> Value {
    let mut j = json!({"check": check, "type": struct_to_json(s), "value": val_to_json(v), "rep": rep.name(), "idl": s.idl()});
    if let Some(o) = extra.as_object() {
        for (k, x) in o {
            j[k] = x.clone();
        }
    }
    j
}

fn trunc(s: String) -> String {
    if s.len() > 700 {
        let mut e = 700;
        while !s.is_char_boundary(e) {
            e -= 1;
        }
        format!("{}...", &s[..e])
    } else {
        s
    }
}

fn other(r: Rep) -> Rep {
    match r {
        Rep::X1Le => Rep::X1Be,
        Rep::X1Be => Rep::X1Le,
        Rep::X2Le => Rep::X2Be,
        Rep::X2Be => Rep::X2Le,
    }
}
fn ver(r: Rep) -> &'static str {
    if r.v2() {
        "xcdr2"
    } else {
        "xcdr1"
    }
}

// ---------------------------------------------------------------------------------------------------------------
// C09

#[derive(Debug, Clone, PartialEq)]
pub enum Res {
    Pass,
    /// round trip fine; the reference decoder cannot read the bytes at all (C10 reports that), so the end of the content is unknown
    PassPaddingUnverified,
    /// serializer returned Err (class of the error)
    Unsupported(String),
    /// category, detail
    Fail(String, String),
}

pub fn c09_eval(s: &StructTy, dt: DynamicType<'static>, v: &Val, rep: Rep) -> (Res, Option<Vec<u8>>) {
    let data = to_dynamic(s, dt, v);
    let bytes = match dust_serialize(&data, rep) {
        Outcome::Ok(b) => b,
        Outcome::Err(e) => return (Res::Unsupported(msg_class(&e)), None),
        Outcome::Panic(m) => return (Res::Fail(format!("panic/serialize/{}", msg_class(&m)), m), None),
    };
    // encapsulation: multiple of 4, padding count recorded
    if bytes.len() < 4 || bytes.len() % 4 != 0 {
        return (Res::Fail("padding-length".into(), format!("total length {} is not a multiple of 4", bytes.len())), Some(bytes));
    }
    let back = match dust_deserialize(dt, &bytes) {
        Outcome::Ok(d) => d,
        Outcome::Err(e) => return (Res::Fail("roundtrip".into(), format!("deserialize returned {e}; bytes {}", hex(&bytes))), Some(bytes)),
        Outcome::Panic(m) => return (Res::Fail(format!("panic/deserialize/{}", msg_class(&m)), format!("{m}; bytes {}", hex(&bytes))), Some(bytes)),
    };
    let back_val = from_dynamic(s, &back);
    let ast_eq = matches!(&back_val, Ok(b) if b == v);
    let dyn_eq = v.has_nan() || back == data;
    if !ast_eq || !dyn_eq {
        return (Res::Fail("roundtrip".into(), trunc(format!("decoded {:?} (DynamicData ==: {}); bytes {}", back_val.map(|b| val_to_json(&b).to_string()), back == data, hex(&bytes)))), Some(bytes));
    }
    // padding count: the options byte records how many bytes were appended to reach a multiple of 4. Where the content ends is
    // established without the decoder under test: by the strict reference decoder (tolerating the named deviations of
    // refcodec::Quirks), so that decoder defects do not show up as padding defects.
    let pad = (bytes[3] & 3) as usize;
    if bytes[3] & !3 != 0 || bytes[2] != 0 {
        return (Res::Fail("padding-options-bits".into(), format!("options bytes {:02x}{:02x}", bytes[2], bytes[3])), Some(bytes));
    }
    if pad > 0 && bytes[bytes.len() - pad..].iter().any(|b| *b != 0) {
        return (Res::Fail("padding-count".into(), format!("pad={pad} but the trailing bytes are not zero: {}", hex(&bytes))), Some(bytes));
    }
    let mut verdict: Option<bool> = None;
    for m in 0..32u32 {
        if let Ok(d) = refcodec::decode(s, &bytes, Quirks::from_mask(m)) {
            if &d.val == v {
                let ok = !d.complaints.contains("encapsulation-padding-count-mismatch");
                verdict = Some(verdict.unwrap_or(false) || ok);
                if ok {
                    break;
                }
            }
        }
    }
    match verdict {
        Some(true) => {}
        Some(false) => return (Res::Fail("padding-count".into(), format!("pad={pad} recorded in the options but the content ends elsewhere: {}", hex(&bytes))), Some(bytes)),
        None => return (Res::PassPaddingUnverified, Some(bytes)),
    }
    (Res::Pass, Some(bytes))
}

fn c09_cats(s: &StructTy, dt: DynamicType<'static>, v: &Val, r: Rep) -> Vec<String> {
    match c09_eval(s, dt, v, r).0 {
        Res::Pass | Res::PassPaddingUnverified => vec![],
        Res::Unsupported(e) => vec![format!("unsupported:{e}")],
        Res::Fail(c, _) => vec![c],
    }
}

pub fn run_c09(args: &Args, rep: &mut Report) {
    install_quiet_panic_hook();
    let mut types = 0u64;
    let mut unsupported: BTreeMap<String, u64> = BTreeMap::new();
    let mut red = Reducer::default();
    for_each_type(args.thorough(), |k, mk, nm| {
        if !args.mine(k) {
            return;
        }
        let s = mk();
        let dt = build_struct(&s);
        types += 1;
        let vals = struct_vals(&s, 0, nm >= 3);
        let class = shape_class(&s);
        for r in Rep::all() {
            let okey = format!("c09/{}", r.name());
            let oracle = move |s2: &StructTy, dt2: DynamicType<'static>, v2: &Val| c09_cats(s2, dt2, v2, r);
            // one reduction per (type, representation, failure category)
            let mut memo: HashMap<String, (String, Value)> = HashMap::new();
            let mut n_ok = 0u64;
            let mut first_ok: Option<Val> = None;
            let mut first_unsup: Option<(Val, String)> = None;
            for v in &vals {
                rep.evaluations += 1;
                let (res, bytes) = c09_eval(&s, dt, v, r);
                match res {
                    Res::Pass | Res::PassPaddingUnverified => {
                        if res == Res::PassPaddingUnverified {
                            rep.distinct(format!("padding-unverified/{}/{}", r.name(), class));
                            rep.add("padding_unverified", 1);
                        }
                        n_ok += 1;
                        if first_ok.is_none() {
                            first_ok = Some(v.clone());
                        }
                        rep.distinct(format!("pass/{}/{}", r.name(), class));
                        if rep.samples.len() < 3 {
                            rep.sample(json!({"idl": s.idl(), "value": val_to_json(v), "rep": r.name(), "bytes": bytes.as_ref().map(|b| hex(b))}));
                        }
                    }
                    Res::Unsupported(e) => {
                        if first_unsup.is_none() {
                            first_unsup = Some((v.clone(), e));
                        }
                    }
                    Res::Fail(cat, _) => {
                        if !memo.contains_key(&cat) {
                            // a panic is a consequence of reading from a wrong position: its shape class is the smallest type
                            // that fails in any way, the stored case is the smallest one that panics
                            let (rs, rv) = red.reduce(&okey, &s, v, &cat, &oracle);
                            let is_panic = cat.starts_with("panic/");
                            let class_cat = cat.as_str();
                            let cs = rs.clone();
                            // does the other byte order fail for this shape as well?
                            let o = other(r);
                            let ooracle = move |s2: &StructTy, dt2: DynamicType<'static>, v2: &Val| c09_cats(s2, dt2, v2, o);
                            let both = red.first_fail(&format!("c09/{}", o.name()), &cs, class_cat, &ooracle).is_some();
                            let rname = if both { ver(r) } else { r.name() };
                            let detail = match c09_eval(&rs, cached_type(&rs), &rv, r).0 {
                                Res::Fail(_, d) => d,
                                _ => String::new(),
                            };
                            let sig = format!("{}/{}/{}", cat, rname, if is_panic { panic_class(&cs) } else { shape_class(&cs) });
                            rep.distinct(format!("fail/{sig}"));
                            let detail = format!("{} value {} ({}): {}", rs.idl(), val_to_json(&rv), r.name(), detail);
                            memo.insert(cat.clone(), (sig.clone(), json!([detail, case_json("C09", &rs, &rv, r, json!({}))])));
                        }
                        let (sig, dj) = &memo[&cat];
                        rep.finding(sig.clone(), dj[0].as_str().unwrap().to_string(), dj[1].clone());
                    }
                }
            }
            if let Some((uv, e)) = first_unsup {
                // which member makes it unsupported?
                let cat = format!("unsupported:{e}");
                let (rs, _) = red.reduce(&okey, &s, &uv, &cat, &oracle);
                let key = format!("unsupported/{}/{}/{}", r.name(), shape_class(&rs), e);
                rep.distinct(key.clone());
                *unsupported.entry(key).or_default() += 1;
                if n_ok > 0 {
                    rep.finding(
                        format!("inconsistent-unsupported/{}/{}", r.name(), shape_class(&rs)),
                        format!("{}: serializer returns Err({e}) for value {} but Ok for value {}", s.idl(), val_to_json(&uv), val_to_json(first_ok.as_ref().unwrap())),
                        case_json("C09", &s, &uv, r, json!({})),
                    );
                }
            }
        }
    });
    rep.add("types", types);
    rep.add("types_built", BUILT.with(|c| *c.borrow()));
    rep.add("reduction_oracle_calls", red.oracle_calls);
    rep.set("unsupported_by_shape", json!(unsupported));
}

pub fn replay_c09(v: &Value) -> bool {
    install_quiet_panic_hook();
    let s = struct_from_json(&v["type"]);
    let val = val_from_json(&v["value"]);
    let r = Rep::from_name(v["rep"].as_str().unwrap_or("xcdr1-le"));
    let dt = build_struct(&s);
    let (res, bytes) = c09_eval(&s, dt, &val, r);
    println!("type : {}", s.idl());
    println!("value: {}", val_to_json(&val));
    println!("rep  : {}", r.name());
    println!("dust bytes: {}", bytes.map(|b| hex(&b)).unwrap_or("-".into()));
    println!("result: {res:?}");
    matches!(res, Res::Pass | Res::PassPaddingUnverified | Res::Unsupported(_))
}

// ---------------------------------------------------------------------------------------------------------------
// C10

/// alternative legal encodings produced by the reference that dust-dds must accept
pub fn alts(v2: bool) -> Vec<(&'static str, EncOpts)> {
    let c = EncOpts::canonical();
    if v2 {
        vec![
            ("canonical", c),
            ("lc-no-nextint-sharing", EncOpts { lc: LcPolicy::NoShare, ..c }),
            ("lc-always-4", EncOpts { lc: LcPolicy::Always4, ..c }),
            ("reordered-members", EncOpts { order: Order::Reversed, ..c }),
            ("unknown-member-first", EncOpts { extra: Extra::Front, ..c }),
            ("unknown-member-last", EncOpts { extra: Extra::Back, ..c }),
        ]
    } else {
        // XCDR1 parameter lists: the specification's list end is PID 0x3F02; the same variations are also produced with the
        // RTPS sentinel (PID 1) so that the other variations are not masked where only that one is understood
        let p1 = EncOpts { sentinel: 1, ..c };
        vec![
            ("canonical", c),
            ("list-end-with-must-understand-flag", EncOpts { sentinel: refcodec::PID_LIST_END | refcodec::FLAG_M, ..c }),
            ("long-parameter-headers", EncOpts { long_pl: true, ..c }),
            ("pid1-sentinel", p1),
            ("pid1-sentinel+long-parameter-headers", EncOpts { long_pl: true, ..p1 }),
            ("pid1-sentinel+padded-parameter-length", EncOpts { pad_param_len: true, ..p1 }),
            ("pid1-sentinel+reordered-members", EncOpts { order: Order::Reversed, ..p1 }),
            ("pid1-sentinel+unknown-member-first", EncOpts { extra: Extra::Front, ..p1 }),
            ("pid1-sentinel+unknown-member-last", EncOpts { extra: Extra::Back, ..p1 }),
        ]
    }
}

fn decode_ref_once(s: &StructTy, dt: DynamicType<'static>, v: &Val, bytes: &[u8]) -> Res {
    match dust_deserialize(dt, bytes) {
        Outcome::Ok(d) => match from_dynamic(s, &d) {
            Ok(b) if &b == v => Res::Pass,
            o => Res::Fail("decode-ref".into(), trunc(format!("dust-dds decoded {:?}", o.map(|b| val_to_json(&b).to_string())))),
        },
        Outcome::Err(e) => Res::Fail("decode-ref".into(), format!("dust-dds deserialize returned {e}")),
        Outcome::Panic(m) => Res::Fail(format!("panic/decode-ref/{}", msg_class(&m)), m),
    }
}

/// dust must decode the reference encoding of `v` (variation `o`) to `v`. When it does not, the two named non-standard
/// encodings are tried: if dust-dds reads one of those correctly the failure is attributed to that expectation.
fn decode_ref_eval(s: &StructTy, dt: DynamicType<'static>, v: &Val, r: Rep, o: &EncOpts) -> (Res, Vec<u8>) {
    let bytes = refcodec::encode(s, v, r.v2(), r.be(), o);
    let res = decode_ref_once(s, dt, v, &bytes);
    if let Res::Fail(cat, detail) = &res {
        if cat == "decode-ref" {
            for (a, b) in [(true, false), (false, true), (true, true)] {
                if a && r.v2() {
                    continue;
                }
                let o2 = EncOpts { compat_no_origin_reset: a, compat_wstring_count_nul: b, ..*o };
                let b2 = refcodec::encode(s, v, r.v2(), r.be(), &o2);
                if b2 != bytes && decode_ref_once(s, dt, v, &b2) == Res::Pass {
                    let mut names = Vec::new();
                    if a {
                        names.push("expects-xcdr1-parameter-alignment-without-origin-reset");
                    }
                    if b {
                        names.push("expects-wstring-unit-count-with-nul");
                    }
                    return (Res::Fail(names.join("+"), format!("{detail}; dust-dds reads the value correctly from the non-standard encoding {}", hex(&b2))), bytes);
                }
            }
        }
    }
    (res, bytes)
}

/// explanation of dust bytes by the strict decoder: Ok((quirk mask, complaints)) for the smallest quirk set that decodes to `v`
fn explain(s: &StructTy, v: &Val, bytes: &[u8]) -> Result<(u32, Vec<String>), String> {
    let mut first_err = String::new();
    // cost of an explanation = number of quirks + number of complaints; on a tie a named quirk explains more than a
    // generic complaint. Quirk sets are tried by size and the search stops when no larger set can be cheaper.
    let mut masks: Vec<u32> = (0..32).collect();
    masks.sort_by_key(|m| (m.count_ones(), *m));
    let mut best: Option<(usize, u32, Vec<String>)> = None;
    for m in masks {
        if let Some(b) = &best {
            if m.count_ones() as usize > b.0 || (m.count_ones() as usize == b.0 && b.2.is_empty()) {
                break;
            }
        }
        match refcodec::decode(s, bytes, Quirks::from_mask(m)) {
            Ok(d) if &d.val == v => {
                let cost = m.count_ones() as usize + d.complaints.len();
                if best.as_ref().map(|b| (cost, d.complaints.len()) < (b.0, b.2.len())).unwrap_or(true) {
                    best = Some((cost, m, d.complaints.into_iter().collect()));
                }
            }
            Ok(d) => {
                if m == 0 {
                    first_err = trunc(format!("strict decoder reads another value: {}", val_to_json(&d.val)));
                }
            }
            Err(e) => {
                if m == 0 {
                    first_err = format!("strict decoder: {e}");
                }
            }
        }
    }
    match best {
        Some((_, m, c)) => Ok((m, c)),
        None => Err(first_err),
    }
}

#[derive(Debug)]
pub enum EncCmp {
    DustUnsupported,
    Match,
    AltLegal,
    /// quirks + complaints needed to read the bytes
    Deviations(Vec<String>),
    Undecodable(String),
}

pub fn encode_cmp(s: &StructTy, dt: DynamicType<'static>, v: &Val, r: Rep) -> (EncCmp, Option<Vec<u8>>, Vec<u8>) {
    let reference = refcodec::encode(s, v, r.v2(), r.be(), &EncOpts::canonical());
    let data = to_dynamic(s, dt, v);
    let dust = match dust_serialize(&data, r) {
        Outcome::Ok(b) => b,
        _ => return (EncCmp::DustUnsupported, None, reference),
    };
    if dust == reference {
        return (EncCmp::Match, Some(dust), reference);
    }
    let c = match explain(s, v, &dust) {
        Ok((0, c)) if c.is_empty() => EncCmp::AltLegal,
        Ok((m, c)) => EncCmp::Deviations(Quirks::names(m).into_iter().map(String::from).chain(c).collect()),
        Err(e) => EncCmp::Undecodable(e),
    };
    (c, Some(dust), reference)
}

fn enc_cats(s: &StructTy, dt: DynamicType<'static>, v: &Val, r: Rep) -> Vec<String> {
    match encode_cmp(s, dt, v, r).0 {
        EncCmp::Deviations(d) => d,
        EncCmp::Undecodable(_) => vec!["undecodable".into()],
        _ => vec![],
    }
}

fn decref_cats(s: &StructTy, dt: DynamicType<'static>, v: &Val, r: Rep, o: &EncOpts) -> Vec<String> {
    match decode_ref_eval(s, dt, v, r, o).0 {
        Res::Fail(c, _) => vec![c],
        _ => vec![],
    }
}

pub fn run_c10(args: &Args, rep: &mut Report) {
    install_quiet_panic_hook();
    let mut types = 0u64;
    let mut ref_selfcheck_failures = 0u64;
    let mut red = Reducer::default();
    for_each_type(args.thorough(), |k, mk, nm| {
        if !args.mine(k) {
            return;
        }
        let s = mk();
        let dt = build_struct(&s);
        types += 1;
        let vals = struct_vals(&s, 0, nm >= 3);
        let class = shape_class(&s);
        for r in Rep::all() {
            // 3-member types (thorough tier): the variations are exercised by the 1- and 2-member types; only the encodings
            // that the others are derived from are decoded here
            // (quick tier: the same holds for 2-member types with sparse / large member ids)
            let all_alts = nm < 2 || (nm == 2 && (args.thorough() || id_style(&s.members) == "seq-id"));
            let alt_list: Vec<(&'static str, EncOpts)> = alts(r.v2()).into_iter().filter(|(n, _)| all_alts || *n == "canonical" || *n == "pid1-sentinel").collect();
            let okey = format!("c10enc/{}", r.name());
            let enc_oracle = move |s2: &StructTy, dt2: DynamicType<'static>, v2: &Val| enc_cats(s2, dt2, v2, r);
            let o = other(r);
            let oenc_oracle = move |s2: &StructTy, dt2: DynamicType<'static>, v2: &Val| enc_cats(s2, dt2, v2, o);
            let mut memo: HashMap<String, (String, Value)> = HashMap::new();
            for v in &vals {
                // (a) bytes produced by dust-dds vs the reference
                rep.evaluations += 1;
                let (cmp, _dust, reference) = encode_cmp(&s, dt, v, r);
                let cats: Vec<String> = match &cmp {
                    EncCmp::DustUnsupported => {
                        rep.distinct(format!("dust-unsupported/{}/{}", r.name(), class));
                        vec![]
                    }
                    EncCmp::Match => {
                        rep.distinct(format!("bytes-equal/{}/{}", r.name(), class));
                        if rep.samples.len() < 3 {
                            rep.sample(json!({"idl": s.idl(), "value": val_to_json(v), "rep": r.name(), "bytes": hex(&reference)}));
                        }
                        vec![]
                    }
                    EncCmp::AltLegal => {
                        rep.distinct(format!("bytes-differ-but-legal/{}/{}", r.name(), class));
                        vec![]
                    }
                    EncCmp::Deviations(d) => d.clone(),
                    EncCmp::Undecodable(_) => vec!["undecodable".into()],
                };
                for cat in cats {
                    if !memo.contains_key(&cat) {
                        let (rs, rv) = red.reduce(&okey, &s, v, &cat, &enc_oracle);
                        let both = red.first_fail(&format!("c10enc/{}", o.name()), &rs, &cat, &oenc_oracle).is_some();
                        let rname = if both { ver(r) } else { r.name() };
                        let (rc, rd, rr) = encode_cmp(&rs, cached_type(&rs), &rv, r);
                        // a quirk name identifies the root cause by itself; complaints / undecodable keep the shape class
                        let sig = if Quirks::NAMES.contains(&cat.as_str()) { format!("encode/{}/{}/{}", rname, cat, rs.ext.name()) } else { format!("encode/{}/{}/{}", rname, cat, shape_class(&rs)) };
                        rep.distinct(format!("fail/{sig}"));
                        let detail = format!("{} value {} ({}): dust-dds bytes {} reference bytes {}: {:?}", rs.idl(), val_to_json(&rv), r.name(), rd.as_ref().map(|b| hex(b)).unwrap_or_default(), hex(&rr), rc);
                        memo.insert(cat.clone(), (sig, json!([trunc(detail), case_json("C10", &rs, &rv, r, json!({"part": "encode"}))])));
                    }
                    let (sig, dj) = &memo[&cat];
                    rep.finding(sig.clone(), dj[0].as_str().unwrap().to_string(), dj[1].clone());
                }
                // (b) bytes produced by the reference (canonical + alternative legal encodings) decode in dust-dds
                let mut seen: Vec<Vec<u8>> = Vec::new();
                for (alt, opts) in &alt_list {
                    let bytes = if *alt == "canonical" { reference.clone() } else { refcodec::encode(&s, v, r.v2(), r.be(), opts) };
                    if seen.contains(&bytes) {
                        continue; // this variation does not change the encoding of this value
                    }
                    seen.push(bytes.clone());
                    rep.evaluations += 1;
                    // self check of the reference: its own strict decoder reads every variation back
                    let q = Quirks { sentinel_pid1: opts.sentinel == 1, ..Default::default() };
                    match refcodec::decode(&s, &bytes, q) {
                        Ok(d) if &d.val == v && d.complaints.is_empty() => {}
                        o => {
                            ref_selfcheck_failures += 1;
                            if rep.machinery_error.is_none() {
                                rep.machinery_error = Some(trunc(format!(
                                    "reference self check failed: {} value {} {} {alt} bytes {}: {:?}",
                                    s.idl(),
                                    val_to_json(v),
                                    r.name(),
                                    hex(&bytes),
                                    o.map(|d| (val_to_json(&d.val).to_string(), d.complaints))
                                )));
                            }
                        }
                    }
                    let base = if alt.starts_with("pid1-sentinel") { "pid1-sentinel" } else { "canonical" };
                    let base_opts = alt_list.iter().find(|(n, _)| *n == base).unwrap().1;
                    let res = decode_ref_eval(&s, dt, v, r, opts).0;
                    let bo = base_opts;
                    let base_oracle = move |s2: &StructTy, dt2: DynamicType<'static>, v2: &Val| decref_cats(s2, dt2, v2, r, &bo);
                    let bkey = format!("c10dec/{}/{}", r.name(), base);
                    let is_base = *alt == base;
                    if !is_base && !matches!(res, Res::Pass) && red.first_fail(&bkey, &s, "*", &base_oracle).is_some() {
                        // a variation is only blamed for types whose base encoding is read correctly for every value
                        rep.distinct(format!("decode-ref-type-already-fails-with-base/{}/{}/{}", r.name(), alt, class));
                        continue;
                    }
                    match res {
                        Res::Fail(cat, _) => {
                            let mkey = format!("{alt}|{cat}");
                            if !memo.contains_key(&mkey) {
                                let o2 = *opts;
                                let dokey = format!("c10dec/{}/{}", r.name(), alt);
                                let dec_oracle = move |s2: &StructTy, dt2: DynamicType<'static>, v2: &Val| decref_cats(s2, dt2, v2, r, &o2);
                                let guard: Option<(&str, Oracle)> = if is_base { None } else { Some((bkey.as_str(), &base_oracle)) };
                                // a panic is a consequence of reading from a wrong position: its shape class is the smallest type
                                // that fails in any way, the stored case is the smallest one that panics
                                let (rs, rv) = red.reduce_guarded(&dokey, &s, v, &cat, &dec_oracle, guard);
                                let is_panic = cat.starts_with("panic/");
                                let class_cat = cat.as_str();
                                let cs = rs.clone();
                                let odec_oracle = move |s2: &StructTy, dt2: DynamicType<'static>, v2: &Val| decref_cats(s2, dt2, v2, o, &o2);
                                let both = red.first_fail(&format!("c10dec/{}/{}", o.name(), alt), &cs, class_cat, &odec_oracle).is_some();
                                let rname = if both { ver(r) } else { r.name() };
                                let (rres, rb) = decode_ref_eval(&rs, cached_type(&rs), &rv, r, opts);
                                let rdetail = match rres {
                                    Res::Fail(_, d) => d,
                                    _ => String::new(),
                                };
                                // a named expectation identifies the root cause by itself
                                let sig = if cat.starts_with("expects-") { format!("decode-ref/{}/{}/{}/{}", rname, alt, cat, rs.ext.name()) } else { format!("{}/{}/{}/{}", cat, rname, alt, if is_panic { panic_class(&cs) } else { shape_class(&cs) }) };
                                rep.distinct(format!("fail/{sig}"));
                                let detail = format!("{} value {} ({}): reference bytes ({alt}) {}: {}", rs.idl(), val_to_json(&rv), r.name(), hex(&rb), rdetail);
                                memo.insert(mkey.clone(), (sig, json!([trunc(detail), case_json("C10", &rs, &rv, r, json!({"part": "decode-ref", "alt": alt}))])));
                            }
                            let (sig, dj) = &memo[&mkey];
                            rep.finding(sig.clone(), dj[0].as_str().unwrap().to_string(), dj[1].clone());
                        }
                        _ => rep.distinct(format!("decode-ref-ok/{}/{}/{}", r.name(), alt, class)),
                    }
                }
            }
        }
    });
    rep.add("types", types);
    rep.add("types_built", BUILT.with(|c| *c.borrow()));
    rep.add("reduction_oracle_calls", red.oracle_calls);
    rep.add("reference_selfcheck_failures", ref_selfcheck_failures);
}

pub fn replay_c10(v: &Value) -> bool {
    install_quiet_panic_hook();
    let s = struct_from_json(&v["type"]);
    let val = val_from_json(&v["value"]);
    let r = Rep::from_name(v["rep"].as_str().unwrap_or("xcdr1-le"));
    let dt = build_struct(&s);
    println!("type : {}", s.idl());
    println!("value: {}", val_to_json(&val));
    println!("rep  : {}", r.name());
    if v["part"].as_str() == Some("decode-ref") {
        let alt = v["alt"].as_str().unwrap_or("canonical");
        let opts = alts(r.v2()).into_iter().find(|(n, _)| *n == alt).map(|(_, o)| o).unwrap_or(EncOpts::canonical());
        let (res, bytes) = decode_ref_eval(&s, dt, &val, r, &opts);
        println!("reference bytes ({alt}): {}", hex(&bytes));
        println!("dust decode: {res:?}");
        res == Res::Pass
    } else {
        let (cmp, dust, reference) = encode_cmp(&s, dt, &val, r);
        println!("dust bytes     : {}", dust.map(|b| hex(&b)).unwrap_or("-".into()));
        println!("reference bytes: {}", hex(&reference));
        println!("comparison: {cmp:?}");
        matches!(cmp, EncCmp::Match | EncCmp::AltLegal | EncCmp::DustUnsupported)
    }
}
