//! Reference XCDR1 / XCDR2 encoder and strict decoder written from DDS-XTypes 1.3 clause 7.4 (rules (1)-(30)) over the
//! AST of ast.rs. It never calls dust-dds. See NOTES.md for the reading of the specification that was used.
use crate::ast::*;
use std::collections::BTreeSet;

pub const PID_EXTENDED: u16 = 0x3F01;
pub const PID_LIST_END: u16 = 0x3F02;
pub const FLAG_M: u16 = 0x4000;

#[derive(Clone, Copy, PartialEq, Eq, Debug)]
pub enum LcPolicy {
    /// smallest header: LC 0..3 when the member is 1/2/4/8 bytes, else 5/6/7 when NEXTINT can be shared, else 4
    Min,
    /// LC 0..3 when the size fits, else always 4 (never share NEXTINT)
    NoShare,
    /// always LC 4 (explicit NEXTINT) even for 1/2/4/8 byte members
    Always4,
}

#[derive(Clone, Copy, PartialEq, Eq, Debug)]
pub enum Order {
    Declared,
    Reversed,
}

/// where an unknown (not in the type) mutable member is spliced into every mutable struct
#[derive(Clone, Copy, PartialEq, Eq, Debug)]
pub enum Extra {
    None,
    Front,
    Back,
}

#[derive(Clone, Copy, Debug, PartialEq)]
pub struct EncOpts {
    pub sentinel: u16,
    pub pad_param_len: bool,
    pub long_pl: bool,
    pub lc: LcPolicy,
    pub order: Order,
    pub extra: Extra,
    /// NOT a legal encoding: XCDR1 parameter values aligned relative to the enclosing origin (no PUSH(ORIGIN=0)).
    /// Only used to name what a decoder under test expects when it rejects the legal encoding.
    pub compat_no_origin_reset: bool,
    /// NOT the reference reading: wstring as count of UTF-16 units including a terminating NUL unit.
    pub compat_wstring_count_nul: bool,
}
impl EncOpts {
    pub fn canonical() -> Self {
        EncOpts {
            sentinel: PID_LIST_END,
            pad_param_len: false,
            long_pl: false,
            lc: LcPolicy::Min,
            order: Order::Declared,
            extra: Extra::None,
            compat_no_origin_reset: false,
            compat_wstring_count_nul: false,
        }
    }
}

pub const EXTRA_ID: u32 = 0x0ABC;

struct Enc<'o> {
    buf: Vec<u8>,
    be: bool,
    v2: bool,
    origin: usize,
    /// offset of buf[0] relative to the alignment origin of an enclosing stream (compat_no_origin_reset only)
    bias: usize,
    o: &'o EncOpts,
}

impl<'o> Enc<'o> {
    fn sub(&self) -> Enc<'o> {
        Enc { buf: Vec::new(), be: self.be, v2: self.v2, origin: 0, bias: 0, o: self.o }
    }
    fn align(&mut self, n: usize) {
        let a = n.min(if self.v2 { 4 } else { 8 });
        while (self.buf.len() + self.bias - self.origin) % a != 0 {
            self.buf.push(0);
        }
    }
    fn u16(&mut self, x: u16) {
        self.align(2);
        self.buf.extend_from_slice(&if self.be { x.to_be_bytes() } else { x.to_le_bytes() });
    }
    fn u32(&mut self, x: u32) {
        self.align(4);
        self.buf.extend_from_slice(&if self.be { x.to_be_bytes() } else { x.to_le_bytes() });
    }
    fn u64(&mut self, x: u64) {
        self.align(8);
        self.buf.extend_from_slice(&if self.be { x.to_be_bytes() } else { x.to_le_bytes() });
    }
    /// rule (2)
    fn prim(&mut self, v: &Val) {
        match v {
            Val::Bool(b) => self.buf.push(*b as u8),
            Val::U8(x) => self.buf.push(*x),
            Val::I8(x) => self.buf.push(*x as u8),
            Val::Char(c) => self.buf.push(*c as u8),
            Val::I16(x) => self.u16(*x as u16),
            Val::U16(x) => self.u16(*x),
            Val::I32(x) => self.u32(*x as u32),
            Val::U32(x) => self.u32(*x),
            Val::F32(x) => self.u32(*x),
            Val::Enum(x) => self.u32(*x as u32), // rule (5), 32 bit holder
            Val::I64(x) => self.u64(*x as u64),
            Val::U64(x) => self.u64(*x),
            Val::F64(x) => self.u64(*x),
            o => panic!("prim(): {o:?}"),
        }
    }
    fn is_primitive(t: &Ty) -> bool {
        matches!(t, Ty::Prim(_))
    }
    fn dheader(&mut self, body: Vec<u8>) {
        self.u32(body.len() as u32);
        self.buf.extend_from_slice(&body);
    }

    fn value(&mut self, t: &Ty, v: &Val) {
        match (t, v) {
            (Ty::Prim(_), v) | (Ty::Enum(_), v) => self.prim(v),
            // rule (3): length includes the NUL
            (Ty::Str(_), Val::Str(s)) => {
                self.u32(s.len() as u32 + 1);
                self.buf.extend_from_slice(s.as_bytes());
                self.buf.push(0);
            }
            // rule (4): length in bytes of the UTF-16 code units, no terminating NUL
            (Ty::WStr, Val::WStr(s)) => {
                let units: Vec<u16> = s.encode_utf16().collect();
                if self.o.compat_wstring_count_nul {
                    self.u32(units.len() as u32 + 1);
                    for u in units {
                        self.u16(u);
                    }
                    self.u16(0);
                } else {
                    self.u32(units.len() as u32 * 2);
                    for u in units {
                        self.u16(u);
                    }
                }
            }
            // rules (11) (12) (13)
            (Ty::Seq(e, _), Val::Seq(items)) => {
                if self.v2 && !Self::is_primitive(e) {
                    let mut s = self.sub();
                    s.u32(items.len() as u32);
                    for i in items {
                        s.value(e, i);
                    }
                    self.dheader(s.buf);
                } else {
                    self.u32(items.len() as u32);
                    for i in items {
                        self.value(e, i);
                    }
                }
            }
            // rules (8) (9) (10)
            (Ty::Arr(e, _), Val::Arr(items)) => {
                if self.v2 && !Self::is_primitive(e) {
                    let mut s = self.sub();
                    for i in items {
                        s.value(e, i);
                    }
                    self.dheader(s.buf);
                } else {
                    for i in items {
                        self.value(e, i);
                    }
                }
            }
            (Ty::Struct(s), v) => self.structure(s, v),
            (Ty::Union(u), v) => self.union(u, v),
            (t, v) => panic!("value(): {t:?} {v:?}"),
        }
    }

    /// rules (24) (25): XCDR1 parameter. `val` None = absent optional member of a non-mutable type (zero length).
    fn param_v1(&mut self, id: u32, must_understand: bool, val: Option<(&Ty, &Val)>) {
        self.align(4);
        let long = !(id < 0x3F00) || self.o.long_pl;
        let body = match val {
            None => Vec::new(),
            Some((t, v)) => {
                let mut s = self.sub(); // PUSH(ORIGIN=0)
                if self.o.compat_no_origin_reset {
                    s.bias = (self.buf.len() + self.bias - self.origin + if long { 12 } else { 4 }) % 8;
                }
                s.value(t, v);
                s.buf
            }
        };
        let mut len = body.len();
        if self.o.pad_param_len {
            len = (len + 3) & !3;
        }
        assert!(len <= 0xFFFF, "lattice values are small");
        let flags = if must_understand { FLAG_M } else { 0 };
        if !long {
            self.u16(id as u16 | flags);
            self.u16(len as u16);
        } else {
            self.u16(PID_EXTENDED | flags);
            self.u16(8);
            self.u32(id);
            self.u32(len as u32);
        }
        let start = self.buf.len();
        self.buf.extend_from_slice(&body);
        while self.buf.len() - start < len {
            self.buf.push(0);
        }
    }

    fn body_of(&self, t: &Ty, v: &Val) -> Vec<u8> {
        let mut s = self.sub(); // PUSH(ORIGIN=0) for XCDR1; in XCDR2 the member starts 4-aligned which is MAXALIGN
        s.value(t, v);
        s.buf
    }

    /// rule (22): XCDR2 member of a mutable type
    fn member_v2(&mut self, id: u32, must_understand: bool, t: Option<&Ty>, body: Vec<u8>) {
        self.align(4);
        let size = body.len();
        let first = if size >= 4 { Some(if self.be { u32::from_be_bytes(body[0..4].try_into().unwrap()) } else { u32::from_le_bytes(body[0..4].try_into().unwrap()) } as usize) } else { None };
        // NEXTINT can be shared when the member starts with a DHEADER / string length / sequence length
        let starts_with_len = match t {
            Some(Ty::Str(_)) | Some(Ty::WStr) | Some(Ty::Seq(..)) => true,
            Some(Ty::Arr(e, _)) => !Self::is_primitive(e),
            Some(Ty::Struct(s)) => s.ext != Ext::Final,
            Some(Ty::Union(u)) => u.ext != Ext::Final,
            _ => false,
        };
        let by_size = match size {
            1 => Some(0),
            2 => Some(1),
            4 => Some(2),
            8 => Some(3),
            _ => None,
        };
        let share = if starts_with_len {
            let f = first.unwrap();
            if size == 4 + f {
                Some(5)
            } else if size == 4 + 4 * f {
                Some(6)
            } else if size == 4 + 8 * f {
                Some(7)
            } else {
                None
            }
        } else {
            None
        };
        let lc: u32 = match self.o.lc {
            LcPolicy::Min => by_size.or(share).unwrap_or(4),
            LcPolicy::NoShare => by_size.unwrap_or(4),
            LcPolicy::Always4 => 4,
        };
        self.u32(((must_understand as u32) << 31) | (lc << 28) | (id & 0x0fff_ffff));
        if lc == 4 {
            self.u32(size as u32);
        }
        self.buf.extend_from_slice(&body);
    }

    fn extra_member(&mut self) {
        // an unknown, not must-understand member holding a 3 character string
        let (t, v) = (Ty::Str(0), Val::Str("xyz".into()));
        if self.v2 {
            let body = self.body_of(&t, &v);
            self.member_v2(EXTRA_ID, false, Some(&t), body);
        } else {
            self.param_v1(EXTRA_ID, false, Some((&t, &v)));
        }
    }

    fn final_body(&mut self, s: &StructTy, ms: &[Option<Val>]) {
        // rule (17)
        for (m, mv) in s.members.iter().zip(ms) {
            if m.opt {
                if self.v2 {
                    // rule (20)
                    self.buf.push(mv.is_some() as u8);
                    if let Some(v) = mv {
                        self.value(&m.ty, v);
                    }
                } else {
                    // rule (19): optional member of a non-mutable type is a parameter; absent = zero length
                    self.param_v1(m.id, m.key, mv.as_ref().map(|v| (&m.ty, v)));
                }
            } else {
                self.value(&m.ty, mv.as_ref().expect("non-optional member value"));
            }
        }
    }

    fn structure(&mut self, s: &StructTy, v: &Val) {
        let Val::Struct(ms) = v else { panic!("struct value") };
        match (s.ext, self.v2) {
            (Ext::Final, _) | (Ext::Appendable, false) => self.final_body(s, ms), // rules (17) (29)
            (Ext::Appendable, true) => {
                // rule (30)
                let mut b = self.sub();
                b.final_body(s, ms);
                self.dheader(b.buf);
            }
            (Ext::Mutable, v2) => {
                let mut idx: Vec<usize> = (0..s.members.len()).collect();
                if self.o.order == Order::Reversed {
                    idx.reverse();
                }
                let opts = *self.o;
                let mut sub = self.sub();
                {
                    let b: &mut Enc = if v2 { &mut sub } else { &mut *self };
                    if opts.extra == Extra::Front {
                        b.extra_member();
                    }
                    for i in idx {
                        let m = &s.members[i];
                        if let Some(mv) = &ms[i] {
                            if v2 {
                                let body = b.body_of(&m.ty, mv);
                                b.member_v2(m.id, m.key, Some(&m.ty), body); // rule (22)
                            } else {
                                b.param_v1(m.id, m.key, Some((&m.ty, mv))); // rules (24) (25)
                            }
                        }
                    }
                    if opts.extra == Extra::Back {
                        b.extra_member();
                    }
                }
                if v2 {
                    self.dheader(sub.buf); // rule (21)
                } else {
                    // rule (23): list end. Written 4-aligned like every other parameter header.
                    self.align(4);
                    self.u16(opts.sentinel);
                    self.u16(0);
                }
            }
        }
    }

    fn disc(&mut self, p: Prim, d: i64) {
        match p {
            Prim::I32 => self.prim(&Val::I32(d as i32)),
            Prim::U32 => self.prim(&Val::U32(d as u32)),
            Prim::I16 => self.prim(&Val::I16(d as i16)),
            Prim::U8 => self.prim(&Val::U8(d as u8)),
            p => panic!("discriminator {p:?}"),
        }
    }

    fn union(&mut self, u: &UnionTy, v: &Val) {
        let Val::Union(d, sel) = v else { panic!("union value") };
        match (u.ext, self.v2) {
            (Ext::Final, _) | (Ext::Appendable, false) => {
                // rule (26)
                self.disc(u.disc, *d);
                if let Some((i, cv)) = sel {
                    self.value(&u.cases[*i].ty, cv);
                }
            }
            (Ext::Appendable, true) => {
                let mut b = self.sub();
                b.disc(u.disc, *d);
                if let Some((i, cv)) = sel {
                    b.value(&u.cases[*i].ty, cv);
                }
                self.dheader(b.buf);
            }
            (Ext::Mutable, true) => {
                // rule (27); the discriminator is serialized as member id 0 (must understand)
                let mut b = self.sub();
                let mut db = b.sub();
                db.disc(u.disc, *d);
                b.member_v2(0, true, None, db.buf);
                if let Some((i, cv)) = sel {
                    let body = b.body_of(&u.cases[*i].ty, cv);
                    b.member_v2(u.cases[*i].id, false, Some(&u.cases[*i].ty), body);
                }
                self.dheader(b.buf);
            }
            (Ext::Mutable, false) => {
                // rule (28)
                let dv = match u.disc {
                    Prim::I32 => Val::I32(*d as i32),
                    Prim::U32 => Val::U32(*d as u32),
                    Prim::I16 => Val::I16(*d as i16),
                    _ => Val::U8(*d as u8),
                };
                self.param_v1(0, true, Some((&Ty::Prim(u.disc), &dv)));
                if let Some((i, cv)) = sel {
                    self.param_v1(u.cases[*i].id, false, Some((&u.cases[*i].ty, cv)));
                }
                self.align(4);
                let s = self.o.sentinel;
                self.u16(s);
                self.u16(0);
            }
        }
    }
}

pub fn enc_header(ext: Ext, v2: bool, be: bool) -> [u8; 2] {
    let base = match (v2, ext) {
        (false, Ext::Final) | (false, Ext::Appendable) => 0x00,
        (false, Ext::Mutable) => 0x02,
        (true, Ext::Final) => 0x06,
        (true, Ext::Appendable) => 0x08,
        (true, Ext::Mutable) => 0x0a,
    };
    [0, base + if be { 0 } else { 1 }]
}

/// rule (1): top-level object with the 4 byte encapsulation header, padded to a multiple of 4; the number of padding
/// bytes is recorded in the 2 low bits of the options.
pub fn encode(s: &StructTy, v: &Val, v2: bool, be: bool, o: &EncOpts) -> Vec<u8> {
    let mut e = Enc { buf: Vec::new(), be, v2, origin: 4, bias: 0, o };
    e.buf.extend_from_slice(&enc_header(s.ext, v2, be));
    e.buf.extend_from_slice(&[0, 0]);
    e.structure(s, v);
    let mut pad = 0u8;
    while e.buf.len() % 4 != 0 {
        e.buf.push(0);
        pad += 1;
    }
    e.buf[3] = pad;
    e.buf
}

/// serialization of a bare value (no encapsulation) - used for key hashes
pub fn encode_plain(t: &Ty, v: &Val, v2: bool, be: bool) -> Vec<u8> {
    let o = EncOpts::canonical();
    let mut e = Enc { buf: Vec::new(), be, v2, origin: 0, bias: 0, o: &o };
    e.value(t, v);
    e.buf
}

// ---------------------------------------------------------------------------------------------------------------
// strict decoder

/// Deviations from the reference reading that the decoder can be told to tolerate; used to *name* the way in which
/// bytes produced by the implementation under test differ (every quirk that is needed becomes a finding).
#[derive(Clone, Copy, Default, Debug, PartialEq)]
pub struct Quirks {
    /// PID 0x0001 (the RTPS PID_SENTINEL) terminates an XCDR1 parameter list instead of PID_LIST_END 0x3F02
    pub sentinel_pid1: bool,
    /// the alignment origin set at the start of an XCDR1 parameter value is never restored
    pub v1_origin_sticky: bool,
    /// wstring = count of UTF-16 units including a terminating NUL unit, followed by the units and the NUL
    pub wstring_count_nul: bool,
    /// char8 written as the UTF-8 encoding of the code point (more than one byte above 0x7f)
    pub char8_utf8: bool,
    /// XCDR1 short parameter header carries only the low 14 bits of a member id that does not fit (no PID_EXTENDED)
    pub v1_pid_truncated: bool,
}
impl Quirks {
    pub const NAMES: [&'static str; 5] = ["xcdr1-sentinel-is-pid-1", "xcdr1-origin-not-restored-after-parameter", "wstring-unit-count-with-nul", "char8-as-utf8", "xcdr1-member-id-truncated-to-pid"];
    pub fn from_mask(m: u32) -> Quirks {
        Quirks { sentinel_pid1: m & 1 != 0, v1_origin_sticky: m & 2 != 0, wstring_count_nul: m & 4 != 0, char8_utf8: m & 8 != 0, v1_pid_truncated: m & 16 != 0 }
    }
    pub fn names(m: u32) -> Vec<&'static str> {
        (0..5).filter(|i| m & (1 << i) != 0).map(|i| Self::NAMES[i]).collect()
    }
}

pub struct Dec<'a> {
    buf: &'a [u8],
    pos: usize,
    be: bool,
    v2: bool,
    origin: usize,
    q: Quirks,
    pub complaints: BTreeSet<String>,
}

type R<T> = Result<T, String>;

impl<'a> Dec<'a> {
    fn align(&mut self, n: usize) -> R<()> {
        let a = n.min(if self.v2 { 4 } else { 8 });
        // origin may be "ahead" of pos only by construction errors
        while (self.pos.wrapping_sub(self.origin)) % a != 0 {
            self.pos += 1;
        }
        if self.pos > self.buf.len() {
            return Err("eof in padding".into());
        }
        Ok(())
    }
    fn bytes(&mut self, n: usize) -> R<&'a [u8]> {
        if self.pos + n > self.buf.len() {
            return Err(format!("eof: need {n} bytes at {}", self.pos));
        }
        let s = &self.buf[self.pos..self.pos + n];
        self.pos += n;
        Ok(s)
    }
    fn u8(&mut self) -> R<u8> {
        Ok(self.bytes(1)?[0])
    }
    fn u16(&mut self) -> R<u16> {
        self.align(2)?;
        let b: [u8; 2] = self.bytes(2)?.try_into().unwrap();
        Ok(if self.be { u16::from_be_bytes(b) } else { u16::from_le_bytes(b) })
    }
    fn u32(&mut self) -> R<u32> {
        self.align(4)?;
        let b: [u8; 4] = self.bytes(4)?.try_into().unwrap();
        Ok(if self.be { u32::from_be_bytes(b) } else { u32::from_le_bytes(b) })
    }
    fn u64(&mut self) -> R<u64> {
        self.align(8)?;
        let b: [u8; 8] = self.bytes(8)?.try_into().unwrap();
        Ok(if self.be { u64::from_be_bytes(b) } else { u64::from_le_bytes(b) })
    }
    fn prim(&mut self, p: Prim) -> R<Val> {
        Ok(match p {
            Prim::Bool => match self.u8()? {
                0 => Val::Bool(false),
                1 => Val::Bool(true),
                x => return Err(format!("boolean byte {x}")),
            },
            Prim::U8 => Val::U8(self.u8()?),
            Prim::I8 => Val::I8(self.u8()? as i8),
            Prim::Char8 => {
                let b = self.u8()?;
                if self.q.char8_utf8 && b >= 0xC0 {
                    let n = if b >= 0xF0 { 3 } else if b >= 0xE0 { 2 } else { 1 };
                    let mut raw = vec![b];
                    raw.extend_from_slice(self.bytes(n)?);
                    let s = std::str::from_utf8(&raw).map_err(|_| "char8 utf8".to_string())?;
                    Val::Char(s.chars().next().unwrap() as u32)
                } else {
                    Val::Char(b as u32)
                }
            }
            Prim::I16 => Val::I16(self.u16()? as i16),
            Prim::U16 => Val::U16(self.u16()?),
            Prim::I32 => Val::I32(self.u32()? as i32),
            Prim::U32 => Val::U32(self.u32()?),
            Prim::F32 => Val::F32(self.u32()?),
            Prim::I64 => Val::I64(self.u64()? as i64),
            Prim::U64 => Val::U64(self.u64()?),
            Prim::F64 => Val::F64(self.u64()?),
        })
    }
    fn complain(&mut self, s: impl Into<String>) {
        self.complaints.insert(s.into());
    }
    /// DHEADER: returns the end offset
    fn dheader(&mut self) -> R<usize> {
        let n = self.u32()? as usize;
        if self.pos + n > self.buf.len() {
            return Err(format!("DHEADER {n} exceeds the buffer"));
        }
        Ok(self.pos + n)
    }
    fn end_dheader(&mut self, end: usize, what: &str) {
        if self.pos != end {
            self.complain(format!("dheader-size-mismatch-{what}"));
            self.pos = end;
        }
    }

    fn value(&mut self, t: &Ty) -> R<Val> {
        Ok(match t {
            Ty::Prim(p) => self.prim(*p)?,
            Ty::Enum(e) => {
                let x = self.u32()? as i32;
                if !e.lits.iter().any(|(_, v)| *v == x) {
                    return Err(format!("enum value {x} is not a literal"));
                }
                Val::Enum(x)
            }
            Ty::Str(_) => {
                let n = self.u32()? as usize;
                if n == 0 {
                    return Err("string length 0 (must count the NUL)".into());
                }
                let b = self.bytes(n)?;
                if b[n - 1] != 0 {
                    return Err("string not NUL terminated".into());
                }
                Val::Str(String::from_utf8(b[..n - 1].to_vec()).map_err(|_| "string utf8".to_string())?)
            }
            Ty::WStr => {
                let n = self.u32()? as usize;
                let units = if self.q.wstring_count_nul {
                    if n == 0 {
                        return Err("wstring count 0".into());
                    }
                    let mut u = Vec::new();
                    for _ in 0..n {
                        u.push(self.u16()?);
                    }
                    if u.pop() != Some(0) {
                        return Err("wstring NUL".into());
                    }
                    u
                } else {
                    if n % 2 != 0 {
                        return Err(format!("wstring byte length {n} is odd"));
                    }
                    let mut u = Vec::new();
                    for _ in 0..n / 2 {
                        u.push(self.u16()?);
                    }
                    u
                };
                Val::WStr(String::from_utf16(&units).map_err(|_| "wstring utf16".to_string())?)
            }
            Ty::Seq(e, _) => {
                let dh = if self.v2 && !matches!(**e, Ty::Prim(_)) { Some(self.dheader()?) } else { None };
                let n = self.u32()? as usize;
                if n > self.buf.len() {
                    return Err(format!("sequence length {n}"));
                }
                let mut items = Vec::new();
                for _ in 0..n {
                    items.push(self.value(e)?);
                }
                if let Some(end) = dh {
                    self.end_dheader(end, "sequence");
                }
                Val::Seq(items)
            }
            Ty::Arr(e, n) => {
                let dh = if self.v2 && !matches!(**e, Ty::Prim(_)) { Some(self.dheader()?) } else { None };
                let mut items = Vec::new();
                for _ in 0..*n {
                    items.push(self.value(e)?);
                }
                if let Some(end) = dh {
                    self.end_dheader(end, "array");
                }
                Val::Arr(items)
            }
            Ty::Struct(s) => self.structure(s)?,
            Ty::Union(u) => self.union(u)?,
        })
    }

    /// reads an XCDR1 parameter header: (member id, must_understand, length, is_list_end)
    fn param_header(&mut self, in_list: bool) -> R<(u32, bool, usize, bool)> {
        self.align(4)?;
        let pid = self.u16()?;
        let len = self.u16()? as usize;
        let mu = pid & FLAG_M != 0;
        let p = pid & 0x3FFF;
        if p == PID_LIST_END {
            if len != 0 {
                self.complain("list-end-with-length");
            }
            return Ok((0, mu, 0, true));
        }
        if in_list && self.q.sentinel_pid1 && p == 1 && len == 0 {
            return Ok((0, mu, 0, true));
        }
        if p == PID_EXTENDED {
            if len != 8 {
                return Err(format!("PID_EXTENDED with slength {len}"));
            }
            let id = self.u32()?;
            let l = self.u32()? as usize;
            return Ok((id, mu, l, false));
        }
        if p >= 0x3F00 {
            return Err(format!("reserved pid {p:#x}"));
        }
        Ok((p as u32, mu, len, false))
    }

    fn param_value(&mut self, t: &Ty, len: usize, what: &str) -> R<Val> {
        let start = self.pos;
        if start + len > self.buf.len() {
            return Err(format!("parameter length {len} exceeds the buffer"));
        }
        let saved = self.origin;
        self.origin = self.pos; // PUSH(ORIGIN=0)
        let v = self.value(t)?;
        if !self.q.v1_origin_sticky {
            self.origin = saved;
        }
        let used = self.pos - start;
        if used != len {
            if len % 4 == 0 && used < len && len - used < 4 {
                // RTPS style: length rounded up to a multiple of 4 - tolerated
            } else {
                self.complain(format!("parameter-length-mismatch-{what}"));
            }
            self.pos = start + len;
        }
        Ok(v)
    }

    fn final_body(&mut self, s: &StructTy, end: Option<usize>) -> R<Vec<Option<Val>>> {
        let mut ms = Vec::new();
        for m in &s.members {
            let _ = end;
            if m.opt {
                if self.v2 {
                    match self.u8()? {
                        0 => ms.push(None),
                        1 => ms.push(Some(self.value(&m.ty)?)),
                        x => return Err(format!("is_present flag {x}")),
                    }
                } else {
                    let (id, _mu, len, is_end) = self.param_header(false)?;
                    if is_end {
                        return Err("list end where an optional member was expected".into());
                    }
                    let idok = id == m.id || (self.q.v1_pid_truncated && id == (m.id & 0x3FFF));
                    if !idok {
                        return Err(format!("optional member header carries id {id}, expected {}", m.id));
                    }
                    if len == 0 {
                        if self.q.v1_origin_sticky {
                            self.origin = self.pos;
                        }
                        ms.push(None);
                    } else {
                        ms.push(Some(self.param_value(&m.ty, len, "optional")?));
                    }
                }
            } else {
                ms.push(Some(self.value(&m.ty)?));
            }
        }
        Ok(ms)
    }

    fn structure(&mut self, s: &StructTy) -> R<Val> {
        match (s.ext, self.v2) {
            (Ext::Final, _) | (Ext::Appendable, false) => Ok(Val::Struct(self.final_body(s, None)?)),
            (Ext::Appendable, true) => {
                let end = self.dheader()?;
                let ms = self.final_body(s, Some(end))?;
                self.end_dheader(end, "appendable");
                Ok(Val::Struct(ms))
            }
            (Ext::Mutable, false) => {
                let mut ms: Vec<Option<Val>> = vec![None; s.members.len()];
                loop {
                    let (id, mu, len, is_end) = self.param_header(true)?;
                    if is_end {
                        break;
                    }
                    let found = s.members.iter().position(|m| m.id == id || (self.q.v1_pid_truncated && (m.id & 0x3FFF) == id && m.id >= 0x3F00));
                    match found {
                        Some(i) => {
                            if ms[i].is_some() {
                                return Err(format!("member id {id} twice"));
                            }
                            if mu != s.members[i].key {
                                self.complain("must-understand-flag-differs");
                            }
                            ms[i] = Some(self.param_value(&s.members[i].ty, len, "mutable")?);
                        }
                        None => {
                            if mu {
                                return Err(format!("unknown must-understand member {id}"));
                            }
                            self.bytes(len)?;
                        }
                    }
                }
                for (m, v) in s.members.iter().zip(&ms) {
                    if v.is_none() && !m.opt {
                        return Err(format!("non-optional member {} missing", m.name));
                    }
                }
                Ok(Val::Struct(ms))
            }
            (Ext::Mutable, true) => {
                let end = self.dheader()?;
                let mut ms: Vec<Option<Val>> = vec![None; s.members.len()];
                loop {
                    if self.pos >= end {
                        break;
                    }
                    self.align(4)?;
                    if self.pos >= end {
                        break;
                    }
                    let (id, mu, size, start, lc) = self.emheader()?;
                    if start + size > end {
                        return Err(format!("member {id} (LC {lc}, size {size}) exceeds the DHEADER"));
                    }
                    match s.members.iter().position(|m| m.id == id) {
                        Some(i) => {
                            if ms[i].is_some() {
                                return Err(format!("member id {id} twice"));
                            }
                            if mu != s.members[i].key {
                                self.complain("must-understand-flag-differs");
                            }
                            self.pos = start;
                            let v = self.value(&s.members[i].ty)?;
                            if self.pos - start != size {
                                // keep reading after the bytes the member really occupies, so that one wrong length
                                // does not hide everything that follows
                                self.complain(format!("emheader-lc{}-size-mismatch-{}", lc, s.members[i].ty.kind_name()));
                            }
                            ms[i] = Some(v);
                        }
                        None => {
                            if mu {
                                return Err(format!("unknown must-understand member {id}"));
                            }
                            self.pos = start + size;
                        }
                    }
                }
                self.end_dheader(end, "mutable");
                for (m, v) in s.members.iter().zip(&ms) {
                    if v.is_none() && !m.opt {
                        return Err(format!("non-optional member {} missing", m.name));
                    }
                }
                Ok(Val::Struct(ms))
            }
        }
    }

    /// EMHEADER1 (+NEXTINT): (member id, must understand, member size, member start offset, LC)
    fn emheader(&mut self) -> R<(u32, bool, usize, usize, u32)> {
        let h = self.u32()?;
        let mu = h >> 31 != 0;
        let lc = (h >> 28) & 7;
        let id = h & 0x0fff_ffff;
        let (size, start) = match lc {
            0..=3 => (1usize << lc, self.pos),
            4 => {
                let n = self.u32()? as usize;
                (n, self.pos)
            }
            _ => {
                let n = self.u32()? as usize;
                let start = self.pos - 4;
                (4 + n * [1usize, 4, 8][(lc - 5) as usize], start)
            }
        };
        Ok((id, mu, size, start, lc))
    }

    fn disc(&mut self, p: Prim) -> R<i64> {
        Ok(match self.prim(p)? {
            Val::I32(x) => x as i64,
            Val::U32(x) => x as i64,
            Val::I16(x) => x as i64,
            Val::U8(x) => x as i64,
            o => return Err(format!("disc {o:?}")),
        })
    }
    fn select(u: &UnionTy, d: i64) -> Option<usize> {
        u.cases.iter().position(|c| c.labels.iter().any(|l| *l as i64 == d)).or_else(|| u.cases.iter().position(|c| c.default))
    }

    fn union(&mut self, u: &UnionTy) -> R<Val> {
        match (u.ext, self.v2) {
            (Ext::Final, _) | (Ext::Appendable, false) => {
                let d = self.disc(u.disc)?;
                let sel = match Self::select(u, d) {
                    Some(i) => Some((i, Box::new(self.value(&u.cases[i].ty)?))),
                    None => None,
                };
                Ok(Val::Union(d, sel))
            }
            (Ext::Appendable, true) => {
                let end = self.dheader()?;
                let d = self.disc(u.disc)?;
                let sel = match Self::select(u, d) {
                    Some(i) => Some((i, Box::new(self.value(&u.cases[i].ty)?))),
                    None => None,
                };
                self.end_dheader(end, "union");
                Ok(Val::Union(d, sel))
            }
            (Ext::Mutable, true) => {
                let end = self.dheader()?;
                let (id, _mu, size, start, lc) = self.emheader()?;
                if id != 0 {
                    return Err(format!("mutable union: first member id {id}, expected the discriminator (0)"));
                }
                self.pos = start;
                let d = self.disc(u.disc)?;
                if self.pos - start != size {
                    self.complain(format!("emheader-lc{lc}-size-mismatch-discriminator"));
                    self.pos = start + size;
                }
                let mut sel = None;
                if self.pos < end {
                    self.align(4)?;
                    let (id, _mu, size, start, lc) = self.emheader()?;
                    let i = Self::select(u, d).ok_or("member present but discriminator selects none")?;
                    if u.cases[i].id != id {
                        return Err(format!("union member id {id} does not match the discriminator"));
                    }
                    self.pos = start;
                    let v = self.value(&u.cases[i].ty)?;
                    if self.pos - start != size {
                        self.complain(format!("emheader-lc{}-size-mismatch-{}", lc, u.cases[i].ty.kind_name()));
                        self.pos = start + size;
                    }
                    sel = Some((i, Box::new(v)));
                }
                self.end_dheader(end, "union");
                Ok(Val::Union(d, sel))
            }
            (Ext::Mutable, false) => {
                let (id, _mu, len, is_end) = self.param_header(true)?;
                if is_end || id != 0 {
                    return Err("mutable union: discriminator parameter expected".into());
                }
                let start = self.pos;
                let saved = self.origin;
                self.origin = self.pos;
                let d = self.disc(u.disc)?;
                if !self.q.v1_origin_sticky {
                    self.origin = saved;
                }
                self.pos = start + len.max(self.pos - start);
                let (id, _mu, len, is_end) = self.param_header(true)?;
                if is_end {
                    return Ok(Val::Union(d, None));
                }
                let i = Self::select(u, d).ok_or("member present but discriminator selects none")?;
                if u.cases[i].id != id {
                    return Err(format!("union member id {id} does not match the discriminator"));
                }
                let v = self.param_value(&u.cases[i].ty, len, "union")?;
                let (_, _, _, is_end) = self.param_header(true)?;
                if !is_end {
                    return Err("mutable union: list end expected".into());
                }
                Ok(Val::Union(d, Some((i, Box::new(v)))))
            }
        }
    }
}

pub struct Decoded {
    pub val: Val,
    pub complaints: BTreeSet<String>,
}

/// Strict decode of a complete encapsulated sample.
pub fn decode(s: &StructTy, bytes: &[u8], q: Quirks) -> Result<Decoded, String> {
    if bytes.len() < 4 {
        return Err("shorter than the encapsulation header".into());
    }
    let id = bytes[1];
    let be = id & 1 == 0;
    let v2 = id >= 6;
    let mut d = Dec { buf: bytes, pos: 4, be, v2, origin: 4, q, complaints: BTreeSet::new() };
    let expect = enc_header(s.ext, v2, be);
    if bytes[0] != 0 || bytes[1] != expect[1] {
        d.complain(format!("representation-identifier-{:02x}{:02x}-for-{}", bytes[0], bytes[1], s.ext.name()));
    }
    let val = d.structure(s)?;
    let pad = (bytes[3] & 3) as usize;
    if bytes.len() % 4 != 0 {
        d.complain("total-length-not-multiple-of-4");
    }
    if bytes.len() - d.pos != pad {
        d.complain("encapsulation-padding-count-mismatch");
    }
    if bytes[2] != 0 || bytes[3] & !3 != 0 {
        d.complain("encapsulation-options-bits");
    }
    Ok(Decoded { val, complaints: d.complaints })
}

